// vcheck runs one property check: regenerate the overlay from /repo's working tree, build the
// instrumented test binary, replay the conformance corpus against the uninstrumented build, run
// the check's shards, merge their reports into /verif/evidence/<ID>.json and print
// VIOLATION / KNOWN-FINDING lines. Exit 0 = held, 1 = violation, 2 = broken harness.
package main

import (
	"bytes"
	"encoding/json"
	"flag"
	"fmt"
	"os"
	"os/exec"
	"path/filepath"
	"regexp"
	"sort"
	"strconv"
	"strings"
	"sync"
	"time"

	"verif/internal/overlay"
)

// repo is the checkout under verification (overridable for background runs on a snapshot).
var repo = func() string {
	if d := os.Getenv("VERIF_REPO_DIR"); d != "" {
		return d
	}
	return "/repo"
}()

// verif is the directory holding the framework (overridable for background runs from a snapshot).
var verif = func() string {
	if d := os.Getenv("VERIF_DIR"); d != "" {
		return d
	}
	return "/verif"
}()

type violation struct {
	Key    string          `json:"key"`
	Msg    string          `json:"msg"`
	Replay json.RawMessage `json:"replay"`
	Count  int64           `json:"count"`
}

type report struct {
	Property      string           `json:"property"`
	Evaluations   int64            `json:"evaluations"`
	Transitions   int64            `json:"transitions"`
	Validated     int64            `json:"validated"`
	Classes       map[string]int64 `json:"classes"`
	Nontrivial    map[string]bool  `json:"nontrivial"`
	Violations    []*violation     `json:"violations"`
	Samples       []any            `json:"samples"`
	Exhaustive    bool             `json:"exhaustive"`
	Caps          []string         `json:"caps"`
	Bounds        map[string]any   `json:"bounds"`
	HarnessErrors []string         `json:"harness_errors"`
	Extra         map[string]any   `json:"extra"`
	WallS         float64          `json:"wall_s"`
}

type spec struct {
	shardsQuick, shardsThorough     int
	deadlineQuick, deadlineThorough int // seconds, internal (exit 0 with exhaustive:false when reached)
}

var specs = map[string]spec{}

// raceTests names, per property, the free-running test that is built with -race and run once
// after the exhaustive exploration (supporting evidence for the data-race clauses; sampling).
var raceTests = map[string]string{"C02": "TestVerifC02Race", "C10": "TestVerifC10Race", "C20": "TestVerifC20Race"}

func specFor(id string) spec {
	if s, ok := specs[id]; ok {
		return s
	}
	return spec{16, 16, 240, 1500}
}

func goEnv() []string {
	env := os.Environ()
	return append(env, "GOFLAGS=-mod=mod", "GOPROXY=off", "GOSUMDB=off", "GOTOOLCHAIN=local", "CGO_ENABLED=0")
}

func run(dir string, env []string, name string, args ...string) (string, error) {
	cmd := exec.Command(name, args...)
	cmd.Dir = dir
	cmd.Env = env
	var out bytes.Buffer
	cmd.Stdout = &out
	cmd.Stderr = &out
	err := cmd.Run()
	return out.String(), err
}

func fatal(code int, format string, args ...any) {
	fmt.Fprintf(os.Stderr, format+"\n", args...)
	os.Exit(code)
}

type known struct {
	prop, key, desc string
}

func loadKnown() []known {
	b, err := os.ReadFile(filepath.Join(verif, "known_findings.txt"))
	if err != nil {
		return nil
	}
	var ks []known
	for _, line := range strings.Split(string(b), "\n") {
		line = strings.TrimSpace(line)
		if !strings.HasPrefix(line, "finding:") {
			continue
		}
		var k known
		rest := strings.TrimSpace(strings.TrimPrefix(line, "finding:"))
		for _, f := range strings.Fields(rest) {
			if strings.HasPrefix(f, "property=") && k.prop == "" {
				k.prop = strings.TrimPrefix(f, "property=")
			} else if strings.HasPrefix(f, "key=") && k.key == "" {
				k.key = strings.TrimPrefix(f, "key=")
			}
		}
		if i := strings.Index(rest, "::"); i >= 0 {
			k.desc = strings.TrimSpace(rest[i+2:])
		}
		if k.prop != "" && k.key != "" {
			ks = append(ks, k)
		}
	}
	return ks
}

func (k known) matches(prop, key string) bool {
	if k.prop != prop {
		return false
	}
	if strings.HasSuffix(k.key, "*") {
		return strings.HasPrefix(key, strings.TrimSuffix(k.key, "*"))
	}
	return k.key == key
}

func conformanceFiles() []string {
	var files []string
	for _, g := range []string{"testdata/examples/*.yaml", "testdata/ok/*.yaml", "testdata/err/*.yaml"} {
		m, _ := filepath.Glob(filepath.Join(repo, g))
		files = append(files, m...)
	}
	sort.Strings(files)
	return files
}

func main() {
	shards := flag.Int("shards", 0, "override number of shard processes")
	keep := flag.Bool("keep", false, "keep the scratch directory")
	replay := flag.String("replay", "", "replay file")
	noConf := flag.Bool("no-conformance", false, "skip the conformance replay (debugging only)")
	flag.Parse()
	args := flag.Args()
	if len(args) >= 1 && args[0] == "setup" {
		setup()
		return
	}
	var id, tier string
	if *replay != "" {
		if abs, err := filepath.Abs(*replay); err == nil {
			*replay = abs // the test binary runs in another directory
		}
		b, err := os.ReadFile(*replay)
		if err != nil {
			fatal(2, "%v", err)
		}
		var f struct{ Property, Tier string }
		if err := json.Unmarshal(b, &f); err != nil {
			fatal(2, "%v", err)
		}
		id, tier = f.Property, f.Tier
	} else {
		if len(args) != 2 {
			fatal(2, "usage: vcheck [flags] <ID> <quick|thorough> | vcheck --replay <file> | vcheck setup")
		}
		id, tier = args[0], args[1]
	}
	if t := os.Getenv("VERIF_TIER"); t != "" && *replay == "" && len(args) == 2 && args[1] == "" {
		tier = t
	}
	if tier != "quick" && tier != "thorough" {
		fatal(2, "tier must be quick or thorough")
	}
	seed, _ := strconv.Atoi(os.Getenv("VERIF_SEED"))
	start := time.Now()

	scratch, err := os.MkdirTemp("", "vcheck-"+id+"-")
	if err != nil {
		fatal(2, "%v", err)
	}
	if !*keep {
		defer os.RemoveAll(scratch)
	} else {
		fmt.Fprintln(os.Stderr, "scratch:", scratch)
	}
	exit := func(code int) {
		if !*keep {
			os.RemoveAll(scratch)
		}
		os.Exit(code)
	}

	harness := []string{"common.go", strings.ToLower(id) + ".go"}
	extra, _ := filepath.Glob(filepath.Join(verif, "ovl", "harness", strings.ToLower(id)+"_*.go"))
	for _, e := range extra {
		harness = append(harness, filepath.Base(e))
	}
	shared, _ := filepath.Glob(filepath.Join(verif, "ovl", "harness", "lib_*.go"))
	for _, e := range shared {
		harness = append(harness, filepath.Base(e))
	}
	ov, err := overlay.Generate(overlay.Options{Repo: repo, Verif: verif, Scratch: scratch, Harness: harness})
	if err != nil {
		fmt.Fprintf(os.Stderr, "overlay generation failed (does /repo compile?): %v\n", err)
		exit(2)
	}

	// builds in parallel
	env := goEnv()
	tbin := filepath.Join(scratch, "t.bin")
	plain := filepath.Join(scratch, "plain")
	ovcli := filepath.Join(scratch, "ovcli")
	var wg sync.WaitGroup
	var outs [4]string
	var errs [4]error
	rbin := filepath.Join(scratch, "t-race.bin")
	raceTest := raceTests[id]
	if *replay != "" {
		raceTest = ""
	}
	wg.Add(4)
	go func() {
		defer wg.Done()
		if raceTest == "" {
			return
		}
		renv := append(os.Environ(), "GOFLAGS=-mod=mod", "GOPROXY=off", "GOSUMDB=off", "GOTOOLCHAIN=local", "CGO_ENABLED=1")
		outs[3], errs[3] = run(repo, renv, "go", "test", "-race", "-c", "-overlay", ov.OverlayJSON, "-vet=off", "-o", rbin, ".")
	}()
	go func() {
		defer wg.Done()
		outs[0], errs[0] = run(repo, env, "go", "test", "-c", "-overlay", ov.OverlayJSON, "-vet=off", "-o", tbin, ".")
	}()
	go func() {
		defer wg.Done()
		if *noConf {
			return
		}
		outs[1], errs[1] = run(repo, env, "go", "build", "-o", plain, "./cmd/actionlint")
	}()
	go func() {
		defer wg.Done()
		if *noConf {
			return
		}
		outs[2], errs[2] = run(repo, env, "go", "build", "-overlay", ov.OverlayJSON, "-o", ovcli, "./cmd/actionlint")
	}()
	wg.Wait()
	for i, e := range errs {
		if e != nil {
			fmt.Fprintf(os.Stderr, "build %d failed: %v\n%s\n", i, e, outs[i])
			exit(2)
		}
	}

	// conformance replay of the instrumented build against the uninstrumented one
	conf := map[string]any{"skipped": true}
	if !*noConf {
		files := conformanceFiles()
		cargs := append([]string{"-oneline", "-no-color", "-shellcheck=", "-pyflakes="}, files...)
		o1, _ := run(repo, os.Environ(), plain, cargs...)
		o2, _ := run(repo, os.Environ(), ovcli, cargs...)
		l1, l2 := strings.Split(o1, "\n"), strings.Split(o2, "\n")
		sort.Strings(l1)
		sort.Strings(l2)
		plainRuns := 1
		if strings.Join(l1, "\n") != strings.Join(l2, "\n") {
			// The plain build is itself subject to map-order effects (property C02), so a line may
			// legitimately differ between two plain runs. Collect several plain runs: the overlay
			// build must print only lines some plain run prints, and every line all plain runs print.
			union, inter := map[string]int{}, map[string]int{}
			for _, l := range l1 {
				union[l]++
			}
			for k, v := range union {
				inter[k] = v
			}
			for ; plainRuns < 8; plainRuns++ {
				o, _ := run(repo, os.Environ(), plain, cargs...)
				cnt := map[string]int{}
				for _, l := range strings.Split(o, "\n") {
					cnt[l]++
				}
				for k, v := range cnt {
					if v > union[k] {
						union[k] = v
					}
				}
				for k, v := range inter {
					if cnt[k] < v {
						inter[k] = cnt[k]
					}
				}
			}
			got := map[string]int{}
			for _, l := range l2 {
				got[l]++
			}
			var bad []string
			for k, v := range got {
				if v > union[k] {
					bad = append(bad, "only in instrumented build: "+k)
				}
			}
			for k, v := range inter {
				if got[k] < v {
					bad = append(bad, "missing in instrumented build: "+k)
				}
			}
			if len(bad) > 0 {
				sort.Strings(bad)
				os.WriteFile(filepath.Join(verif, "evidence", "conformance-mismatch.txt"), []byte(strings.Join(bad, "\n")+"\n"), 0o644)
				fmt.Fprintf(os.Stderr, "BROKEN HARNESS: instrumented build disagrees with the plain build on the conformance corpus (see evidence/conformance-mismatch.txt)\n%s\n", tail(strings.Join(bad, "\n"), 10))
				exit(2)
			}
		}
		conf = map[string]any{"files": len(files), "diagnostic_lines_compared": len(l1), "equal_as_multisets": true, "plain_runs": plainRuns}
	}

	sp := specFor(id)
	n, dl := sp.shardsQuick, sp.deadlineQuick
	if tier == "thorough" {
		n, dl = sp.shardsThorough, sp.deadlineThorough
	}
	if *shards > 0 {
		n = *shards
	}
	if *replay != "" {
		n = 1
	}
	if v := os.Getenv("VERIF_DEADLINE_S"); v != "" {
		dl, _ = strconv.Atoi(v)
	}
	reports := make([]*report, n)
	logs := make([]string, n)
	rerrs := make([]error, n)
	wg.Add(n)
	for i := 0; i < n; i++ {
		go func(i int) {
			defer wg.Done()
			work := filepath.Join(scratch, fmt.Sprintf("work-%d", i))
			os.MkdirAll(work, 0o755)
			out := filepath.Join(scratch, fmt.Sprintf("out-%d.json", i))
			e := append(os.Environ(),
				"VERIF_TIER="+tier, "VERIF_SHARD="+strconv.Itoa(i), "VERIF_NSHARDS="+strconv.Itoa(n),
				"VERIF_OUT="+out, "VERIF_WORK="+work, "VERIF_REPO="+repo, "VERIF_SITES="+filepath.Join(scratch, "sites.json"),
				"VERIF_DEADLINE_S="+strconv.Itoa(dl), "VERIF_SEED="+strconv.Itoa(seed), "VERIF_TBIN="+tbin,
				"GOMAXPROCS=2")
			if *replay != "" {
				e = append(e, "VERIF_REPLAY="+*replay)
			}
			logs[i], rerrs[i] = run(work, e, tbin, "-test.run", "^TestVerif"+id+"$", "-test.count=1", "-test.timeout=0", "-test.v")
			b, err := os.ReadFile(out)
			if err != nil {
				if rerrs[i] == nil {
					rerrs[i] = err
				}
				return
			}
			var r report
			if err := json.Unmarshal(b, &r); err != nil {
				rerrs[i] = err
				return
			}
			reports[i] = &r
		}(i)
	}
	wg.Wait()
	if *replay != "" {
		fmt.Print(logs[0])
	}
	// free-running -race pass
	var raceViolations []*violation
	raceInfo := map[string]any{}
	if raceTest != "" {
		work := filepath.Join(scratch, "work-race")
		os.MkdirAll(work, 0o755)
		reps := "4"
		if tier == "thorough" {
			reps = "25"
		}
		e := append(os.Environ(), "VERIF_TIER="+tier, "VERIF_WORK="+work, "VERIF_REPO="+repo, "VERIF_RACE_REPS="+reps, "GORACE=halt_on_error=0")
		log, rerr := run(work, e, rbin, "-test.run", "^"+raceTest+"$", "-test.count=1", "-test.timeout=0")
		nraces := strings.Count(log, "WARNING: DATA RACE")
		raceInfo = map[string]any{"test": raceTest, "data_races_reported": nraces, "repetitions_per_gomaxprocs": reps, "gomaxprocs": []int{2, 4, 16}, "note": "sampling; supports the data-race-freedom assumption, does not decide it"}
		if m := regexp.MustCompile(`VERIF-RACE-RUNS (\d+)`).FindStringSubmatch(log); m != nil {
			raceInfo["lint_runs"] = m[1]
		}
		if nraces > 0 {
			// first frame inside actionlint of the first report
			site := "unknown"
			for _, l := range strings.Split(log, "\n") {
				l = strings.TrimSpace(l)
				if strings.HasPrefix(l, "/repo/") && !strings.Contains(l, "zz_verif_") {
					site = strings.TrimPrefix(strings.Fields(l)[0], "/repo/")
					break
				}
			}
			i := strings.Index(log, "WARNING: DATA RACE")
			rb, _ := json.Marshal(map[string]any{"race_report": tailN(log[i:], 60)})
			raceViolations = append(raceViolations, &violation{Key: "data-race:" + site, Msg: fmt.Sprintf("the race detector reported %d data race(s) in the free-running pass, first at %s", nraces, site), Replay: rb, Count: int64(nraces)})
		} else if rerr != nil {
			// a panic inside the code under test (not in the harness or the shims) during the
			// free-running pass is a failure of the run, not of the harness
			site := ""
			if i := strings.Index(log, "panic: "); i >= 0 {
				for _, l := range strings.Split(log[i:], "\n") {
					l = strings.TrimSpace(l)
					if strings.HasPrefix(l, "/repo/") {
						if strings.Contains(l, "zz_verif_") || strings.Contains(l, "verifshim") {
							break // the first actionlint frame is the harness itself
						}
						site = strings.TrimPrefix(strings.Fields(l)[0], "/repo/")
						break
					}
				}
			}
			if site == "" {
				fmt.Fprintf(os.Stderr, "BROKEN HARNESS: race pass failed: %v\n%s\n", rerr, tail(log, 40))
				exit(2)
			}
			i := strings.Index(log, "panic: ")
			rb, _ := json.Marshal(map[string]any{"race_pass_panic": tailN(log[i:], 40)})
			raceViolations = append(raceViolations, &violation{Key: "failure:free-running-pass:" + site, Msg: "the free-running multi-file pass panicked at " + site + ": " + tailN(log[i:], 3), Replay: rb, Count: 1})
		}
	}

	broken := false
	var crashes []*violation
	for i := range reports {
		// a shard killed by an unrecoverable runtime error (stack overflow, concurrent map access,
		// out of memory) while a case was running: attributed through the progress file the
		// harness' watchdog keeps (see common.go Begin), reported as a violation, not as a harness
		// failure.
		if reports[i] == nil && rerrs[i] != nil {
			out := filepath.Join(scratch, fmt.Sprintf("out-%d.json", i))
			prog, perr := os.ReadFile(out + ".progress")
			fatal := ""
			for _, l := range strings.Split(logs[i], "\n") {
				if strings.HasPrefix(l, "fatal error:") || strings.HasPrefix(l, "runtime: goroutine stack exceeds") {
					fatal = l
					break
				}
			}
			if perr == nil && fatal != "" {
				cb, _ := json.Marshal(map[string]any{"case": string(prog), "crash": fatal, "log_tail": tail(logs[i], 40)})
				crashes = append(crashes, &violation{Key: "crash:" + oneLine(fatal, 80), Msg: fmt.Sprintf("process crashed (%s) while running: %s", fatal, oneLine(string(prog), 300)), Replay: cb, Count: 1})
				reports[i] = &report{Property: id, Classes: map[string]int64{}, Nontrivial: map[string]bool{}, Exhaustive: false, Caps: []string{fmt.Sprintf("shard %d crashed", i)}}
				rerrs[i] = nil
				continue
			}
		}
		if reports[i] == nil || rerrs[i] != nil {
			fmt.Fprintf(os.Stderr, "BROKEN HARNESS: shard %d failed: %v\n%s\n", i, rerrs[i], tail(logs[i], 60))
			broken = true
		}
	}
	if broken {
		exit(2)
	}

	// merge
	m := &report{Property: id, Classes: map[string]int64{}, Nontrivial: map[string]bool{}, Exhaustive: true, Bounds: map[string]any{}, Extra: map[string]any{}}
	vk := map[string]*violation{}
	for _, r := range reports {
		m.Evaluations += r.Evaluations
		m.Transitions += r.Transitions
		m.Validated += r.Validated
		for k, v := range r.Classes {
			m.Classes[k] += v
		}
		for k := range r.Nontrivial {
			m.Nontrivial[k] = true
		}
		for _, v := range r.Violations {
			if o, ok := vk[v.Key]; ok {
				o.Count += v.Count
			} else {
				vk[v.Key] = v
				m.Violations = append(m.Violations, v)
			}
		}
		if len(m.Samples) < 8 {
			m.Samples = append(m.Samples, r.Samples...)
		}
		if !r.Exhaustive {
			m.Exhaustive = false
		}
		for _, c := range r.Caps {
			if !contains(m.Caps, c) {
				m.Caps = append(m.Caps, c)
			}
		}
		for k, v := range r.Bounds {
			m.Bounds[k] = v
		}
		for k, v := range r.Extra {
			if old, ok := m.Extra[k]; ok {
				if a, ok1 := old.(float64); ok1 {
					if b, ok2 := v.(float64); ok2 && strings.HasPrefix(k, "sum_") {
						m.Extra[k] = a + b
						continue
					}
				}
			}
			m.Extra[k] = v
		}
		for _, h := range r.HarnessErrors {
			if !contains(m.HarnessErrors, h) {
				m.HarnessErrors = append(m.HarnessErrors, h)
			}
		}
	}
	if len(m.Samples) > 8 {
		m.Samples = m.Samples[:8]
	}
	m.Violations = append(m.Violations, crashes...)
	m.Violations = append(m.Violations, raceViolations...)
	sort.Slice(m.Violations, func(i, j int) bool { return m.Violations[i].Key < m.Violations[j].Key })

	// classify violations against the known-findings file
	kn := loadKnown()
	var fresh []*violation
	var knownLines []string
	for _, v := range m.Violations {
		matched := false
		for _, k := range kn {
			if k.matches(id, v.Key) {
				knownLines = append(knownLines, fmt.Sprintf("KNOWN-FINDING: property=%s key=%s %s (%d cases; e.g. %s)", id, v.Key, k.desc, v.Count, oneLine(v.Msg, 160)))
				matched = true
				break
			}
		}
		if !matched {
			fresh = append(fresh, v)
		}
	}

	nontriv := len(m.Nontrivial)
	states := len(m.Classes)
	if states == 0 {
		m.HarnessErrors = append(m.HarnessErrors, "no outcome classes recorded (vacuous run)")
	}
	rule, _ := m.Extra["rule"].(string)
	delete(m.Extra, "rule")
	var assumptions []string
	if a, ok := m.Extra["assumptions"].([]any); ok {
		for _, s := range a {
			assumptions = append(assumptions, fmt.Sprint(s))
		}
	}
	delete(m.Extra, "assumptions")
	if len(m.Samples) == 0 {
		m.Samples = append(m.Samples, "no sample recorded")
	}
	cov := map[string]any{
		"states": states, "transitions": m.Transitions, "traces_validated_against_impl": m.Validated,
		"samples": m.Samples, "evaluations": m.Evaluations, "distinct_nontrivial": nontriv, "rule": rule,
		"exhaustive": m.Exhaustive, "bounds": m.Bounds, "caps_hit": m.Caps, "shards": n,
		"conformance_replay": conf, "overlay": map[string]any{"map_range_sites": len(ov.Sites), "files_rewritten": ov.Rewritten, "go_statements": ov.GoStmts},
		"known_findings_hit": len(knownLines),
	}
	if len(raceInfo) > 0 {
		cov["race_pass"] = raceInfo
	}
	for k, v := range m.Extra {
		cov[k] = v
	}
	ev := map[string]any{
		"property_id": id, "tier": tier, "seed": seed, "level": "model_checking", "coverage": cov,
		"assumptions": assumptions, "wall_s": time.Since(start).Seconds(), "violations": len(fresh),
	}
	if *replay == "" {
		os.MkdirAll(filepath.Join(verif, "evidence"), 0o755)
		b, _ := json.MarshalIndent(ev, "", " ")
		if err := os.WriteFile(filepath.Join(verif, "evidence", id+".json"), append(b, '\n'), 0o644); err != nil {
			fatal(2, "%v", err)
		}
	}

	fmt.Printf("%s %s: evaluations=%d states=%d transitions=%d validated=%d nontrivial=%d exhaustive=%v caps=%v wall=%.1fs\n",
		id, tier, m.Evaluations, states, m.Transitions, m.Validated, nontriv, m.Exhaustive, m.Caps, time.Since(start).Seconds())
	for _, l := range knownLines {
		fmt.Println(l)
	}
	if len(m.HarnessErrors) > 0 {
		for _, h := range m.HarnessErrors {
			fmt.Fprintf(os.Stderr, "BROKEN HARNESS: %s\n", h)
		}
		exit(2)
	}
	if *replay == "" {
		// replay files of an earlier run of this tier are stale now
		if old, _ := filepath.Glob(filepath.Join(verif, "replays", id, tier+"-*.json")); len(old) > 0 {
			for _, o := range old {
				os.Remove(o)
			}
		}
	}
	if len(fresh) > 0 {
		rdir := filepath.Join(verif, "replays", id)
		os.MkdirAll(rdir, 0o755)
		for i, v := range fresh {
			p := filepath.Join(rdir, fmt.Sprintf("%s-%d.json", tier, i))
			b, _ := json.MarshalIndent(map[string]any{"property": id, "tier": tier, "key": v.Key, "msg": v.Msg, "count": v.Count, "replay": v.Replay}, "", " ")
			os.WriteFile(p, b, 0o644)
			fmt.Printf("VIOLATION property=%s replay=%s\n", id, p)
			fmt.Printf("  key=%s cases=%d: %s\n", v.Key, v.Count, oneLine(v.Msg, 400))
		}
		exit(1)
	}
	exit(0)
}

func contains(xs []string, s string) bool {
	for _, x := range xs {
		if x == s {
			return true
		}
	}
	return false
}

func oneLine(s string, n int) string {
	s = strings.ReplaceAll(s, "\n", "\\n")
	if len(s) > n {
		s = s[:n] + "…"
	}
	return s
}

func tailN(s string, n int) string {
	lines := strings.Split(s, "\n")
	if len(lines) > n {
		lines = lines[:n]
	}
	return strings.Join(lines, "\n")
}

func tail(s string, n int) string {
	lines := strings.Split(s, "\n")
	if len(lines) > n {
		lines = lines[len(lines)-n:]
	}
	return strings.Join(lines, "\n")
}

// setup warms the build cache: plain and overlaid builds of the CLI and the test binary.
func setup() {
	scratch, err := os.MkdirTemp("", "vcheck-setup-")
	if err != nil {
		fatal(2, "%v", err)
	}
	defer os.RemoveAll(scratch)
	ov, err := overlay.Generate(overlay.Options{Repo: repo, Verif: verif, Scratch: scratch, Harness: []string{"common.go"}})
	if err != nil {
		fatal(2, "%v", err)
	}
	renv := append(os.Environ(), "GOFLAGS=-mod=mod", "GOPROXY=off", "GOSUMDB=off", "GOTOOLCHAIN=local", "CGO_ENABLED=1")
	for i, a := range [][]string{
		{"build", "-o", filepath.Join(scratch, "plain"), "./cmd/actionlint"},
		{"build", "-overlay", ov.OverlayJSON, "-o", filepath.Join(scratch, "ovcli"), "./cmd/actionlint"},
		{"test", "-c", "-overlay", ov.OverlayJSON, "-vet=off", "-o", filepath.Join(scratch, "t.bin"), "."},
		{"test", "-race", "-c", "-overlay", ov.OverlayJSON, "-vet=off", "-o", filepath.Join(scratch, "t-race.bin"), "."},
	} {
		env := goEnv()
		if i == 3 {
			env = renv
		}
		if out, err := run(repo, env, "go", a...); err != nil {
			fatal(2, "setup build failed: %v\n%s", err, out)
		}
	}
	fmt.Println("setup ok")
}
