// mkoverlay prints the overlay that vcheck would use (debugging aid).
package main

import (
	"fmt"
	"os"

	"verif/internal/overlay"
)

func main() {
	scratch := "/tmp/mkoverlay-out"
	if len(os.Args) > 1 {
		scratch = os.Args[1]
	}
	os.MkdirAll(scratch, 0o755)
	res, err := overlay.Generate(overlay.Options{Repo: "/repo", Verif: "/verif", Scratch: scratch, Harness: os.Args[min(2, len(os.Args)):]})
	if err != nil {
		fmt.Fprintln(os.Stderr, err)
		os.Exit(2)
	}
	fmt.Println(res.OverlayJSON, "sites:", len(res.Sites), "files:", res.Rewritten, "go stmts:", res.GoStmts)
}
