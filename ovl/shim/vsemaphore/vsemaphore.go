//go:build go1.23

// Package vsemaphore mirrors golang.org/x/sync/semaphore.Weighted on top of vsched.
package vsemaphore

import (
	"context"

	"golang.org/x/sync/semaphore"

	"github.com/rhysd/actionlint/verifshim/vsched"
)

// Weighted is a controlled semaphore (FIFO fairness is not modelled).
type Weighted struct {
	real *semaphore.Weighted
	size int64
	cur  int64
	Max  int64 // high-water mark (monitor)
}

// NewWeighted mirrors semaphore.NewWeighted.
func NewWeighted(n int64) *Weighted {
	return &Weighted{real: semaphore.NewWeighted(n), size: n}
}

func (s *Weighted) Enabled(op vsched.Op, arg int) bool {
	if op == vsched.OpAcquire {
		return s.size-s.cur >= int64(arg) || int64(arg) > s.size
	}
	return true
}

// Acquire mirrors semaphore.Weighted.Acquire.
func (s *Weighted) Acquire(ctx context.Context, n int64) error {
	if x := vsched.Cur(); x != nil {
		if err := ctx.Err(); err != nil {
			return err
		}
		x.Point(vsched.OpAcquire, s, int(n))
		if x.Aborting() {
			return nil
		}
		if n > s.size {
			x.Fail("semaphore: acquire of %d exceeds size %d (blocks forever)", n, s.size)
			return context.Canceled
		}
		s.cur += n
		if s.cur > s.Max {
			s.Max = s.cur
		}
		return nil
	}
	return s.real.Acquire(ctx, n)
}

// TryAcquire mirrors semaphore.Weighted.TryAcquire.
func (s *Weighted) TryAcquire(n int64) bool {
	if x := vsched.Cur(); x != nil {
		x.Point(vsched.OpYield, s, int(n))
		if s.size-s.cur >= n {
			s.cur += n
			return true
		}
		return false
	}
	return s.real.TryAcquire(n)
}

// Release mirrors semaphore.Weighted.Release.
func (s *Weighted) Release(n int64) {
	if x := vsched.Cur(); x != nil {
		x.Point(vsched.OpRelease, s, int(n))
		if x.Aborting() {
			return
		}
		s.cur -= n
		if s.cur < 0 {
			x.Fail("semaphore: released more than held")
		}
		return
	}
	s.real.Release(n)
}
