//go:build go1.23

// Package vexec replaces os/exec (and execabs.LookPath) in process.go. With a Handler installed
// the operating system is scripted: a process "runs" between two visible operations
// (exec.start / exec.finish) of the controlled scheduler and its outcome is an environment choice.
// Without a Handler everything is passed to the real os/exec.
package vexec

import (
	"bytes"
	"errors"
	"fmt"
	"io"
	osexec "os/exec"

	"github.com/rhysd/actionlint/verifshim/vsched"
)

// Invocation is what the code under test handed to the operating system.
type Invocation struct {
	Name     string
	Args     []string
	Stdin    string
	Combined bool
}

// Outcome scripts one process.
type Outcome struct {
	PipeErr  error  // StdinPipe fails (with Cmd.Stdin set: the pipe made by Start fails)
	WriteErr error  // writing stdin fails (with Cmd.Stdin set: the copy made by os/exec fails)
	StartErr error  // Output/CombinedOutput fails before the process exists (not an ExitError)
	Stdout   []byte // for CombinedOutput: the combined stream
	Stderr   []byte
	ExitCode int // 0 success, >0 exit status, <0 killed by signal
}

// Handler decides the outcome of a process when it is first touched (stdin not yet known).
var Handler func(name string, args []string) Outcome

// Finished is called when a scripted process has been collected.
var Finished func(inv Invocation, out Outcome)

// LookPathFn scripts LookPath when non-nil.
var LookPathFn func(file string) (string, error)

// ErrNotFound mirrors exec.ErrNotFound.
var ErrNotFound = osexec.ErrNotFound

// Error mirrors exec.Error.
type Error = osexec.Error

// ExitError mirrors exec.ExitError.
type ExitError struct {
	Code   int
	Stderr []byte
	real   *osexec.ExitError
}

func (e *ExitError) Error() string {
	if e.real != nil {
		return e.real.Error()
	}
	if e.Code < 0 {
		return "signal: killed"
	}
	return fmt.Sprintf("exit status %d", e.Code)
}

// ExitCode mirrors (*os.ProcessState).ExitCode: -1 if killed by a signal.
func (e *ExitError) ExitCode() int {
	if e.real != nil {
		return e.real.ExitCode()
	}
	if e.Code < 0 {
		return -1
	}
	return e.Code
}

// Cmd mirrors the used part of exec.Cmd.
type Cmd struct {
	Path   string
	Args   []string
	Env    []string
	Dir    string
	Stdin  io.Reader
	Stdout io.Writer
	Stderr io.Writer

	real    *osexec.Cmd
	decided bool
	out     Outcome
	stdin   bytes.Buffer
	piped   bool
}

// Command mirrors exec.Command.
func Command(name string, arg ...string) *Cmd {
	c := &Cmd{Path: name, Args: append([]string{name}, arg...)}
	if Handler == nil {
		c.real = osexec.Command(name, arg...)
	}
	return c
}

func (c *Cmd) decide() {
	if !c.decided {
		c.decided = true
		c.out = Handler(c.Path, c.Args[1:])
	}
}

func (c *Cmd) sync() {
	c.real.Env, c.real.Dir = c.Env, c.Dir
	if c.Stdin != nil {
		c.real.Stdin = c.Stdin
	}
	if c.Stdout != nil {
		c.real.Stdout = c.Stdout
	}
	if c.Stderr != nil {
		c.real.Stderr = c.Stderr
	}
}

type pipe struct{ c *Cmd }

func (p pipe) Write(b []byte) (int, error) {
	if p.c.out.WriteErr != nil {
		return 0, p.c.out.WriteErr
	}
	return p.c.stdin.Write(b)
}
func (p pipe) Close() error { return nil }

// StdinPipe mirrors exec.Cmd.StdinPipe.
func (c *Cmd) StdinPipe() (io.WriteCloser, error) {
	if c.real != nil {
		c.sync()
		return c.real.StdinPipe()
	}
	c.decide()
	if c.out.PipeErr != nil {
		return nil, c.out.PipeErr
	}
	if c.piped || c.Stdin != nil {
		return nil, errors.New("exec: Stdin already set")
	}
	c.piped = true
	return pipe{c}, nil
}

func convErr(err error) error {
	var ee *osexec.ExitError
	if errors.As(err, &ee) && err == error(ee) {
		return &ExitError{Stderr: ee.Stderr, real: ee}
	}
	return err
}

func (c *Cmd) scripted(combined bool) ([]byte, error) {
	c.decide()
	if c.out.StartErr != nil {
		return nil, c.out.StartErr
	}
	var copyErr error
	if !c.piped && c.Stdin != nil {
		// os/exec makes the pipe in Start (a failure is a start failure) and copies Stdin in a
		// goroutine of its own; a copy error is returned by Wait unless the process failed itself
		if c.out.PipeErr != nil {
			return nil, c.out.PipeErr
		}
		if c.out.WriteErr != nil {
			copyErr = c.out.WriteErr
		} else {
			io.Copy(&c.stdin, c.Stdin)
		}
	}
	inv := Invocation{Name: c.Path, Args: c.Args[1:], Stdin: c.stdin.String(), Combined: combined}
	if x := vsched.Cur(); x != nil {
		x.Point(vsched.OpExecStart, vsched.ProcTable, 0)
		x.ExecRunning++
		if x.ExecRunning > x.ExecRunningMax {
			x.ExecRunningMax = x.ExecRunning
		}
		x.Event("exec.start %s", c.Path)
		x.Point(vsched.OpExecFinish, vsched.ProcTable, 0)
		x.ExecRunning--
		x.Event("exec.finish %s", c.Path)
	}
	if Finished != nil {
		Finished(inv, c.out)
	}
	if c.out.ExitCode != 0 {
		ee := &ExitError{Code: c.out.ExitCode}
		if !combined {
			ee.Stderr = c.out.Stderr
		}
		return c.out.Stdout, ee
	}
	if copyErr != nil {
		return c.out.Stdout, copyErr
	}
	return c.out.Stdout, nil
}

// Output mirrors exec.Cmd.Output.
func (c *Cmd) Output() ([]byte, error) {
	if c.real != nil {
		c.sync()
		b, err := c.real.Output()
		return b, convErr(err)
	}
	if c.Stdout != nil {
		return nil, errors.New("exec: Stdout already set")
	}
	return c.scripted(false)
}

// CombinedOutput mirrors exec.Cmd.CombinedOutput.
func (c *Cmd) CombinedOutput() ([]byte, error) {
	if c.real != nil {
		c.sync()
		b, err := c.real.CombinedOutput()
		return b, convErr(err)
	}
	if c.Stdout != nil {
		return nil, errors.New("exec: Stdout already set")
	}
	if c.Stderr != nil {
		return nil, errors.New("exec: Stderr already set")
	}
	return c.scripted(true)
}

// Run mirrors exec.Cmd.Run.
func (c *Cmd) Run() error {
	if c.real != nil {
		c.sync()
		return convErr(c.real.Run())
	}
	b, err := c.scripted(false)
	if c.Stdout != nil {
		c.Stdout.Write(b)
	}
	return err
}

// LookPath mirrors exec.LookPath / execabs.LookPath.
func LookPath(file string) (string, error) {
	if LookPathFn != nil {
		return LookPathFn(file)
	}
	return osexec.LookPath(file)
}
