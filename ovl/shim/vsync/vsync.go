//go:build go1.23

// Package vsync mirrors the part of package sync that actionlint uses. With an execution attached
// the model state below is authoritative (exactly one thread runs at a time); otherwise the real
// primitives are used.
package vsync

import (
	"sync"

	"github.com/rhysd/actionlint/verifshim/vsched"
)

// Locker is sync.Locker.
type Locker = sync.Locker

// Once is sync.Once (no blocking behaviour worth modelling: the body runs in the first caller).
type Once = sync.Once

// Map, Pool are passed through.
type Map = sync.Map
type Pool = sync.Pool

// Mutex is a controlled sync.Mutex.
type Mutex struct {
	real   sync.Mutex
	locked bool
}

func (m *Mutex) Enabled(op vsched.Op, arg int) bool {
	if op == vsched.OpLock {
		return !m.locked
	}
	return true
}

func (m *Mutex) Lock() {
	if x := vsched.Cur(); x != nil {
		x.Point(vsched.OpLock, m, 0)
		m.locked = true
		return
	}
	m.real.Lock()
}

func (m *Mutex) TryLock() bool {
	if x := vsched.Cur(); x != nil {
		x.Point(vsched.OpYield, m, 0)
		if m.locked {
			return false
		}
		m.locked = true
		return true
	}
	return m.real.TryLock()
}

func (m *Mutex) Unlock() {
	if x := vsched.Cur(); x != nil {
		x.Point(vsched.OpUnlock, m, 0)
		if !m.locked && !x.Aborting() {
			x.Fail("unlock of unlocked mutex")
		}
		m.locked = false
		return
	}
	m.real.Unlock()
}

// RWMutex is a controlled sync.RWMutex (writer preference is not modelled; see DESIGN appendix F).
type RWMutex struct {
	real    sync.RWMutex
	writer  bool
	readers int
}

func (m *RWMutex) Enabled(op vsched.Op, arg int) bool {
	switch op {
	case vsched.OpRLock:
		return !m.writer
	case vsched.OpLock:
		return !m.writer && m.readers == 0
	}
	return true
}

func (m *RWMutex) Lock() {
	if x := vsched.Cur(); x != nil {
		x.Point(vsched.OpLock, m, 0)
		m.writer = true
		return
	}
	m.real.Lock()
}

func (m *RWMutex) Unlock() {
	if x := vsched.Cur(); x != nil {
		x.Point(vsched.OpUnlock, m, 0)
		if !m.writer && !x.Aborting() {
			x.Fail("Unlock of RWMutex that is not write-locked")
		}
		m.writer = false
		return
	}
	m.real.Unlock()
}

func (m *RWMutex) RLock() {
	if x := vsched.Cur(); x != nil {
		x.Point(vsched.OpRLock, m, 0)
		m.readers++
		return
	}
	m.real.RLock()
}

func (m *RWMutex) RUnlock() {
	if x := vsched.Cur(); x != nil {
		x.Point(vsched.OpRUnlock, m, 0)
		if m.readers <= 0 && !x.Aborting() {
			x.Fail("RUnlock of RWMutex that is not read-locked")
		}
		m.readers--
		return
	}
	m.real.RUnlock()
}

func (m *RWMutex) RLocker() Locker { return (*rlocker)(m) }

type rlocker RWMutex

func (r *rlocker) Lock()   { (*RWMutex)(r).RLock() }
func (r *rlocker) Unlock() { (*RWMutex)(r).RUnlock() }

// WaitGroup is a controlled sync.WaitGroup.
type WaitGroup struct {
	real    sync.WaitGroup
	n       int
	waiters int
}

func (w *WaitGroup) Enabled(op vsched.Op, arg int) bool {
	if op == vsched.OpWGWait {
		return w.n == 0
	}
	return true
}

func (w *WaitGroup) Add(delta int) {
	if x := vsched.Cur(); x != nil {
		x.Point(vsched.OpWGAdd, w, delta)
		if x.Aborting() {
			return
		}
		if w.n == 0 && delta > 0 && w.waiters > 0 {
			x.Fail("WaitGroup.Add from zero while a Wait is pending (misuse: Add must happen before Wait)")
		}
		w.n += delta
		if w.n < 0 {
			x.Fail("negative WaitGroup counter")
		}
		return
	}
	w.real.Add(delta)
}

func (w *WaitGroup) Done() {
	if x := vsched.Cur(); x != nil {
		x.Point(vsched.OpWGDone, w, 0)
		if x.Aborting() {
			return
		}
		w.n--
		if w.n < 0 {
			x.Fail("negative WaitGroup counter")
		}
		return
	}
	w.real.Done()
}

func (w *WaitGroup) Wait() {
	if x := vsched.Cur(); x != nil {
		w.waiters++
		x.Point(vsched.OpWGWait, w, 0)
		w.waiters--
		x.Event("wg.wait returned unfinished=%d", x.Unfinished())
		return
	}
	w.real.Wait()
}
