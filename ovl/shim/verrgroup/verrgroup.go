//go:build go1.23

// Package verrgroup mirrors golang.org/x/sync/errgroup.Group{Go,Wait} on top of vsched.
package verrgroup

import (
	"context"

	"golang.org/x/sync/errgroup"

	"github.com/rhysd/actionlint/verifshim/vsched"
)

// Group is a controlled errgroup.Group; the zero value is ready to use.
type Group struct {
	real   errgroup.Group
	n      int
	err    error
	cancel func(error)
	limit  int
	once   onceObj
}

// onceObj stands for the sync.Once of the real Group that guards the first error.
type onceObj struct{ _ byte }

func (*onceObj) Enabled(vsched.Op, int) bool { return true }

// WithContext mirrors errgroup.WithContext.
func WithContext(ctx context.Context) (*Group, context.Context) {
	ctx, cancel := context.WithCancelCause(ctx)
	return &Group{cancel: cancel}, ctx
}

func (g *Group) Enabled(op vsched.Op, arg int) bool {
	switch op {
	case vsched.OpGroupWait:
		return g.n == 0
	case vsched.OpGo:
		return g.limit <= 0 || g.n < g.limit
	}
	return true
}

// SetLimit mirrors errgroup.Group.SetLimit.
func (g *Group) SetLimit(n int) {
	g.limit = n
	g.real.SetLimit(n)
}

// Go runs f in a new thread.
func (g *Group) Go(f func() error) {
	if x := vsched.Cur(); x != nil {
		if g.limit > 0 {
			x.Point(vsched.OpGo, g, 0)
		}
		g.n++
		x.Go("errgroup", func() {
			defer func() { g.n-- }()
			err := f()
			x.Tail()
			if err != nil {
				// errOnce.Do of the real Group: a synchronisation visible to the scheduler (which of
				// several failing threads records its error is decided here)
				x.Point(vsched.OpLock, &g.once, 0)
				x.Point(vsched.OpUnlock, &g.once, 0)
			}
			if err != nil && g.err == nil {
				g.err = err
				if g.cancel != nil {
					g.cancel(err)
				}
			}
		})
		return
	}
	g.real.Go(func() error {
		err := f()
		if err != nil && g.cancel != nil {
			g.cancel(err)
		}
		return err
	})
}

// Wait blocks until all threads of the group have exited and returns the first error.
func (g *Group) Wait() error {
	if x := vsched.Cur(); x != nil {
		x.Point(vsched.OpGroupWait, g, 0)
		if g.cancel != nil {
			g.cancel(g.err)
		}
		return g.err
	}
	err := g.real.Wait()
	if g.cancel != nil {
		g.cancel(err)
	}
	return err
}
