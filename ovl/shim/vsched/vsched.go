//go:build go1.23

// Package vsched is the controlled scheduler / choice explorer ("Engine A") that the overlay build
// links into package actionlint. It owns three kinds of nondeterminism:
//
//   - goroutine scheduling: every visible synchronisation operation of the shims (vsync, verrgroup,
//     vsemaphore, vexec) calls Point before it takes effect; exactly one thread runs at a time
//     (baton passing) and the explorer picks who goes next;
//   - map iteration order: every `range m` over a map is rewritten to MapRange(m, site) which asks
//     the explorer for a permutation of the canonically sorted keys;
//   - environment answers (tool outcomes in vexec): Choose(KindFault, ...).
//
// One execution is a sequence of choices; Explore does a stateless depth-first search over all
// choice sequences within the preemption / deviation / fault budgets.
//
// With no execution attached (Cur() == nil) everything delegates to the real primitives, so the
// same build also runs free (conformance replay, -race pass, Engine B checks).
package vsched

import (
	"fmt"
	"iter"
	"os"
	"reflect"
	"runtime"
	"runtime/debug"
	"sort"
	"strings"
	"time"
)

// ---------------------------------------------------------------------------------------------
// kinds and ops

// Kind of a choice point.
type Kind uint8

const (
	KindSched Kind = iota // which thread runs next
	KindMap               // permutation of a map's keys
	KindFault             // environment answer
)

func (k Kind) String() string { return [...]string{"sched", "map", "fault"}[k] }

// Op is a visible operation.
type Op uint8

const (
	OpStart Op = iota
	OpLock
	OpUnlock
	OpRLock
	OpRUnlock
	OpWGAdd
	OpWGDone
	OpWGWait
	OpGo
	OpGroupWait
	OpAcquire
	OpRelease
	OpExecStart
	OpExecFinish
	OpJoinAll
	OpYield
)

var opNames = [...]string{"start", "lock", "unlock", "rlock", "runlock", "wg.add", "wg.done", "wg.wait", "go", "group.wait", "acquire", "release", "exec.start", "exec.finish", "joinall", "yield"}

func (o Op) String() string { return opNames[o] }

// Object is a shim synchronisation object; Enabled says whether op (with arg) can proceed now.
type Object interface {
	Enabled(op Op, arg int) bool
}

// ---------------------------------------------------------------------------------------------
// configuration and results

// Config bounds one exploration.
type Config struct {
	MaxPreempt int // preemption budget (switching away from an enabled running thread)
	MaxDev     int // map-order deviation budget (non-identity permutations)
	MaxFault   int // non-default environment answers
	PermFull   int // maps with <= PermFull keys get all k! permutations (default 4), others identity/reverse/rotations
	// DevSites, when non-nil, restricts map deviations to these sites (others always identity).
	DevSites map[int]bool
	// FreeSites get unbounded deviations (do not consume MaxDev).
	FreeSites  map[int]bool
	NumCPU     int       // value returned by NumCPU() while attached (0 = real)
	MaxProcs   int       // value returned by GOMAXPROCS(0) while attached (0 = the same as NumCPU): GOMAXPROCS can be set above the number of CPUs
	Deadline   time.Time // zero = none; when reached the search stops with Exhaustive=false
	MaxExecs   int64     // 0 = none
	Shard      int
	NShards    int // 0/1 = no sharding; shards split the executions at depth ShardDepth+1 of the search tree
	ShardDepth int // default 1: every shard runs the root and its children, grandchildren are dealt round-robin
	Trace      bool
	// OnPoint, when set, is called at every visible operation before the scheduling decision
	// (per-point monitors such as the shared-data fingerprint of C10).
	OnPoint func(x *Exec)
	// NoStateCache disables happens-before state caching (see stateKey).
	NoStateCache bool
	// Check is called after each execution with its observation; a non-empty return is a violation.
	Check func(x *Exec, obs string) string
}

// Violation is one failing execution.
type Violation struct {
	Msg     string
	Choices []int
	Trace   []string
	Obs     string
}

// Result of an exploration.
type Result struct {
	Execs          int64
	Points         int64 // choice points with >1 alternative visited
	Steps          int64 // all visible operations executed
	Outcomes       map[string]int64
	SchedSigs      map[string]bool // distinct schedule signatures (bounded sample)
	Violations     []Violation     // one representative per class
	ViolationCount map[string]int64
	Exhaustive     bool
	Cap            string
	MaxThreads     int
	MapSites       map[int]int64 // site -> dynamic occurrences with >=2 keys
	PreemptUsed    int
	DevUsed        int
	FaultUsed      int
	HarnessErr     string
	Pruned         int64 // executions cut short because their state had been explored (HB state cache)
	States         int64 // distinct happens-before states seen at scheduling points
}

// ---------------------------------------------------------------------------------------------
// one execution

type point struct {
	kind Kind
	n    int
	free bool // alternatives do not cost budget (sched: running thread not enabled)
	site int
}

type thread struct {
	id     int
	gate   chan struct{}
	op     Op
	obj    Object
	arg    int
	done   bool
	tail   bool // the thread's function has returned; only bookkeeping of the spawning primitive remains
	name   string
	cname  [2]uint64 // canonical name: hash(parent cname, spawn index)
	hash   [2]uint64 // Merkle hash of this thread's events (each includes the object's previous hash)
	spawns uint64
}

type abortExec struct{}

// Exec is one controlled execution.
type Exec struct {
	cfg                 *Config
	prefix              []int
	choices             []int
	points              []point
	threads             []*thread
	running             int
	trace               []string
	objIDs              map[Object]int
	steps               int
	fail                []string
	aborting            bool
	teardown            bool
	exited              chan struct{}
	deadlock            bool
	leaked              int
	mapSites            map[int]int64
	objHash             map[Object][2]uint64
	cache               *stateCache
	costP, costD, costF int
	pruned              bool
	// free-form monitors for shims
	ExecRunning    int
	ExecRunningMax int
	Events         []string // shim/harness events (always recorded)
}

var cur *Exec

// Cur returns the attached execution or nil.
func Cur() *Exec { return cur }

const horizon = 200000

// Fail records a violation of this execution.
func (x *Exec) Fail(format string, args ...any) {
	x.fail = append(x.fail, fmt.Sprintf(format, args...))
}

// Event appends to the event log of this execution.
func (x *Exec) Event(format string, args ...any) {
	x.Events = append(x.Events, fmt.Sprintf(format, args...))
}

// Aborting reports whether the execution is being torn down (shims must become no-ops).
func (x *Exec) Aborting() bool { return x.aborting }

// ThreadID of the running thread.
func (x *Exec) ThreadID() int { return x.running }

// Unfinished returns the number of threads other than the caller that have not exited.
func (x *Exec) Unfinished() int {
	n := 0
	for _, t := range x.threads {
		if !t.done && !t.tail && t.id != x.running {
			n++
		}
	}
	return n
}

// Tail marks the running thread as having returned from its function: what remains of it is the
// bookkeeping of the primitive that spawned it (errgroup's errOnce), not work of the code under test.
func (x *Exec) Tail() { x.threads[x.running].tail = true }

func (x *Exec) objName(o Object) string {
	if o == nil {
		return "-"
	}
	id, ok := x.objIDs[o]
	if !ok {
		id = len(x.objIDs)
		x.objIDs[o] = id
	}
	return fmt.Sprintf("%s#%d", strings.TrimPrefix(reflect.TypeOf(o).String(), "*"), id)
}

// choose takes the next choice from the prefix, or the default 0.
func (x *Exec) choose(kind Kind, n int, free bool, site int) int {
	i := len(x.choices)
	c := 0
	if i < len(x.prefix) {
		c = x.prefix[i]
		if c < 0 || c >= n {
			panic(fmt.Sprintf("vsched: replay divergence at choice %d: prefix wants %d of %d (%s)", i, c, n, kind))
		}
	}
	x.choices = append(x.choices, c)
	x.points = append(x.points, point{kind, n, free, site})
	if c != 0 {
		switch kind {
		case KindSched:
			if !free {
				x.costP++
			}
		case KindMap:
			if !x.cfg.FreeSites[site] {
				x.costD++
			}
		case KindFault:
			x.costF++
		}
	}
	if kind != KindSched {
		t := x.threads[x.running]
		t.hash = mix2(t.hash, uint64(kind)+1, uint64(site)<<20|uint64(c))
	}
	return c
}

func mix(h, a uint64) uint64 {
	h ^= a + 0x9e3779b97f4a7c15 + (h << 6) + (h >> 2)
	h *= 0xff51afd7ed558ccd
	h ^= h >> 33
	return h
}

func mix2(h [2]uint64, a, b uint64) [2]uint64 {
	return [2]uint64{mix(mix(h[0], a), b), mix(mix(h[1]^0xc2b2ae3d27d4eb4f, b), a)}
}

// event folds one performed operation into the happens-before hashes: the event's hash covers the
// thread's previous event and the previous event on the same object, so the set of per-thread
// hashes identifies the partial order (Mazurkiewicz trace) executed so far. Under data-race
// freedom two prefixes with the same partial order lead to the same state.
func (x *Exec) event(t *thread, op Op, obj Object, arg int) {
	h := mix2(t.hash, uint64(op)+17, uint64(arg)+1)
	if obj != nil {
		o := x.objHash[obj]
		h = mix2(h, o[0], o[1])
		x.objHash[obj] = h
	}
	t.hash = h
}

type cost struct{ p, d, f int }

type stateCache struct {
	seen map[[2]uint64][]cost
}

// stateKey combines the hashes of all threads (order independent) with the identity of the
// running thread (switching away from it is what costs a preemption).
func (x *Exec) stateKey(running *thread) [2]uint64 {
	var k [2]uint64
	for _, t := range x.threads {
		d := uint64(0)
		if t.done {
			d = 1
		}
		h := mix2(t.cname, t.hash[0]+d, t.hash[1])
		k[0] += h[0]
		k[1] += h[1]
	}
	return mix2(k, running.cname[0], running.cname[1])
}

// visit returns true when the current state was already explored with at most the current cost.
func (x *Exec) visit(t *thread) bool {
	c := x.cache
	if c == nil || len(x.choices) < len(x.prefix) {
		return false
	}
	k := x.stateKey(t)
	cur := cost{x.costP, x.costD, x.costF}
	list := c.seen[k]
	for _, o := range list {
		if o.p <= cur.p && o.d <= cur.d && o.f <= cur.f {
			return true
		}
	}
	// drop dominated entries
	out := list[:0]
	for _, o := range list {
		if !(cur.p <= o.p && cur.d <= o.d && cur.f <= o.f) {
			out = append(out, o)
		}
	}
	c.seen[k] = append(out, cur)
	return false
}

// Choose is an environment choice point (KindFault): returns 0..n-1, 0 being the default answer.
func (x *Exec) Choose(n int, label string) int {
	if n <= 1 {
		return 0
	}
	c := x.choose(KindFault, n, false, 0)
	if x.cfg.Trace {
		x.trace = append(x.trace, fmt.Sprintf("t%d choose %s=%d/%d", x.running, label, c, n))
	}
	return c
}

func (x *Exec) enabledList(self *thread) []int {
	var en []int
	if self != nil && !self.done && x.isEnabled(self) {
		en = append(en, self.id)
	}
	for _, t := range x.threads {
		if t.done || (self != nil && t.id == self.id) {
			continue
		}
		if x.isEnabled(t) {
			en = append(en, t.id)
		}
	}
	return en
}

func (x *Exec) isEnabled(t *thread) bool {
	switch t.op {
	case OpJoinAll:
		for _, u := range x.threads {
			if u != t && !u.done {
				return false
			}
		}
		return true
	}
	if t.obj == nil {
		return true
	}
	return t.obj.Enabled(t.op, t.arg)
}

// Point announces that the running thread is about to perform op on obj. It returns when the
// scheduler lets this thread perform it (the caller then applies the effect).
func (x *Exec) Point(op Op, obj Object, arg int) {
	if x.aborting {
		return
	}
	t := x.threads[x.running]
	t.op, t.obj, t.arg = op, obj, arg
	x.steps++
	if x.steps > horizon {
		x.Fail("horizon of %d steps reached", horizon)
		x.abort()
	}
	if x.cfg.OnPoint != nil {
		x.cfg.OnPoint(x)
	}
	if !x.dispatch(t) {
		x.abort()
	}
	x.event(t, op, obj, arg)
	if x.cfg.Trace {
		x.trace = append(x.trace, fmt.Sprintf("t%d %s %s %d", t.id, op, x.objName(obj), arg))
	}
}

// dispatch picks the next thread to run and hands the baton over; it returns false on deadlock.
func (x *Exec) dispatch(t *thread) bool {
	en := x.enabledList(t)
	if len(en) == 0 {
		all := true
		for _, u := range x.threads {
			if !u.done {
				all = false
			}
		}
		if all {
			return true // last thread exited
		}
		x.deadlock = true
		var w []string
		for _, u := range x.threads {
			if !u.done {
				w = append(w, fmt.Sprintf("t%d(%s) waits at %s %s", u.id, u.name, u.op, x.objName(u.obj)))
			}
		}
		x.Fail("deadlock: %s", strings.Join(w, "; "))
		return false
	}
	idx := 0
	if len(en) > 1 {
		if x.visit(t) {
			x.pruned = true
			if t.done {
				return false
			}
			x.abort()
		}
		free := t.done || en[0] != t.id
		idx = x.choose(KindSched, len(en), free, 0)
	}
	next := en[idx]
	if next == t.id {
		return true
	}
	x.running = next
	x.threads[next].gate <- struct{}{}
	if t.done {
		return true
	}
	<-t.gate
	if x.aborting {
		panic(abortExec{})
	}
	return true
}

// abort tears the execution down: the calling thread unwinds with a panic; the main thread then
// wakes every parked thread in turn, each of which unwinds the same way (see run).
func (x *Exec) abort() {
	x.aborting = true
	panic(abortExec{})
}

// Go starts f as a new controlled thread.
func (x *Exec) Go(name string, f func()) {
	x.Point(OpGo, nil, 0)
	if x.aborting {
		return
	}
	parent := x.threads[x.running]
	t := &thread{id: len(x.threads), gate: make(chan struct{}), op: OpStart, name: name}
	t.cname = mix2(parent.cname, parent.spawns+1, 0x5bd1e995)
	t.hash = t.cname
	parent.spawns++
	x.threads = append(x.threads, t)
	go func() {
		<-t.gate
		if x.aborting {
			x.exitThread(t)
			return
		}
		defer func() {
			if r := recover(); r != nil {
				if _, ok := r.(abortExec); !ok {
					x.Fail("panic in thread %d (%s): %v\n%s", t.id, t.name, r, debug.Stack())
					x.aborting = true
				}
			}
			x.exitThread(t)
		}()
		if x.cfg.Trace {
			x.trace = append(x.trace, fmt.Sprintf("t%d start", t.id))
		}
		f()
	}()
}

func (x *Exec) exitThread(t *thread) {
	t.done = true
	if !x.aborting {
		if x.cfg.Trace {
			x.trace = append(x.trace, fmt.Sprintf("t%d exit", t.id))
		}
		if x.dispatch(t) {
			return
		}
		x.aborting = true
	}
	if !x.teardown {
		// first thread to notice: hand over to the main thread, which is parked at its gate
		x.teardown = true
		x.running = 0
		x.threads[0].gate <- struct{}{}
		return
	}
	x.exited <- struct{}{}
}

// run executes body once under the given prefix.
func run(cfg *Config, prefix []int, body func(x *Exec) string, cache *stateCache) (x *Exec, obs string) {
	x = &Exec{cfg: cfg, prefix: prefix, objIDs: map[Object]int{}, mapSites: map[int]int64{}, exited: make(chan struct{}), objHash: map[Object][2]uint64{}, cache: cache}
	main := &thread{id: 0, gate: make(chan struct{}), name: "main", cname: [2]uint64{1, 2}, hash: [2]uint64{1, 2}}
	x.threads = []*thread{main}
	cur = x
	defer func() { cur = nil }()
	func() {
		defer func() {
			if r := recover(); r != nil {
				if _, ok := r.(abortExec); !ok {
					x.Fail("panic in main thread: %v\n%s", r, debug.Stack())
				}
				x.aborting = true
				x.teardown = true
				main.done = true
				for i := 1; i < len(x.threads); i++ {
					if u := x.threads[i]; !u.done {
						x.running = u.id
						u.gate <- struct{}{}
						<-x.exited
					}
				}
			}
		}()
		obs = body(x)
		x.leaked = x.Unfinished()
		x.Point(OpJoinAll, nil, 0)
		main.done = true
	}()
	if len(x.choices) < len(prefix) && len(x.fail) == 0 && !x.pruned {
		panic(fmt.Sprintf("vsched: replay divergence: execution ended after %d choices, prefix has %d", len(x.choices), len(prefix)))
	}
	return x, obs
}

// Leaked returns the number of threads that had not exited when the body returned.
func (x *Exec) Leaked() int { return x.leaked }

// Deadlocked reports a deadlock.
func (x *Exec) Deadlocked() bool { return x.deadlock }

// Choices returns the choice list of the execution.
func (x *Exec) Choices() []int { return x.choices }

// Trace returns the operation trace (Config.Trace).
func (x *Exec) Trace() []string { return x.trace }

// ---------------------------------------------------------------------------------------------
// search

type explorer struct {
	cfg   *Config
	body  func(x *Exec) string
	res   *Result
	stop  bool
	cache *stateCache
	child int
}

func (e *explorer) cost(x *Exec, upto int) (p, d, f int) {
	for i := 0; i < upto; i++ {
		if x.choices[i] == 0 {
			continue
		}
		pt := x.points[i]
		switch pt.kind {
		case KindSched:
			if !pt.free {
				p++
			}
		case KindMap:
			if !e.cfg.FreeSites[pt.site] {
				d++
			}
		case KindFault:
			f++
		}
	}
	return
}

func (e *explorer) one(prefix []int) *Exec {
	x, obs := run(e.cfg, prefix, e.body, e.cache)
	r := e.res
	r.Execs++
	r.Steps += int64(x.steps)
	if x.pruned {
		r.Pruned++
		return x
	}
	if len(x.threads) > r.MaxThreads {
		r.MaxThreads = len(x.threads)
	}
	for s, n := range x.mapSites {
		r.MapSites[s] += n
	}
	r.Outcomes[obs]++
	if len(r.SchedSigs) < 100000 {
		r.SchedSigs[schedSig(x)] = true
	}
	msg := strings.Join(x.fail, "; ")
	if msg == "" && e.cfg.Check != nil {
		msg = e.cfg.Check(x, obs)
	}
	if msg != "" {
		// one representative per violation class (text before the first NUL, if any); exploration
		// continues so that a frequent class cannot hide a rare one
		key := msg
		if i := strings.IndexByte(msg, 0); i >= 0 {
			key = msg[:i]
		} else if len(key) > 60 {
			key = key[:60]
		}
		if r.ViolationCount[key] == 0 {
			r.Violations = append(r.Violations, Violation{Msg: msg, Choices: append([]int{}, x.choices...), Trace: x.trace, Obs: obs})
		}
		r.ViolationCount[key]++
	}
	p, d, f := e.cost(x, len(x.choices))
	if p > r.PreemptUsed {
		r.PreemptUsed = p
	}
	if d > r.DevUsed {
		r.DevUsed = d
	}
	if f > r.FaultUsed {
		r.FaultUsed = f
	}
	return x
}

func schedSig(x *Exec) string {
	var b strings.Builder
	for i, c := range x.choices {
		if c != 0 {
			fmt.Fprintf(&b, "%d:%d,", i, c)
		}
	}
	return b.String()
}

func (e *explorer) explore(prefix []int, depth int) {
	if e.stop {
		return
	}
	if !e.cfg.Deadline.IsZero() && time.Now().After(e.cfg.Deadline) {
		e.stop = true
		e.res.Cap = "deadline"
		return
	}
	if e.cfg.MaxExecs > 0 && e.res.Execs >= e.cfg.MaxExecs {
		e.stop = true
		e.res.Cap = "max_execs"
		return
	}
	x := e.one(prefix)
	if len(e.res.Violations) >= 40 {
		e.stop = true
		e.res.Cap = "40 distinct violation classes"
		return
	}
	for i := len(prefix); i < len(x.choices); i++ {
		pt := x.points[i]
		if pt.n <= 1 {
			continue
		}
		e.res.Points++
		p, d, f := e.cost(x, i)
		switch pt.kind {
		case KindSched:
			if !pt.free {
				p++
			}
			if p > e.cfg.MaxPreempt {
				continue
			}
		case KindMap:
			if !e.cfg.FreeSites[pt.site] {
				d++
			}
			if d > e.cfg.MaxDev {
				continue
			}
		case KindFault:
			f++
			if f > e.cfg.MaxFault {
				continue
			}
		}
		for alt := 1; alt < pt.n; alt++ {
			if depth == e.cfg.ShardDepth && e.cfg.NShards > 1 {
				e.child++
				if e.child%e.cfg.NShards != e.cfg.Shard {
					continue
				}
			}
			np := make([]int, i+1)
			copy(np, x.choices[:i])
			np[i] = alt
			e.explore(np, depth+1)
			if e.stop {
				return
			}
		}
	}
}

// Explore enumerates all executions of body within the budgets of cfg.
func Explore(cfg Config, body func(x *Exec) string) *Result {
	if cfg.PermFull == 0 {
		cfg.PermFull = 4
	}
	if cfg.ShardDepth == 0 {
		cfg.ShardDepth = 1
	}
	res := &Result{ViolationCount: map[string]int64{}, Outcomes: map[string]int64{}, SchedSigs: map[string]bool{}, MapSites: map[int]int64{}, Exhaustive: true}
	e := &explorer{cfg: &cfg, body: body, res: res}
	if !cfg.NoStateCache {
		e.cache = &stateCache{seen: map[[2]uint64][]cost{}}
	}
	// determinism precondition: the default execution replayed twice must observe the same
	tc := cfg
	tc.Trace = true
	x1, o1 := run(&tc, nil, body, nil)
	x2, o2 := run(&tc, nil, body, nil)
	if o1 != o2 || strings.Join(x1.trace, "\n") != strings.Join(x2.trace, "\n") || fmt.Sprint(x1.choices) != fmt.Sprint(x2.choices) {
		res.HarnessErr = fmt.Sprintf("nondeterministic default execution:\nobs1=%q\nobs2=%q\ntrace1=%v\ntrace2=%v", o1, o2, x1.trace, x2.trace)
		res.Exhaustive = false
		return res
	}
	e.explore(nil, 0)
	if e.stop {
		res.Exhaustive = false
	}
	if e.cache != nil {
		res.States = int64(len(e.cache.seen))
	}
	// re-run each violation 5x from its recorded choices
	for i := range res.Violations {
		v := &res.Violations[i]
		for k := 0; k < 5; k++ {
			xr, obs := run(&tc, v.Choices, body, nil)
			msg := strings.Join(xr.fail, "; ")
			if msg == "" && cfg.Check != nil {
				msg = cfg.Check(xr, obs)
			}
			if msg == "" {
				res.HarnessErr = fmt.Sprintf("violation %q did not reproduce on replay %d of choices %v", v.Msg, k, v.Choices)
				break
			}
			v.Trace = xr.trace
		}
	}
	return res
}

// Replay runs one execution with the given choices (trace on).
func Replay(cfg Config, choices []int, body func(x *Exec) string) (*Exec, string) {
	if cfg.PermFull == 0 {
		cfg.PermFull = 4
	}
	cfg.Trace = true
	return run(&cfg, choices, body, nil)
}

// ---------------------------------------------------------------------------------------------
// map iteration

// CanonicalMaps makes MapRange iterate in sorted key order when no execution is attached.
var CanonicalMaps = os.Getenv("VERIF_NATIVE_MAPS") == ""

// MapRange replaces `range m` for maps. Keys are visited in canonical (sorted) order permuted by
// the explorer's choice; entries deleted during the iteration are skipped, entries added are not
// visited (both permitted by the language specification).
func MapRange[M ~map[K]V, K comparable, V any](m M, site int) iter.Seq2[K, V] {
	return func(yield func(K, V) bool) {
		x := cur
		if len(m) < 2 || (x == nil && !CanonicalMaps) {
			for k, v := range m {
				if !yield(k, v) {
					return
				}
			}
			return
		}
		keys := make([]K, 0, len(m))
		for k := range m {
			keys = append(keys, k)
		}
		sortKeys(keys)
		if x != nil && !x.aborting {
			x.mapSites[site]++
			if x.cfg.DevSites == nil || x.cfg.DevSites[site] {
				n := len(keys)
				c := x.choose(KindMap, permCount(n, x.cfg.PermFull), false, site)
				if c != 0 {
					keys = applyPerm(keys, c, x.cfg.PermFull)
				}
				if x.cfg.Trace {
					x.trace = append(x.trace, fmt.Sprintf("t%d map site=%d n=%d perm=%d", x.running, site, n, c))
				}
			}
		}
		for _, k := range keys {
			v, ok := m[k]
			if !ok {
				continue
			}
			if !yield(k, v) {
				return
			}
		}
	}
}

func permCount(n, full int) int {
	if n <= full {
		f := 1
		for i := 2; i <= n; i++ {
			f *= i
		}
		return f
	}
	return n + 1 // identity, rotations 1..n-1, reverse
}

func applyPerm[K any](keys []K, c, full int) []K {
	n := len(keys)
	out := make([]K, 0, n)
	if n <= full {
		// c-th permutation in lexicographic order (factorial number system)
		rest := append([]K{}, keys...)
		f := 1
		for i := 2; i < n; i++ {
			f *= i
		}
		for i := n - 1; i >= 0; i-- {
			j := c / f
			c %= f
			out = append(out, rest[j])
			rest = append(rest[:j], rest[j+1:]...)
			if i > 0 {
				f /= i
			}
		}
		return out
	}
	if c == n { // reverse
		for i := n - 1; i >= 0; i-- {
			out = append(out, keys[i])
		}
		return out
	}
	out = append(out, keys[c:]...)
	out = append(out, keys[:c]...)
	return out
}

func sortKeys[K comparable](keys []K) {
	if len(keys) == 0 {
		return
	}
	switch ks := any(keys).(type) {
	case []string:
		sort.Strings(ks)
		return
	case []int:
		sort.Ints(ks)
		return
	}
	rv := reflect.ValueOf(keys)
	less := func(a, b reflect.Value) bool { return keyString(a) < keyString(b) }
	switch rv.Index(0).Kind() {
	case reflect.String:
		less = func(a, b reflect.Value) bool { return a.String() < b.String() }
	case reflect.Int, reflect.Int8, reflect.Int16, reflect.Int32, reflect.Int64:
		less = func(a, b reflect.Value) bool { return a.Int() < b.Int() }
	case reflect.Uint, reflect.Uint8, reflect.Uint16, reflect.Uint32, reflect.Uint64:
		less = func(a, b reflect.Value) bool { return a.Uint() < b.Uint() }
	}
	sort.SliceStable(keys, func(i, j int) bool { return less(rv.Index(i), rv.Index(j)) })
}

// keyString canonicalises a key of pointer/struct type: the concatenation of its string and
// integer fields (for *jobNode this starts with the job id). Pointer identity is never used.
func keyString(v reflect.Value) string {
	for v.Kind() == reflect.Pointer || v.Kind() == reflect.Interface {
		if v.IsNil() {
			return ""
		}
		v = v.Elem()
	}
	switch v.Kind() {
	case reflect.String:
		return v.String()
	case reflect.Int, reflect.Int8, reflect.Int16, reflect.Int32, reflect.Int64:
		return fmt.Sprintf("%020d", v.Int())
	case reflect.Uint, reflect.Uint8, reflect.Uint16, reflect.Uint32, reflect.Uint64:
		return fmt.Sprintf("%020d", v.Uint())
	case reflect.Struct:
		var b strings.Builder
		for i := 0; i < v.NumField(); i++ {
			f := v.Field(i)
			switch f.Kind() {
			case reflect.String, reflect.Int, reflect.Int64, reflect.Uint, reflect.Uint64:
				b.WriteString(keyString(f))
				b.WriteByte(0)
			}
		}
		return b.String()
	}
	panic("vsched: cannot canonicalise map key of type " + v.Type().String())
}

// ---------------------------------------------------------------------------------------------
// environment

// NumCPU replaces runtime.NumCPU.
func NumCPU() int {
	if x := cur; x != nil && x.cfg.NumCPU > 0 {
		return x.cfg.NumCPU
	}
	if forcedCPU > 0 {
		return forcedCPU
	}
	return runtime.NumCPU()
}

// GOMAXPROCS replaces runtime.GOMAXPROCS: queries (n < 1) are answered like NumCPU, so that code
// which looks at either sees the processor count of the scenario; changes are passed through.
func GOMAXPROCS(n int) int {
	if n < 1 {
		if x := cur; x != nil && x.cfg.MaxProcs > 0 {
			return x.cfg.MaxProcs
		}
		if x := cur; x != nil && x.cfg.NumCPU > 0 {
			return x.cfg.NumCPU
		}
		if forcedCPU > 0 {
			return forcedCPU
		}
	}
	return runtime.GOMAXPROCS(n)
}

var forcedCPU int

// SetNumCPU forces NumCPU outside executions (0 = real).
func SetNumCPU(n int) { forcedCPU = n }

// GoStmt replaces a `go f()` statement found in the code under test.
func GoStmt(f func()) {
	if x := cur; x != nil {
		x.Go("go-stmt", f)
		return
	}
	go f()
}

type globalObject struct{ name string }

func (g *globalObject) Enabled(op Op, arg int) bool { return true }

// ProcTable is the pseudo object on which all exec.start / exec.finish operations conflict, so that
// the happens-before state cache distinguishes their relative order (the "processes running at
// once" monitor depends on it).
var ProcTable Object = &globalObject{"proctable"}

// Deviations lists (site, permutation index) of every non-identity map-order choice of the execution.
func (x *Exec) Deviations() [][2]int {
	var out [][2]int
	for i, c := range x.choices {
		if c != 0 && x.points[i].kind == KindMap {
			out = append(out, [2]int{x.points[i].site, c})
		}
	}
	return out
}

// Preemptions counts the costly scheduling choices of the execution.
func (x *Exec) Preemptions() int { return x.costP }
