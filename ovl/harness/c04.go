//go:build go1.23

package actionlint

// C04 — the expression parser accepts exactly the documented grammar.
//
// Space: (a) all token sequences up to length n over a 22-token alphabet, rendered with single
// spaces and (short ones) with every gap closed / widened; (b) all character strings up to length
// m over the 26 lexically relevant characters; (c) a numeric sub-enumeration; (d) one separator from a 34-character alphabet (blanks, control
// characters, Unicode spaces, foreign punctuation, non-ASCII letters and digits) at every gap of every token sequence <= 3. Oracle: reference
// tokeniser + recursive-descent recogniser written from DESIGN appendix A (not from the code).

import (
	"fmt"
	"regexp"
	"sort"
	"strconv"
	"strings"
	"testing"
)

// ---------------------------------------------------------------------------------------------
// reference tokeniser

type c04Tok struct {
	kind string // IDENT STRING INT FLOAT or the punctuation itself; END
	text string
	off  int
	feat string
}

type c04LexResult struct {
	toks     []c04Tok
	ok       bool
	reason   string
	dontCare bool
	end      int // offset just after }}
}

func c04IsAlpha(c byte) bool { return c >= 'a' && c <= 'z' || c >= 'A' && c <= 'Z' }
func c04IsDigit(c byte) bool { return c >= '0' && c <= '9' }
func c04IsHex(c byte) bool {
	return c04IsDigit(c) || c >= 'a' && c <= 'f' || c >= 'A' && c <= 'F'
}

// c04Lex tokenises src up to the first }} outside a string literal.
func c04Lex(src string) (res c04LexResult) {
	i := 0
	n := len(src)
	fail := func(why string) c04LexResult {
		res.ok = false
		res.reason = why
		return res
	}
	at := func(k int) byte {
		if k < n {
			return src[k]
		}
		return 0
	}
	for {
		for i < n && (src[i] == ' ' || src[i] == '\t' || src[i] == '\n' || src[i] == '\r') {
			i++
		}
		if i >= n {
			return fail("missing }}")
		}
		c := src[i]
		start := i
		switch {
		case c04IsAlpha(c) || c == '_':
			for i < n && (c04IsAlpha(src[i]) || c04IsDigit(src[i]) || src[i] == '_' || src[i] == '-') {
				i++
			}
			res.toks = append(res.toks, c04Tok{"IDENT", src[start:i], start, ""})
		case c04IsDigit(c) || c == '-':
			var feats []string
			if c == '-' {
				i++
				if !c04IsDigit(at(i)) {
					return fail("- not followed by a digit")
				}
			}
			kind := "INT"
			if at(i) == '0' && at(i+1) == 'x' {
				if c == '-' {
					res.dontCare = true // sign before a hex literal: appendix A don't-care
				}
				i += 2
				hs := i
				for c04IsHex(at(i)) {
					i++
				}
				if i == hs {
					return fail("0x without hex digits")
				}
				if i-hs > 1 && src[hs] == '0' {
					res.dontCare = true // hex literal with leading zeros: don't-care
				}
				if hd := strings.TrimLeft(src[hs:i], "0"); len(hd) > 16 || (len(hd) == 16 && hd[0] >= '8') {
					feats = append(feats, "int>=2^63")
				} else if len(hd) > 8 || (len(hd) == 8 && hd[0] >= '8') {
					feats = append(feats, "int>=2^31")
				}
				feats = append(feats, "hex")
			} else {
				if at(i) == '0' {
					i++
				} else {
					for c04IsDigit(at(i)) {
						i++
					}
				}
				if _, err := strconv.ParseInt(src[start:i], 10, 64); err != nil {
					feats = append(feats, "int>=2^63")
				} else if _, err := strconv.ParseInt(src[start:i], 10, 32); err != nil {
					feats = append(feats, "int>=2^31")
				}
				if at(i) == '.' {
					i++
					if !c04IsDigit(at(i)) {
						return fail("fraction without digits")
					}
					for c04IsDigit(at(i)) {
						i++
					}
					kind = "FLOAT"
				}
				if at(i) == 'e' || at(i) == 'E' {
					i++
					if at(i) == '+' {
						feats = append(feats, "exp-plus")
						i++
					} else if at(i) == '-' {
						i++
					}
					if !c04IsDigit(at(i)) {
						return fail("exponent without digits")
					}
					es := i
					for c04IsDigit(at(i)) {
						i++
					}
					if i-es > 1 && src[es] == '0' {
						feats = append(feats, "exp-leading-zero")
					}
					kind = "FLOAT"
				}
			}
			if c04IsAlpha(at(i)) || c04IsDigit(at(i)) {
				return fail("number followed by an alphanumeric character")
			}
			if kind == "FLOAT" {
				// only the syntax is documented; literals beyond float64 range are don't-care
				if _, err := strconv.ParseFloat(src[start:i], 64); err != nil {
					res.dontCare = true
				}
				// int>=2^31 is a feature of integer literals only
				var fs []string
				for _, f := range feats {
					if !strings.HasPrefix(f, "int>=") {
						fs = append(fs, f)
					}
				}
				feats = fs
			}
			sort.Strings(feats)
			res.toks = append(res.toks, c04Tok{kind, src[start:i], start, strings.Join(feats, "+")})
		case c == '\'':
			i++
			for {
				if i >= n {
					return fail("unterminated string")
				}
				if src[i] == '\'' {
					if at(i+1) == '\'' {
						i += 2
						continue
					}
					i++
					break
				}
				i++
			}
			res.toks = append(res.toks, c04Tok{"STRING", src[start:i], start, ""})
		case c == '}':
			if at(i+1) != '}' {
				return fail("lone }")
			}
			res.toks = append(res.toks, c04Tok{"END", "}}", start, ""})
			res.ok = true
			res.end = i + 2
			return res
		default:
			two := ""
			if i+1 < n {
				two = src[i : i+2]
			}
			switch {
			case two == "<=" || two == ">=" || two == "==" || two == "!=" || two == "&&" || two == "||":
				res.toks = append(res.toks, c04Tok{two, two, start, ""})
				i += 2
			case strings.IndexByte("()[].!<>*,", c) >= 0:
				res.toks = append(res.toks, c04Tok{string(c), string(c), start, ""})
				i++
			default:
				return fail(fmt.Sprintf("character %q cannot start a token", c))
			}
		}
	}
}

// ---------------------------------------------------------------------------------------------
// reference parser (appendix A grammar) producing a normalised S-expression

type c04Parser struct {
	toks []c04Tok
	pos  int
	err  string
}

func (p *c04Parser) peek() string { return p.toks[p.pos].kind }
func (p *c04Parser) next() c04Tok { t := p.toks[p.pos]; p.pos++; return t }
func (p *c04Parser) fail(why string) string {
	if p.err == "" {
		p.err = why
	}
	return ""
}

func c04Chain(op string, parts []string) string {
	if len(parts) == 1 {
		return parts[0]
	}
	return "(" + op + " " + strings.Join(parts, " ") + ")"
}

func (p *c04Parser) or() string {
	parts := []string{p.and()}
	for p.err == "" && p.peek() == "||" {
		p.next()
		parts = append(parts, p.and())
	}
	return c04Chain("or", parts)
}

func (p *c04Parser) and() string {
	parts := []string{p.cmp()}
	for p.err == "" && p.peek() == "&&" {
		p.next()
		parts = append(parts, p.cmp())
	}
	return c04Chain("and", parts)
}

func (p *c04Parser) cmp() string {
	parts := []string{p.unary()}
	for p.err == "" {
		switch p.peek() {
		case "<", "<=", ">", ">=", "==", "!=":
			parts = append(parts, p.next().kind, p.unary())
			continue
		}
		break
	}
	return c04Chain("cmp", parts)
}

func (p *c04Parser) unary() string {
	if p.peek() == "!" {
		p.next()
		return "(not " + p.unary() + ")"
	}
	return p.postfix()
}

func (p *c04Parser) postfix() string {
	x := p.primary()
	for p.err == "" {
		switch p.peek() {
		case ".":
			p.next()
			switch p.peek() {
			case "IDENT":
				x = "(prop " + x + " " + strings.ToLower(p.next().text) + ")"
			case "*":
				p.next()
				x = "(deref " + x + ")"
			default:
				return p.fail("expected property name or * after .")
			}
			continue
		case "[":
			p.next()
			idx := p.or()
			if p.err != "" {
				return ""
			}
			if p.peek() != "]" {
				return p.fail("expected ]")
			}
			p.next()
			x = "(index " + x + " " + idx + ")"
			continue
		}
		break
	}
	return x
}

func (p *c04Parser) primary() string {
	switch p.peek() {
	case "IDENT":
		t := p.next()
		if p.peek() == "(" {
			p.next()
			args := []string{}
			if p.peek() == ")" {
				p.next()
			} else {
				for {
					a := p.or()
					if p.err != "" {
						return ""
					}
					args = append(args, a)
					if p.peek() == "," {
						p.next()
						continue
					}
					if p.peek() == ")" {
						p.next()
						break
					}
					return p.fail("expected , or ) in call")
				}
			}
			return "(call " + strings.ToLower(t.text) + " " + strings.Join(args, " ") + ")"
		}
		switch t.text {
		case "true", "false":
			return "(bool " + t.text + ")"
		case "null":
			return "(null)"
		}
		return "(var " + strings.ToLower(t.text) + ")"
	case "INT":
		t := p.next()
		v, err := strconv.ParseInt(t.text, 0, 64)
		if err != nil {
			return "(int " + t.text + ")"
		}
		return fmt.Sprintf("(int %d)", v)
	case "FLOAT":
		t := p.next()
		v, _ := strconv.ParseFloat(t.text, 64)
		return fmt.Sprintf("(float %v)", v)
	case "STRING":
		t := p.next()
		s := strings.ReplaceAll(t.text[1:len(t.text)-1], "''", "'")
		return fmt.Sprintf("(str %q)", s)
	case "(":
		p.next()
		x := p.or()
		if p.err != "" {
			return ""
		}
		if p.peek() != ")" {
			return p.fail("expected )")
		}
		p.next()
		return x
	}
	return p.fail("expected a primary expression, got " + p.peek())
}

type c04RefResult struct {
	accept   bool
	tree     string
	reason   string
	dontCare bool
	lex      c04LexResult
}

func c04Reference(src string) c04RefResult {
	lr := c04Lex(src)
	if !lr.ok {
		return c04RefResult{reason: "lex: " + lr.reason, dontCare: lr.dontCare, lex: lr}
	}
	p := &c04Parser{toks: lr.toks}
	tree := p.or()
	if p.err == "" && p.peek() != "END" {
		p.fail("tokens remain after the expression")
	}
	if p.err != "" {
		return c04RefResult{reason: "parse: " + p.err, dontCare: lr.dontCare, lex: lr}
	}
	return c04RefResult{accept: true, tree: tree, dontCare: lr.dontCare, lex: lr}
}

// ---------------------------------------------------------------------------------------------
// implementation tree -> the same normal form

func c04Flatten(n ExprNode, level string, out *[]string) {
	switch v := n.(type) {
	case *LogicalOpNode:
		if (level == "or" && v.Kind == LogicalOpNodeKindOr) || (level == "and" && v.Kind == LogicalOpNodeKindAnd) {
			c04Flatten(v.Left, level, out)
			c04Flatten(v.Right, level, out)
			return
		}
	case *CompareOpNode:
		if level == "cmp" {
			c04Flatten(v.Left, level, out)
			*out = append(*out, v.Kind.String())
			c04Flatten(v.Right, level, out)
			return
		}
	}
	*out = append(*out, c04ImplTree(n))
}

func c04ImplTree(n ExprNode) string {
	switch v := n.(type) {
	case *VariableNode:
		return "(var " + v.Name + ")"
	case *NullNode:
		return "(null)"
	case *BoolNode:
		return fmt.Sprintf("(bool %v)", v.Value)
	case *IntNode:
		return fmt.Sprintf("(int %d)", v.Value)
	case *FloatNode:
		return fmt.Sprintf("(float %v)", v.Value)
	case *StringNode:
		return fmt.Sprintf("(str %q)", v.Value)
	case *ObjectDerefNode:
		return "(prop " + c04ImplTree(v.Receiver) + " " + v.Property + ")"
	case *ArrayDerefNode:
		return "(deref " + c04ImplTree(v.Receiver) + ")"
	case *IndexAccessNode:
		return "(index " + c04ImplTree(v.Operand) + " " + c04ImplTree(v.Index) + ")"
	case *NotOpNode:
		return "(not " + c04ImplTree(v.Operand) + ")"
	case *FuncCallNode:
		args := make([]string, len(v.Args))
		for i, a := range v.Args {
			args[i] = c04ImplTree(a)
		}
		return "(call " + strings.ToLower(v.Callee) + " " + strings.Join(args, " ") + ")"
	case *LogicalOpNode:
		level := "and"
		if v.Kind == LogicalOpNodeKindOr {
			level = "or"
		}
		var parts []string
		c04Flatten(v, level, &parts)
		return c04Chain(level, parts)
	case *CompareOpNode:
		var parts []string
		c04Flatten(v, "cmp", &parts)
		return c04Chain("cmp", parts)
	case nil:
		return "<nil>"
	}
	return fmt.Sprintf("<unknown node %T>", n)
}

var c04MsgNorm = regexp.MustCompile(`"[^"]*"|'[^']*'|\d+`)

func c04MsgClass(m string) string {
	return vTrunc(c04MsgNorm.ReplaceAllString(m, "_"), 90)
}

// c04Compare runs the implementation on src (which must include the closing }} if any) and
// compares with the reference.
func c04Compare(r *vReport, src string) {
	ref := c04Reference(src)
	lex := NewExprLexer(src)
	tree, err := NewExprParser().Parse(lex)
	r.Evaluations++
	r.Transitions++
	r.Validated++
	replay := map[string]any{"src": src}
	if err != nil && tree != nil {
		r.Violation("error-and-tree", fmt.Sprintf("%q: Parse returned both a tree and an error", src), replay)
	}
	accepted := err == nil
	if accepted && tree == nil {
		r.Violation("nil-tree", fmt.Sprintf("%q: Parse returned neither tree nor error", src), replay)
		return
	}
	if ref.dontCare {
		r.Class("dontcare", false)
		return
	}
	switch {
	case ref.accept && !accepted:
		// attribute to the reference token at/before the error offset
		feat, kind := "", "?"
		for _, t := range ref.lex.toks {
			if t.off <= err.Offset {
				kind, feat = t.kind, t.feat
				if t.off+len(t.text) >= err.Offset && feat != "" {
					break
				}
			}
		}
		// prefer a token with a feature anywhere (the lexer reports at its scan position)
		for _, t := range ref.lex.toks {
			if t.feat != "" && t.feat != "hex" {
				kind, feat = t.kind, t.feat
				break
			}
		}
		key := "false-reject:" + kind
		if feat != "" {
			key += ":" + feat
		} else {
			key += ":" + c04MsgClass(err.Message)
		}
		r.Violation(key, fmt.Sprintf("%q is a sentence of the documented grammar (%s) but is rejected: %s", src, ref.tree, err.Message), replay)
	case !ref.accept && accepted:
		r.Violation("false-accept:"+c04MsgClass(ref.reason), fmt.Sprintf("%q is not a sentence (%s) but is accepted as %s", src, ref.reason, c04ImplTree(tree)), replay)
	case ref.accept && accepted:
		if got := c04ImplTree(tree); got != ref.tree {
			r.Violation("tree-mismatch", fmt.Sprintf("%q analysed as %s, documented structure is %s", src, got, ref.tree), replay)
		}
		if lex.Offset() != ref.lex.end {
			r.Violation("end-offset", fmt.Sprintf("%q: lexer stopped at offset %d, the placeholder ends at %d", src, lex.Offset(), ref.lex.end), replay)
		}
	default:
		if err.Offset < 0 || err.Offset > len(src) {
			r.Violation("error-offset", fmt.Sprintf("%q: error offset %d outside [0,%d]", src, err.Offset, len(src)), replay)
		}
		if err.Line < 1 || err.Column < 1 {
			r.Violation("error-linecol", fmt.Sprintf("%q: error line:col %d:%d", src, err.Line, err.Column), replay)
		}
	}
	if ref.accept {
		d := strings.Count(ref.tree, "(")
		if d > 6 {
			d = 6
		}
		r.Class(fmt.Sprintf("accept:nodes=%d", d), true)
	} else {
		r.Class("reject:"+c04MsgClass(ref.reason), false)
	}
}

// ---------------------------------------------------------------------------------------------
// end-to-end: the same text inside a run: placeholder and as a bare if: condition

var c04SyntaxRe = regexp.MustCompile(`^(got unexpected |unexpected EOF while lexing|unexpected token |unexpected end of input while parsing|parser did not reach end of input|parsing invalid (integer|float) literal|scan error while lexing)`)

func c04E2E(r *vReport, expr string) {
	ref := c04Reference(expr + "}}")
	if ref.dontCare {
		return
	}
	// single-quoted YAML scalar: ' doubled
	q := func(s string) string { return "'" + strings.ReplaceAll(s, "'", "''") + "'" }
	for _, form := range []string{"run", "if"} {
		var src string
		var line, colLo, colHi int
		if form == "run" {
			val := "echo ${{ " + expr + " }}"
			src = "on: push\njobs:\n  a:\n    runs-on: ubuntu-latest\n    steps:\n      - run: " + q(val) + "\n"
			line, colLo = 6, 14
		} else {
			if strings.TrimSpace(expr) == "" {
				continue
			}
			src = "on: push\njobs:\n  a:\n    runs-on: ubuntu-latest\n    steps:\n      - run: echo\n        if: " + q(expr) + "\n"
			line, colLo = 7, 13
		}
		colHi = colLo + len(src) // generous upper end: anywhere on the line after the scalar start
		res := vLint(src, nil)
		r.Transitions++
		r.Validated++
		replay := map[string]any{"src": expr, "e2e": form}
		if res.Panic != "" || res.Err != nil {
			r.Violation("e2e-failure", fmt.Sprintf("%s %q: panic=%q err=%v", form, expr, vTrunc(res.Panic, 200), res.Err), replay)
			continue
		}
		var syn []vDiag
		for _, d := range vDiags(res.Errs) {
			if d.Kind == "expression" && c04SyntaxRe.MatchString(d.Msg) {
				syn = append(syn, d)
			}
			if d.Kind == "syntax-check" {
				r.Violation("e2e-yaml", fmt.Sprintf("%s %q: harness produced a YAML-level problem: %v", form, expr, d), replay)
			}
		}
		if ref.accept {
			if len(syn) != 0 {
				r.Violation("e2e-false-reject-"+form, fmt.Sprintf("%s %q: valid expression got syntax diagnostic %v", form, expr, syn[0]), replay)
			}
			continue
		}
		if strings.Contains(expr, "}}") || (form == "if" && strings.Contains(expr, "${{")) {
			continue // the placeholder ends early / is not bare: other text follows, not claimed here
		}
		if len(syn) != 1 {
			r.Violation("e2e-syntax-count-"+form, fmt.Sprintf("%s %q: rejected text must yield exactly one syntax diagnostic, got %d: %v", form, expr, len(syn), syn), replay)
			continue
		}
		if syn[0].Line != line || syn[0].Col < colLo || syn[0].Col > colHi {
			r.Violation("e2e-position-"+form, fmt.Sprintf("%s %q: syntax diagnostic at %d:%d is not inside the placeholder (line %d, col >= %d)", form, expr, syn[0].Line, syn[0].Col, line, colLo), replay)
		}
	}
}

// ---------------------------------------------------------------------------------------------

var c04Tokens = []string{"Ab", "true", "null", "'s'", "1", "1.5", "(", ")", "[", "]", ".", "!", "<", "<=", ">", ">=", "==", "!=", "&&", "||", "*", ","}
var c04Chars = []byte("aex019.-+_'\" ()[]!<>=&|*,}\\")
var c04Gaps = []string{" ", "", "\t\n "}

// c04Unterminated: placeholders whose end marker is missing or malformed (no }} follows the ${{),
// at string positions of a workflow: rejected text, exactly one syntax diagnostic on that line.
var c04UnterminatedValues = []string{"${{ github.sha", "${{ github.sha ==", "${{ github.sha }", "${{ github.sha } }", "x ${{ 1 } } y", "${{", "${{ 'abc", "a ${{ 1 }", "${{ github.sha }!"}

var c04UnterminatedPositions = []struct {
	name string
	src  string // § = the value (single-quoted by the generator); the value stands on the line of §
}{
	{"run", "on: push\njobs:\n  a:\n    runs-on: ubuntu-latest\n    steps:\n      - run: §\n"},
	{"step-name", "on: push\njobs:\n  a:\n    runs-on: ubuntu-latest\n    steps:\n      - run: echo\n        name: §\n"},
	{"step-env", "on: push\njobs:\n  a:\n    runs-on: ubuntu-latest\n    steps:\n      - run: echo\n        env:\n          V: §\n"},
	{"step-with", "on: push\njobs:\n  a:\n    runs-on: ubuntu-latest\n    steps:\n      - uses: actions/checkout@v4\n        with:\n          ref: §\n"},
	{"working-directory", "on: push\njobs:\n  a:\n    runs-on: ubuntu-latest\n    steps:\n      - run: echo\n        working-directory: §\n"},
	{"job-name", "on: push\njobs:\n  a:\n    name: §\n    runs-on: ubuntu-latest\n    steps:\n      - run: echo\n"},
	{"job-env", "on: push\njobs:\n  a:\n    runs-on: ubuntu-latest\n    env:\n      V: §\n    steps:\n      - run: echo\n"},
	{"run-name", "on: push\nrun-name: §\njobs:\n  a:\n    runs-on: ubuntu-latest\n    steps:\n      - run: echo\n"},
	{"workflow-env", "on: push\nenv:\n  V: §\njobs:\n  a:\n    runs-on: ubuntu-latest\n    steps:\n      - run: echo\n"},
	{"concurrency-group", "on: push\nconcurrency:\n  group: §\njobs:\n  a:\n    runs-on: ubuntu-latest\n    steps:\n      - run: echo\n"},
	{"job-output", "on: push\njobs:\n  a:\n    runs-on: ubuntu-latest\n    outputs:\n      o: §\n    steps:\n      - run: echo\n"},
	{"matrix-value", "on: push\njobs:\n  a:\n    runs-on: ubuntu-latest\n    strategy:\n      matrix:\n        v: [§]\n    steps:\n      - run: echo\n"},
}

// c04AfterMarkerValues: VALID placeholders followed by characters the scanner library complains about
// (NUL, written as an escape of a double-quoted scalar): what follows the end marker is not part of
// the expression - accepted, no syntax diagnostic. Written as the inside of a double-quoted scalar.
var c04AfterMarkerValues = []string{`${{ 'x' }}\0`, `${{ 1 }}\0 tail`, `a ${{ github.sha }}\0${{ 2 }}`, `${{ true }}\0\0`}

func c04AfterMarkerCase(r *vReport, pos int, val string) {
	p := c04UnterminatedPositions[pos]
	src := strings.Replace(p.src, "§", "\""+val+"\"", 1)
	res := vLint(src, nil)
	r.Evaluations++
	r.Transitions++
	r.Validated++
	replay := map[string]any{"src": val, "e2e": "after-marker", "position": pos}
	if res.Panic != "" || res.Err != nil {
		r.Violation("e2e-failure", fmt.Sprintf("placeholder %q at %s: panic=%q err=%v", val, p.name, vTrunc(res.Panic, 200), res.Err), replay)
		return
	}
	for _, d := range vDiags(res.Errs) {
		if d.Kind == "expression" && c04SyntaxRe.MatchString(d.Msg) {
			r.Violation("e2e-false-reject-by-text-after-the-marker:"+p.name, fmt.Sprintf("%q at %s: the placeholders are valid, yet a syntax diagnostic is reported because of what FOLLOWS an end marker: %v", val, p.name, d), replay)
			break
		}
	}
	r.Class("valid placeholder followed by NUL at "+p.name, false)
}

func c04UnterminatedCase(r *vReport, pos int, val string) {
	p := c04UnterminatedPositions[pos]
	src := strings.Replace(p.src, "§", "'"+strings.ReplaceAll(val, "'", "''")+"'", 1)
	line := strings.Count(p.src[:strings.Index(p.src, "§")], "\n") + 1
	res := vLint(src, nil)
	r.Evaluations++
	r.Transitions++
	r.Validated++
	replay := map[string]any{"src": val, "e2e": "unterminated", "position": pos}
	if res.Panic != "" || res.Err != nil {
		r.Violation("e2e-failure", fmt.Sprintf("unterminated placeholder %q at %s: panic=%q err=%v", val, p.name, vTrunc(res.Panic, 200), res.Err), replay)
		return
	}
	var syn []vDiag
	for _, d := range vDiags(res.Errs) {
		if d.Kind == "expression" && c04SyntaxRe.MatchString(d.Msg) && d.Line == line {
			syn = append(syn, d)
		}
	}
	if len(syn) != 1 {
		r.Violation("e2e-unterminated-placeholder:"+p.name, fmt.Sprintf("%q at %s: a placeholder without an end marker must yield exactly one syntax diagnostic on line %d, got %d: %v", val, p.name, line, len(syn), vDiagStrings(res.Errs)), replay)
	}
	r.Class("unterminated placeholder at "+p.name, true)
}

func TestVerifC04(t *testing.T) {
	r := vNewReport("C04")
	defer r.Write(t)
	n, m, gapN, e2eN, sentN := 5, 5, 3, 2, 7
	if vThorough() {
		n, m, gapN, e2eN, sentN = 6, 6, 4, 3, 8
	}
	r.Bounds["token_sequence_length"] = n
	r.Bounds["char_string_length"] = m
	r.Bounds["whitespace_variants_up_to_tokens"] = gapN
	r.Bounds["e2e_token_sequence_length"] = e2eN
	r.Bounds["token_alphabet"] = c04Tokens
	r.Bounds["char_alphabet"] = string(c04Chars)
	r.Extra["rule"] = "all token sequences <= n over 22 tokens (single-space rendering; for short sequences every gap in {closed, space, tab-newline-space}), all character strings <= m over 26 characters followed by }}, numeric sub-enumeration; each parsed by ExprParser and by the reference tokeniser+grammar (accept/reject, normalised tree, end offset, error offset); short sequences also through Linter.Lint in run: and if:. class = reference verdict x (node count | rejection reason); non-trivial = accepted by the reference; 9 placeholders whose end marker is missing or malformed at 12 string positions of a workflow through Linter.Lint (exactly one syntax diagnostic on that line), 4 valid placeholders followed by NUL at the same positions (no syntax diagnostic)"
	r.Extra["assumptions"] = []string{"identifier / string / number tokens are represented by Ab, true, null, 's', 1, 1.5 in the token enumeration", "appendix A don't-care classes (-0x.., 0x0.., float overflow) are not compared"}

	if raw := vReplayInput(); raw != nil {
		var c struct {
			Src      string `json:"src"`
			E2E      string `json:"e2e"`
			Position int    `json:"position"`
		}
		if err := jsonUnmarshal(raw, &c); err != nil {
			t.Fatal(err)
		}
		if c.E2E == "after-marker" {
			c04AfterMarkerCase(r, c.Position, c.Src)
			c04AfterMarkerCase(r, c.Position, c.Src)
			return
		}
		if c.E2E == "unterminated" {
			c04UnterminatedCase(r, c.Position, c.Src)
			c04UnterminatedCase(r, c.Position, c.Src)
			return
		}
		if c.E2E == "if-premature-end" {
			src := "on: push\njobs:\n  a:\n    runs-on: ubuntu-latest\n    steps:\n      - run: echo\n        if: '" + strings.ReplaceAll(c.Src, "'", "''") + "'\n"
			for k := 0; k < 2; k++ {
				res := vLint(src, nil)
				fmt.Printf("replay %d:\n%s\ndiagnostics: %v\n", k, src, vDiagStrings(res.Errs))
				n := 0
				for _, d := range vDiags(res.Errs) {
					if d.Kind == "expression" && c04SyntaxRe.MatchString(d.Msg) && d.Line == 7 && d.Col >= 13 {
						n++
					}
				}
				if n != 1 {
					r.Violation("e2e-bare-if-premature-end", fmt.Sprintf("if: %q: %d syntax diagnostics", c.Src, n), c)
				}
			}
		} else if c.E2E == "if-marker-in-literal" {
			src := "on: push\njobs:\n  a:\n    runs-on: ubuntu-latest\n    steps:\n      - run: echo\n        if: \"" + strings.ReplaceAll(c.Src, "\"", "\\\"") + "\"\n"
			for k := 0; k < 2; k++ {
				res := vLint(src, nil)
				fmt.Printf("replay %d:\n%s\ndiagnostics: %v\n", k, src, vDiagStrings(res.Errs))
				for _, d := range vDiags(res.Errs) {
					if d.Kind == "expression" && c04SyntaxRe.MatchString(d.Msg) {
						r.Violation("e2e-bare-if-marker-in-literal", fmt.Sprintf("if: %q is rejected: %s", c.Src, d.Msg), c)
					}
				}
			}
		} else if c.E2E != "" {
			c04E2E(r, c.Src)
			c04E2E(r, c.Src)
		} else {
			for k := 0; k < 2; k++ {
				tree, err := NewExprParser().Parse(NewExprLexer(c.Src))
				fmt.Printf("replay %d: src=%q impl tree=%s err=%v reference=%+v\n", k, c.Src, c04ImplTree(tree), err, c04Reference(c.Src))
			}
			c04Compare(r, c.Src)
		}
		return
	}

	var idx int64
	for pi := range c04UnterminatedPositions {
		for _, v := range c04UnterminatedValues {
			idx++
			if r.Mine(idx) {
				c04UnterminatedCase(r, pi, v)
			}
		}
		for _, v := range c04AfterMarkerValues {
			idx++
			if r.Mine(idx) {
				c04AfterMarkerCase(r, pi, v)
			}
		}
	}
	// (a) token sequences
	k := int64(len(c04Tokens))
	seq := make([]string, 0, n)
	for l := 0; l <= n; l++ {
		total := int64(1)
		for i := 0; i < l; i++ {
			total *= k
		}
		for v := int64(0); v < total; v++ {
			idx++
			if !r.Mine(idx) {
				continue
			}
			if idx%(1<<16) == 0 && r.Expired() {
				return
			}
			seq = seq[:0]
			x := v
			for i := 0; i < l; i++ {
				seq = append(seq, c04Tokens[x%k])
				x /= k
			}
			src := strings.Join(seq, " ")
			r.Begin(func() string { return fmt.Sprintf("tokens %q", src) })
			c04Compare(r, src+" }}")
			if l >= 2 && l <= gapN {
				// every assignment of gaps
				combos := 1
				for i := 0; i < l-1; i++ {
					combos *= len(c04Gaps)
				}
				for g := 1; g < combos; g++ {
					var b strings.Builder
					y := g
					for i, tk := range seq {
						if i > 0 {
							b.WriteString(c04Gaps[y%len(c04Gaps)])
							y /= len(c04Gaps)
						}
						b.WriteString(tk)
					}
					c04Compare(r, b.String()+"}}")
				}
			}
			if l <= e2eN {
				c04E2E(r, src)
			}
			if idx%500009 == 0 {
				ref := c04Reference(src + " }}")
				r.Sample(map[string]any{"tokens": src, "reference_accepts": ref.accept, "reference_tree": ref.tree, "reference_reason": ref.reason})
			}
		}
	}
	// (d) one separator character from a wider alphabet (the four blanks of the grammar, other
	// control characters, Unicode spaces, punctuation outside the grammar) at every gap of every
	// token sequence of length <= 3: only ' ', \t, \n, \r are white space
	seps := []string{"\t", "\n", "\r", "\r\n", "\v", "\f", "\x00", "\x1f", "\x7f", "\u00a0", "\u2028", "\u3000", "\ufeff", "#", "$", "@", "~", "^", "%", ";", ":", "?", "/", "\\", "{", "`",
		// letters and digits outside ASCII: none of them starts or continues a token
		"\u00e9", "\u03a9", "\u01c5", "\u0663", "\uff11", "\u00b2", "\uff41", "\u212a"}
	for l := 1; l <= 3; l++ {
		total := int64(1)
		for i := 0; i < l; i++ {
			total *= k
		}
		for v := int64(0); v < total; v++ {
			idx++
			if !r.Mine(idx) {
				continue
			}
			if idx%(1<<12) == 0 && r.Expired() {
				return
			}
			seq = seq[:0]
			x := v
			for i := 0; i < l; i++ {
				seq = append(seq, c04Tokens[x%k])
				x /= k
			}
			for gap := 0; gap <= l; gap++ {
				for _, sp := range seps {
					var b strings.Builder
					for i, tk := range seq {
						if i == gap {
							b.WriteString(sp)
						} else if i > 0 {
							b.WriteString(" ")
						}
						b.WriteString(tk)
					}
					if gap == l {
						b.WriteString(sp)
					}
					src := b.String() + "}}"
					r.Begin(func() string { return fmt.Sprintf("separator %q", src) })
					c04Compare(r, src)
				}
			}
		}
	}
	r.Bounds["separator_alphabet"] = len(seps)
	// (e) an if: condition written without ${{ }} that holds "}}" itself: the text is not a sentence,
	// whatever precedes and follows the marker (every accepted token sequence <= 2 x 7 tails)
	tails := []string{"", " x", " && true", " ${{ 1", " }}", " 's'", " ${{ nosuch"}
	for l := 1; l <= 2; l++ {
		total := int64(1)
		for i := 0; i < l; i++ {
			total *= k
		}
		for v := int64(0); v < total; v++ {
			seq = seq[:0]
			x := v
			for i := 0; i < l; i++ {
				seq = append(seq, c04Tokens[x%k])
				x /= k
			}
			head := strings.Join(seq, " ")
			if !c04Reference(head + " }}").accept {
				continue
			}
			for _, tail := range tails {
				idx++
				if !r.Mine(idx) {
					continue
				}
				cond := head + " }}" + tail
				src := "on: push\njobs:\n  a:\n    runs-on: ubuntu-latest\n    steps:\n      - run: echo\n        if: '" + strings.ReplaceAll(cond, "'", "''") + "'\n"
				r.Begin(func() string { return fmt.Sprintf("bare if %q", cond) })
				res := vLint(src, nil)
				r.Evaluations++
				r.Transitions++
				r.Validated++
				replay := map[string]any{"src": cond, "e2e": "if-premature-end"}
				if res.Panic != "" || res.Err != nil {
					r.Violation("e2e-failure", fmt.Sprintf("bare if %q: panic=%q err=%v", cond, vTrunc(res.Panic, 200), res.Err), replay)
					continue
				}
				n := 0
				for _, d := range vDiags(res.Errs) {
					if d.Kind == "expression" && c04SyntaxRe.MatchString(d.Msg) && d.Line == 7 && d.Col >= 13 {
						n++
					}
				}
				if n != 1 {
					r.Violation("e2e-bare-if-premature-end", fmt.Sprintf("if: %q is not a sentence (\"}}\" inside a condition that is not surrounded by ${{ }}) but got %d syntax diagnostics: %v", cond, n, vDiagStrings(res.Errs)), replay)
				}
			}
		}
	}
	// (e2) the other direction: the same marker INSIDE a string literal of a condition written
	// without ${{ }} is part of a sentence (every literal x every place a string can stand)
	if r.Shard == 0 {
		lits := []string{"'}}'", "'a}}b'", "'{\"a\":{\"b\":1}}'", "'}} }}'", "'${{ x }}'", "'}'", "'} }'", "'it''s }}'"}
		shapes := []string{"env.FOO == %s", "%s != env.FOO", "contains(env.FOO, %s)", "startsWith(%s, env.FOO) && success()", "env.FOO == %s || env.BAR == %s", "!(env.FOO == %s)", "format(%s, env.FOO) == 'x'", "fromJSON(%s).a == 1"}
		for _, lit := range lits {
			for _, sh := range shapes {
				cond := strings.ReplaceAll(sh, "%s", lit)
				src := "on: push\njobs:\n  a:\n    runs-on: ubuntu-latest\n    steps:\n      - run: echo\n        if: \"" + strings.ReplaceAll(cond, "\"", "\\\"") + "\"\n"
				r.Begin(func() string { return fmt.Sprintf("bare if %q", cond) })
				res := vLint(src, nil)
				r.Evaluations++
				r.Transitions++
				r.Validated++
				replay := map[string]any{"src": cond, "e2e": "if-marker-in-literal"}
				if res.Panic != "" || res.Err != nil {
					r.Violation("e2e-failure", fmt.Sprintf("bare if %q: panic=%q err=%v", cond, vTrunc(res.Panic, 200), res.Err), replay)
					continue
				}
				if !c04Reference(cond + " }}").accept {
					r.HarnessError("condition %q is not a sentence by the reference", cond)
					continue
				}
				for _, d := range vDiags(res.Errs) {
					if d.Kind == "expression" && c04SyntaxRe.MatchString(d.Msg) {
						r.Violation("e2e-bare-if-marker-in-literal", fmt.Sprintf("if: %q is a sentence (the marker stands inside a string literal) but is rejected: %s", cond, d.Msg), replay)
					}
				}
			}
		}
	}
	// (f) sentences by derivation size: every expression tree with at most sentN nodes over {variable,
	// number, !, .p, .*, &&, ||, ==, index, call with 0-3 arguments}, each variable named after its
	// position so that any mix-up of operands or arguments shows in the tree
	sents := c04Sentences(sentN)
	r.Bounds["sentence_nodes_up_to"] = sentN
	for _, sz := range sents {
		for _, tmpl := range sz {
			idx++
			if !r.Mine(idx) {
				continue
			}
			if idx%(1<<14) == 0 && r.Expired() {
				return
			}
			n := 0
			var b strings.Builder
			for _, c := range tmpl.s {
				if c == '§' {
					fmt.Fprintf(&b, "v%d", n)
					n++
				} else {
					b.WriteRune(c)
				}
			}
			src := b.String() + " }}"
			r.Begin(func() string { return fmt.Sprintf("sentence %q", src) })
			c04Compare(r, src)
		}
	}
	// (b) character strings
	kc := int64(len(c04Chars))
	buf := make([]byte, 0, m+2)
	for l := 1; l <= m; l++ {
		total := int64(1)
		for i := 0; i < l; i++ {
			total *= kc
		}
		for v := int64(0); v < total; v++ {
			idx++
			if !r.Mine(idx) {
				continue
			}
			if idx%(1<<16) == 0 && r.Expired() {
				return
			}
			buf = buf[:0]
			x := v
			for i := 0; i < l; i++ {
				buf = append(buf, c04Chars[x%kc])
				x /= kc
			}
			buf = append(buf, '}', '}')
			src := string(buf)
			r.Begin(func() string { return fmt.Sprintf("chars %q", src) })
			c04Compare(r, src)
			if idx%3000017 == 0 {
				ref := c04Reference(src)
				r.Sample(map[string]any{"chars": src, "reference_accepts": ref.accept, "reference_reason": ref.reason})
			}
		}
	}
	// (c) numeric sub-enumeration: strings over 0 1 9 . e E - + x up to length 6, over 0 1 x X a F g z - up to
	// length 5, and digit strings
	// over {1,2,9} up to length 11 (reaches the 32-bit boundary), with optional sign
	for _, sub := range []struct {
		alpha string
		max   int
	}{{"019.eE-+x", 6}, {"129", 11}, {"01xXaFgz-", 5}} { // the third one: hexadecimal spellings (prefix and digits in both letter cases)
		ka := int64(len(sub.alpha))
		for l := 1; l <= sub.max; l++ {
			total := int64(1)
			for i := 0; i < l; i++ {
				total *= ka
			}
			for v := int64(0); v < total; v++ {
				idx++
				if !r.Mine(idx) {
					continue
				}
				buf = buf[:0]
				x := v
				for i := 0; i < l; i++ {
					buf = append(buf, sub.alpha[x%ka])
					x /= ka
				}
				s := string(buf)
				c04Compare(r, s+"}}")
				if sub.alpha == "129" {
					c04Compare(r, "-"+s+"}}")
				}
			}
		}
	}
	for _, s := range []string{"2147483647", "2147483648", "-2147483648", "-2147483649", "0x7fffffff", "0x80000000", "0xFFFFFFFF", "4294967296", "9223372036854775807", "9223372036854775808", "-9223372036854775808", "-9223372036854775809", "0x7fffffffffffffff", "0x8000000000000000"} {
		c04Compare(r, s+"}}")
	}
}

// c04Sent is a sentence template: § stands for a variable (numbered by position afterwards);
// tight reports whether it can be an operand of a postfix operator / of ! without parentheses.
type c04Sent struct {
	s     string
	tight bool
	op    string // top-level binary operator, if any
}

// c04Sentences returns, by node count 1..n, every sentence built from variables, the number 1,
// !x, x.p, x.*, x && y, x || y, x == y, x[y] and calls with 0-3 arguments. Operands that are not
// tight are parenthesised, so the rendered text has exactly the generated structure.
func c04Sentences(n int) [][]c04Sent {
	by := make([][]c04Sent, n+1)
	par := func(t c04Sent) string {
		if t.tight {
			return t.s
		}
		return "(" + t.s + ")"
	}
	for sz := 1; sz <= n; sz++ {
		var out []c04Sent
		if sz == 1 {
			out = append(out, c04Sent{"§", true, ""}, c04Sent{"1", true, ""}, c04Sent{"Fn()", true, ""})
		}
		// unary over sz-1
		if sz >= 2 {
			for _, t := range by[sz-1] {
				out = append(out, c04Sent{"!" + par(t), false, ""})
				if t.s != "1" {
					out = append(out, c04Sent{par(t) + ".p", true, ""}, c04Sent{par(t) + ".*", true, ""})
				}
				out = append(out, c04Sent{"Fn(" + t.s + ")", true, ""})
			}
		}
		// binary: 1 + a + b = sz
		for a := 1; a+1 < sz; a++ {
			b := sz - 1 - a
			for _, l := range by[a] {
				for _, rr := range by[b] {
					// (a chain of one operator is compared as a chain: a parenthesised operand with the
					// same operator would not be distinguishable in that normal form, so it is left out)
					for _, op := range []string{"&&", "||", "=="} {
						if l.op != op && rr.op != op {
							out = append(out, c04Sent{par(l) + " " + op + " " + par(rr), false, op})
						}
					}
					if l.s != "1" {
						out = append(out, c04Sent{par(l) + "[" + rr.s + "]", true, ""})
					}
					out = append(out, c04Sent{"Fn(" + l.s + ", " + rr.s + ")", true, ""})
				}
			}
		}
		// call with three arguments: 1 + a + b + c = sz
		for a := 1; a+2 < sz; a++ {
			for b := 1; a+b+1 < sz; b++ {
				c := sz - 1 - a - b
				if c < 1 {
					continue
				}
				for _, x := range by[a] {
					for _, y := range by[b] {
						for _, z := range by[c] {
							out = append(out, c04Sent{"Fn(" + x.s + ", " + y.s + ", " + z.s + ")", true, ""})
						}
					}
				}
			}
		}
		by[sz] = out
	}
	return by[1:]
}
