//go:build go1.23

package actionlint

// C06 — unknown (any) types never cause a diagnostic.
//
// Differential: expressions = accessor chains (length <= 3 over .y .z .* [0] ['y']) on a typed root
// wrapped in ~24 contexts; typing environments = the root (matrix, steps, needs, inputs, secrets,
// jobs) typed {x: T} with every type term T of depth <= 2 (thorough 3); loosenings = every single
// replacement of a sub-term by any and of a strict object by an open one. Oracle (the property's
// own wording): an expression accepted under G is accepted under the loosened G'.
// End-to-end: literal definitions replaced by fromJSON(...) / unknown callees must not add
// diagnostics to consumer workflows.

import (
	"fmt"
	"regexp"
	"sort"
	"strings"
	"testing"
)

// c06T is a type term.
type c06T struct {
	k   string // null number bool string any array strict open map
	sub *c06T
}

func (t *c06T) String() string {
	if t.sub == nil {
		return t.k
	}
	return t.k + "<" + t.sub.String() + ">"
}

func (t *c06T) build() ExprType {
	switch t.k {
	case "null":
		return NullType{}
	case "number":
		return NumberType{}
	case "bool":
		return BoolType{}
	case "string":
		return StringType{}
	case "any":
		return AnyType{}
	case "array":
		return &ArrayType{Elem: t.sub.build()}
	case "strict":
		return NewStrictObjectType(map[string]ExprType{"y": t.sub.build()})
	case "open":
		return NewObjectType(map[string]ExprType{"y": t.sub.build()})
	case "map":
		return NewMapObjectType(t.sub.build())
	}
	panic("bad term " + t.k)
}

func c06Terms(depth int) []*c06T {
	leaves := []*c06T{{k: "null"}, {k: "number"}, {k: "bool"}, {k: "string"}, {k: "any"}}
	if depth <= 1 {
		return leaves
	}
	out := append([]*c06T{}, leaves...)
	for _, s := range c06Terms(depth - 1) {
		for _, k := range []string{"array", "strict", "open", "map"} {
			out = append(out, &c06T{k, s})
		}
	}
	return out
}

// c06Loosenings returns every term obtained by one loosening step.
func c06Loosenings(t *c06T) []*c06T {
	var out []*c06T
	if t.k != "any" {
		out = append(out, &c06T{k: "any"})
	}
	if t.k == "strict" {
		out = append(out, &c06T{"open", t.sub})
	}
	if t.sub != nil {
		for _, s := range c06Loosenings(t.sub) {
			out = append(out, &c06T{t.k, s})
		}
	}
	return out
}

var c06Strip = regexp.MustCompile(`"[^"]*"|\{[^{}]*\}|array<[^ ]*>`)

func c06Skeleton(e *ExprError) string {
	m := e.Message
	for i := 0; i < 4; i++ {
		m = c06Strip.ReplaceAllString(m, "_")
	}
	return fmt.Sprintf("%d:%s", e.Offset, vTrunc(m, 90))
}

func c06Class(sk string) string {
	if i := strings.Index(sk, ":"); i >= 0 {
		return sk[i+1:]
	}
	return sk
}

var c06Roots = []string{"matrix", "steps", "needs", "inputs", "secrets", "jobs"}

func c06Check(root string, t *c06T, tree ExprNode) []string {
	c := NewExprSemanticsChecker(false, nil)
	c.SetContextAvailability([]string{"env", "github", "inputs", "job", "jobs", "matrix", "needs", "runner", "secrets", "steps", "strategy", "vars"})
	c.SetSpecialFunctionAvailability([]string{"always", "cancelled", "failure", "success", "hashfiles"})
	env := NewStrictObjectType(map[string]ExprType{"x": t.build(), "arr": &ArrayType{Elem: StringType{}}, "obj": NewStrictObjectType(map[string]ExprType{"y": StringType{}})})
	switch root {
	case "matrix":
		c.UpdateMatrix(env)
	case "steps":
		c.UpdateSteps(env)
	case "needs":
		c.UpdateNeeds(env)
	case "inputs":
		c.UpdateInputs(env)
	case "secrets":
		c.UpdateSecrets(env)
	case "jobs":
		c.UpdateJobs(env)
	}
	_, errs := c.Check(tree)
	out := make([]string, len(errs))
	for i, e := range errs {
		out[i] = c06Skeleton(e)
	}
	sort.Strings(out)
	return out
}

func c06Contexts(e string) []string {
	root := e
	if i := strings.IndexAny(e, ".["); i > 0 {
		root = e[:i]
	}
	return []string{
		// E as index of a value that is statically an array / an object (fixed properties of the environment)
		root + ".arr[" + e + "]", root + ".obj[" + e + "]", "contains(" + root + ".arr[" + e + "], 'a')", root + ".arr[" + e + "] == 'a'", root + ".arr.*[" + e + "]",
		e, "!" + e, e + " == 1", e + " == 'a'", "1 == " + e, e + " < 1", e + " >= 'a'", e + " && true", "false || " + e, e + " == " + e,
		"contains(" + e + ", 'a')", "contains('a', " + e + ")", "startsWith(" + e + ", 'a')", "endsWith('a', " + e + ")",
		"format('{0}', " + e + ")", "format(" + e + ", 'x')", "join(" + e + ", ',')", "join(" + e + ")", "toJSON(" + e + ")", "fromJSON(" + e + ")", "hashFiles(" + e + ")",
		"github[" + e + "]", "env[" + e + "]", e + "[0]", e + ".*", "(" + e + ").y",
		// narrowed operands (their own type is discarded, they are still checked)
		e + " && 'a' || 'b'", "(" + e + " || 'a') && 'b'", "!(" + e + " && true) && 'y'",
		// results of && / || are merged types: access after merging with a strict object / an array
		"(" + e + " || " + root + ".obj).y", "(" + root + ".obj || " + e + ").y", "(" + e + " && " + root + ".obj).z", "(" + root + ".arr || " + e + ")[0]", "(" + e + " || " + root + ".obj).*",
	}
}

func TestVerifC06(t *testing.T) {
	r := vNewReport("C06")
	defer r.Write(t)
	depth, chainLen := 2, 3
	if vThorough() {
		depth, chainLen = 3, 3
	}
	r.Bounds["type_term_depth"] = depth
	r.Bounds["accessor_chain_length"] = chainLen
	r.Extra["rule"] = "accessor chains of length <= 3 over {.y, .z, .*, [0], ['y']} on <root>.x in 34 contexts x roots {matrix, steps, needs, inputs, secrets, jobs} typed {x: T} for every type term T up to the depth bound x every single loosening (sub-term -> any, strict -> open object); oracle: an expression without diagnostics under the original environment has none under the loosened one; end-to-end: 4 literal-vs-dynamic definition pairs x consumer expressions, and every include list of 1-3 elements over 4 element forms with one known element made unknown x 8 consumers, every row list of 1-3 elements over 5 element forms likewise x 9 consumers (+ a typed position), 15 typed positions (timeouts, booleans, call-input defaults, runs-on) and 7 positions of a caller inside a repository (typed / untyped inputs and secret of a local reusable workflow, inputs of a local action) x value of known type made unknown, 13 consumers of jobs.<id>.outputs in on.workflow_call outputs with the job an ordinary one vs a call of another workflow (3 layouts, remote / local); through Linter.Lint. class = message skeleton that disappears or stays; non-trivial = original environment reports something"
	r.Extra["assumptions"] = []string{"environments type one property x of one context at a time", "message identity is compared modulo quoted names and type renderings"}

	if raw := vReplayInput(); raw != nil {
		var rp struct {
			Expr, Root, Type, Loosened string
			Src0, Src1                 string
			Project, Erroneous         bool
		}
		jsonUnmarshal(raw, &rp)
		if rp.Src0 != "" {
			if rp.Project {
				c06Lint = vProjectLint(t)
				defer func() { c06Lint = nil }()
			}
			for k := 0; k < 2; k++ {
				a, b := vLint(rp.Src0, nil), vLint(rp.Src1, nil)
				if rp.Project {
					a, b = c06Lint(rp.Src0), c06Lint(rp.Src1)
				}
				fmt.Printf("replay %d:\noriginal:\n%s\n%v\nloosened:\n%s\n%v\n", k, rp.Src0, vDiagStrings(a.Errs), rp.Src1, vDiagStrings(b.Errs))
				if rp.Erroneous {
					if msg := c06NewMessages(a, b); msg != "" {
						r.Violation("e2e-type-error-at-erroneous-value:replay", msg, rp)
					}
					continue
				}
				c06E2ECompare(r, rp.Src0, rp.Src1, "replay")
			}
			return
		}
		fmt.Printf("expression %q root %s type %s loosened %s: re-run the check for a verdict\n", rp.Expr, rp.Root, rp.Type, rp.Loosened)
		r.Class("replay", true)
		return
	}

	accs := []string{".y", ".z", ".*", "[0]", "['y']"}
	chains := []string{""}
	frontier := []string{""}
	for l := 0; l < chainLen; l++ {
		var next []string
		for _, f := range frontier {
			for _, a := range accs {
				next = append(next, f+a)
			}
		}
		chains = append(chains, next...)
		frontier = next
	}
	terms := c06Terms(depth)
	var idx int64
	// chains starting at the context itself (root.*, root['x'].y, ...) in addition to root.x<chain>
	rootAccs := []string{".x", "['x']", ".*", ".y", "[0]"}
	rootChains := []string{}
	frontier = []string{""}
	for l := 0; l < chainLen; l++ {
		var next []string
		for _, f := range frontier {
			for _, a := range rootAccs {
				next = append(next, f+a)
			}
		}
		rootChains = append(rootChains, next...)
		frontier = next
	}
	var exprsOf = func(root string) []string {
		var es []string
		for _, ch := range chains {
			es = append(es, root+".x"+ch)
		}
		for _, ch := range rootChains {
			if !strings.HasPrefix(ch, ".x") {
				es = append(es, root+ch)
			}
		}
		return es
	}
	for _, root := range c06Roots {
		for _, e := range exprsOf(root) {
			for _, expr := range c06Contexts(e) {
				idx++
				if !r.Mine(idx) {
					continue
				}
				if idx%512 == 0 && r.Expired() {
					return
				}
				tree, perr := NewExprParser().Parse(NewExprLexer(expr + "}}"))
				if perr != nil {
					r.HarnessError("C06 generated %q which does not parse: %v", expr, perr)
					return
				}
				r.Begin(func() string { return "expression " + expr })
				for _, t0 := range terms {
					base := c06Check(root, t0, tree)
					r.Evaluations++
					for _, t1 := range c06Loosenings(t0) {
						loose := c06Check(root, t1, tree)
						r.Transitions++
						r.Validated++
						// the property: an expression that was accepted stays accepted (errors that
						// an earlier error of the stricter environment masked are not "introduced")
						if len(base) == 0 && len(loose) > 0 {
							r.Violation("new-diagnostic:"+c06Class(loose[0]), fmt.Sprintf("expression %q is accepted with %s.x : %s; after loosening the type to %s it reports %v", expr, root, t0, t1, loose),
								map[string]any{"expr": expr, "root": root, "type": t0.String(), "loosened": t1.String()})
						}
					}
					if len(base) > 0 {
						r.Class("reports: "+c06Class(base[0]), true)
					} else {
						r.Class("accepted", false)
					}
				}
				if idx%1201 == 0 {
					r.Sample(map[string]any{"expression": expr, "root": root, "type_terms": len(terms)})
				}
			}
		}
	}

	// ---- end-to-end: literal definition vs dynamic definition
	consumers := []string{"matrix.x", "matrix.x.a", "matrix.x.*", "matrix.*", "matrix.x[0]", "matrix.x == 1", "contains(matrix.x, 'a')", "format('{0}', matrix.x)", "join(matrix.x, ',')", "matrix.x.a.b", "matrix.nope", "toJSON(matrix)", "matrix.x.*.a", "matrix['x']"}
	for _, c := range append([]string{}, consumers...) {
		consumers = append(consumers, "toJSON("+c+")")
	}
	rowLits := []string{"[1, 2]", "[a, b]", "[{a: 1}]", "[{a: {b: 1}}]", "[[1], [2]]", "[true]", "[1, a]"}
	for _, lit := range rowLits {
		for _, cons := range consumers {
			idx++
			if !r.Mine(idx) {
				continue
			}
			mk := func(matrix string) string {
				return "on: push\njobs:\n  a:\n    runs-on: ubuntu-latest\n    strategy:\n      matrix:\n" + matrix + "    steps:\n      - run: echo ${{ " + cons + " }}\n        if: ${{ " + cons + " }}\n        env:\n          V: ${{ " + cons + " }}\n"
			}
			src0 := mk("        x: " + lit + "\n")
			c06E2ECompare(r, src0, mk("        x: ${{ fromJSON(vars.ROW) }}\n"), "matrix-row-dynamic")
			c06E2ECompare(r, src0, mk("        x: "+lit+"\n        include: ${{ fromJSON(vars.INC) }}\n"), "matrix-include-dynamic")
			c06E2ECompare(r, src0, strings.Replace(mk(""), "      matrix:\n", "      matrix: ${{ fromJSON(vars.M) }}\n", 1), "matrix-dynamic")
		}
	}
	// a static include entry that re-types a row key, made dynamic (as a whole / as an element): the
	// row's own literal type must not be trusted any more
	for _, lit := range rowLits {
		for _, inc := range []string{"{x: {a: s}}", "{x: [p]}", "{x: 1}", "{y: {a: s}}"} {
			for _, cons := range consumers {
				idx++
				if !r.Mine(idx) {
					continue
				}
				mk := func(include string) string {
					return "on: push\njobs:\n  a:\n    runs-on: ubuntu-latest\n    strategy:\n      matrix:\n        x: " + lit + "\n" + include + "    steps:\n      - run: echo ${{ " + cons + " }}\n"
				}
				src0 := mk("        include:\n          - " + inc + "\n")
				c06E2ECompare(r, src0, mk("        include: ${{ fromJSON(vars.INC) }}\n"), "matrix-static-include-made-dynamic")
				c06E2ECompare(r, src0, mk("        include:\n          - ${{ fromJSON(vars.INC) }}\n"), "matrix-static-include-element-made-dynamic")
			}
		}
	}
	// include given as a list: every list of 1-3 elements over {two literal mappings, a statically
	// known object expression, an unknown expression}; loosening = one known element replaced by the
	// unknown one (the merged matrix type must stay at least as permissive, whatever the order)
	incElems := []string{"{a: s}", "{b: t}", `${{ fromJSON('{"c":"d"}') }}`, "${{ fromJSON(vars.E) }}"}
	incCons := []string{"matrix.a", "matrix.b", "matrix.c", "matrix.x", "matrix.nope", "matrix.a.z", "toJSON(matrix)", "matrix.*"}
	for n := 1; n <= 3; n++ {
		total := 1
		for i := 0; i < n; i++ {
			total *= len(incElems)
		}
		for code := 0; code < total; code++ {
			sel := make([]int, n)
			for i, c := 0, code; i < n; i++ {
				sel[i] = c % len(incElems)
				c /= len(incElems)
			}
			mk := func(sel []int, cons string) string {
				var b strings.Builder
				b.WriteString("on: push\njobs:\n  a:\n    runs-on: ubuntu-latest\n    strategy:\n      matrix:\n        x: [1]\n        include:\n")
				for _, e := range sel {
					b.WriteString("          - " + incElems[e] + "\n")
				}
				b.WriteString("    steps:\n      - run: echo ${{ " + cons + " }}\n")
				return b.String()
			}
			for pos := 0; pos < n; pos++ {
				if sel[pos] == len(incElems)-1 {
					continue
				}
				loose := append([]int{}, sel...)
				loose[pos] = len(incElems) - 1
				for _, cons := range incCons {
					idx++
					if !r.Mine(idx) {
						continue
					}
					c06E2ECompare(r, mk(sel, cons), mk(loose, cons), "matrix-include-element-dynamic")
				}
			}
		}
	}
	// a row given as a list: every list of 1-3 elements over {mapping, string, number, sequence,
	// unknown expression}; loosening = one literal element replaced by the unknown one
	rowElems := []string{"{a: s}", "name", "1", "[p, q]", "'${{ fromJSON(vars.E) }}'"}
	rowCons := []string{"matrix.x", "matrix.x.a", "matrix.x[0]", "matrix.x.*", "matrix.x == 1", "matrix.x.a.b", "contains(matrix.x, 'a')", "toJSON(matrix.x)", "matrix.x.*.a"}
	for n := 1; n <= 3; n++ {
		total := 1
		for i := 0; i < n; i++ {
			total *= len(rowElems)
		}
		for code := 0; code < total; code++ {
			sel := make([]int, n)
			for i, c := 0, code; i < n; i++ {
				sel[i] = c % len(rowElems)
				c /= len(rowElems)
			}
			mk := func(sel []int, cons string) string {
				parts := make([]string, len(sel))
				for i, e := range sel {
					parts[i] = rowElems[e]
				}
				return "on: push\njobs:\n  a:\n    runs-on: ubuntu-latest\n    timeout-minutes: ${{ matrix.x }}\n    strategy:\n      matrix:\n        x: [" + strings.Join(parts, ", ") + "]\n    steps:\n      - run: echo ${{ " + cons + " }}\n"
			}
			for pos := 0; pos < n; pos++ {
				if sel[pos] == len(rowElems)-1 {
					continue
				}
				loose := append([]int{}, sel...)
				loose[pos] = len(rowElems) - 1
				for _, cons := range rowCons {
					idx++
					if !r.Mine(idx) {
						continue
					}
					c06E2ECompare(r, mk(sel, cons), mk(loose, cons), "matrix-row-element-dynamic")
				}
			}
		}
	}
	// inputs declared by workflow_call AND workflow_dispatch (merged): the dispatch declaration of
	// an input loses its type (no type: key = unknown), the call declaration keeps boolean / number / string
	inCons := []string{"inputs.flag", "startsWith(inputs.flag, 't')", "contains(inputs.flag, 'x')", "inputs.flag < 10", "inputs.flag.foo", "inputs.flag[0]", "inputs.flag == 'a'", "format('{0}', inputs.flag)", "!inputs.flag", "inputs.other"}
	for _, callTy := range []string{"boolean", "number", "string"} {
		for _, dispTy := range []string{"string", "boolean", "number", "choice"} {
			for _, extra := range []bool{false, true} {
				for _, cons := range inCons {
					idx++
					if !r.Mine(idx) {
						continue
					}
					mk := func(dispatchType string) string {
						var b strings.Builder
						b.WriteString("on:\n  workflow_call:\n    inputs:\n      flag:\n        type: " + callTy + "\n")
						if extra {
							// also: the default of a call input reads an input that only the dispatch
							// event declares (checked while workflow_call, written first, is visited)
							b.WriteString("      other:\n        type: string\n        default: ${{ inputs.donly }}\n")
						}
						b.WriteString("  workflow_dispatch:\n    inputs:\n      flag:\n        description: d\n")
						if dispatchType != "" {
							b.WriteString("        type: " + dispatchType + "\n")
							if dispatchType == "choice" {
								b.WriteString("        options: [a, b]\n")
							}
						}
						if extra {
							b.WriteString("      donly:\n        description: d\n")
							if dispatchType != "" {
								b.WriteString("        type: " + dispatchType + "\n")
								if dispatchType == "choice" {
									b.WriteString("        options: [a, b]\n")
								}
							}
						}
						b.WriteString("jobs:\n  a:\n    runs-on: ubuntu-latest\n    steps:\n      - run: echo ${{ " + cons + " }}\n")
						return b.String()
					}
					c06E2ECompare(r, mk(dispTy), mk(""), "dispatch-input-type-dropped")
				}
			}
		}
	}
	// typed positions: a value of known type (right or wrong) replaced by one whose type is unknown
	// (any) - the position must accept it
	{
		job := "jobs:\n  a:\n    runs-on: ubuntu-latest\n"
		steps := "    steps:\n      - run: echo\n"
		typed := map[string]string{
			"job-timeout-minutes":            "on: push\n" + job + "    timeout-minutes: §\n" + steps,
			"step-timeout-minutes":           "on: push\n" + job + steps + "        timeout-minutes: §\n",
			"job-continue-on-error":          "on: push\n" + job + "    continue-on-error: §\n" + steps,
			"step-continue-on-error":         "on: push\n" + job + steps + "        continue-on-error: §\n",
			"strategy-fail-fast":             "on: push\n" + job + "    strategy:\n      fail-fast: §\n      matrix:\n        x: [1]\n" + steps,
			"strategy-max-parallel":          "on: push\n" + job + "    strategy:\n      max-parallel: §\n      matrix:\n        x: [1]\n" + steps,
			"concurrency-cancel-in-progress": "on: push\nconcurrency:\n  group: g\n  cancel-in-progress: §\n" + job + steps,
			"call-input-default-number":      "on:\n  workflow_call:\n    inputs:\n      n:\n        type: number\n        default: §\n" + job + steps,
			"call-input-default-boolean":     "on:\n  workflow_call:\n    inputs:\n      n:\n        type: boolean\n        default: §\n" + job + steps,
			"call-input-default-string":      "on:\n  workflow_call:\n    inputs:\n      n:\n        type: string\n        default: §\n" + job + steps,
			"call-input-default-second":      "on:\n  workflow_call:\n    inputs:\n      first:\n        type: string\n      n:\n        type: number\n        default: §\n      b:\n        type: boolean\n        default: §\n" + job + steps,
			"runs-on-expression":             "on: push\njobs:\n  a:\n    runs-on: §\n" + steps,
			"runs-on-labels-element":         "on: push\njobs:\n  a:\n    runs-on: [self-hosted, §]\n" + steps,
			"runs-on-group-labels":           "on: push\njobs:\n  a:\n    runs-on:\n      group: g\n      labels: §\n" + steps,
			"call-output-value":              "on:\n  workflow_call:\n    outputs:\n      o:\n        value: §\n" + job + steps,
		}
		anyForms := []string{"${{ fromJSON(vars.X) }}", "${{ github.event.inputs.debug }}", "${{ github.event.repository.private }}", "${{ vars.X && fromJSON(vars.X) || 10 }}", "${{ fromJSON(vars.X).a[0] }}"}
		// arrays whose ELEMENT type is unknown
		arrayOfAny := []string{"${{ fromJSON(vars.X).*.label }}", "${{ github.event.client_payload.runners.*.label }}", "${{ fromJSON('[]') }}"}
		// (value of known type, the same value with its type or a part of its type made unknown)
		type lp struct {
			known   string
			loosers []string
		}
		var pairs []lp
		for _, k := range []string{"${{ 10 }}", "${{ true }}", "${{ 'x' }}", "${{ github.run_attempt }}", "${{ null }}"} {
			pairs = append(pairs, lp{k, anyForms})
		}
		for _, k := range []string{"${{ fromJSON('[\"a\", \"b\"]') }}", "${{ fromJSON('[1]') }}"} {
			pairs = append(pairs, lp{k, append(append([]string{}, anyForms...), arrayOfAny...)})
		}
		pairs = append(pairs, lp{"${{ fromJSON('{\"a\": 1}') }}", append(append([]string{}, anyForms...), "${{ github.event.client_payload }}")})
		for _, name := range vSortedKeys(typed) {
			for _, pr := range pairs {
				for _, u := range pr.loosers {
					idx++
					if !r.Mine(idx) {
						continue
					}
					c06E2ECompare(r, strings.ReplaceAll(typed[name], "§", pr.known), strings.ReplaceAll(typed[name], "§", u), "typed-position-value-unknown:"+name)
				}
			}
		}
	}
	// typed positions of a caller inside a repository: values given to the typed and untyped inputs of
	// a local reusable workflow and to the inputs of a local action
	{
		c06Lint = vProjectLint(t)
		call := func(with string) string {
			return "on: push\njobs:\n  b:\n    uses: ./.github/workflows/callee.yml\n    with:\n" + with + "    secrets:\n      csec: x\n"
		}
		projTyped := map[string]string{
			"call-with-number":  call("      cnum: §\n"),
			"call-with-boolean": call("      cbool: §\n"),
			"call-with-string":  call("      cstr: §\n"),
			"call-with-untyped": call("      cany: §\n"),
			"call-with-all":     call("      cstr: §\n      cnum: §\n      cbool: §\n      cany: §\n"),
			"call-secret":       "on: push\njobs:\n  b:\n    uses: ./.github/workflows/callee.yml\n    secrets:\n      csec: §\n",
			"local-action-with": "on: push\njobs:\n  a:\n    runs-on: ubuntu-latest\n    steps:\n      - uses: ./act\n        with:\n          in1: §\n          in2: §\n",
		}
		anyForms := []string{"${{ fromJSON(vars.X) }}", "${{ github.event.inputs.debug }}", "${{ github.event.number }}", "${{ vars.X && fromJSON(vars.X) || 10 }}", "${{ fromJSON(vars.X).a[0] }}", "${{ fromJSON(needs.b.outputs.nothing-known) }}"}
		for _, name := range vSortedKeys(projTyped) {
			for _, known := range []string{"${{ 10 }}", "${{ true }}", "${{ 'x' }}", "${{ github.run_attempt }}", "${{ null }}", "10", "x"} {
				for _, u := range anyForms {
					if strings.Contains(u, "needs.b") {
						continue // the caller has no job to need; kept for the single-source positions
					}
					idx++
					if !r.Mine(idx) {
						continue
					}
					c06E2ECompare(r, strings.ReplaceAll(projTyped[name], "§", known), strings.ReplaceAll(projTyped[name], "§", u), "typed-position-value-unknown:"+name)
				}
			}
		}
		// a value that is one expression WITH an error of its own (its type is unknown): the declared
		// type of the input it is given to adds nothing - same diagnostics as at the untyped input
		for _, bad := range []string{"${{ needs.s.outputs.nope }}", "${{ needs.s.outputs.o.x }}", "${{ nosuchvar }}", "${{ github.nosuch }}", "${{ contains('a') }}", "${{ nosuchfn(1) }}", "${{ needs.s.outputs.o == }}"} {
			for _, in := range []string{"cstr", "cnum", "cbool"} {
				idx++
				if !r.Mine(idx) {
					continue
				}
				mk := func(name string) string {
					return "on: push\njobs:\n  s:\n    runs-on: ubuntu-latest\n    outputs:\n      o: v\n    steps:\n      - run: echo\n  b:\n    needs: s\n    uses: ./.github/workflows/callee.yml\n    with:\n      " + name + ": " + bad + "\n    secrets:\n      csec: x\n"
				}
				src0, src1 := mk("cany"), mk(in)
				a, b := c06Lint(src0), c06Lint(src1)
				r.Evaluations++
				r.Transitions += 2
				r.Validated += 2
				replay := map[string]any{"src0": src0, "src1": src1, "project": true, "erroneous": true}
				if a.Panic != "" || b.Panic != "" || a.Err != nil || b.Err != nil {
					r.Violation("failure", fmt.Sprintf("panic/err: %q %q %v %v", vTrunc(a.Panic, 100), vTrunc(b.Panic, 100), a.Err, b.Err), replay)
					continue
				}
				if msg := c06NewMessages(a, b); msg != "" {
					r.Violation("e2e-type-error-at-erroneous-value:"+in, fmt.Sprintf("a value that already has an expression error (its type is unknown) gets a further diagnostic when given to the typed input %s instead of the untyped one: %s\n%s\n%v", in, msg, src1, vDiagStrings(b.Errs)), replay)
				}
				r.Class("e2e erroneous value at typed input", true)
			}
		}
		c06Lint = nil
	}
	// known action / unknown action; declared job outputs / reusable workflow call
	outCons := []string{"steps.s.outputs.ref", "steps.s.outputs.nope", "steps.s.outputs.ref.x", "steps.s.outputs.*", "steps.s.conclusion", "steps.s.nope", "steps.s.outputs['commit']", "contains(steps.s.outputs.ref, 'a')"}
	for _, c := range append([]string{}, outCons...) {
		outCons = append(outCons, "toJSON("+c+")")
	}
	for _, cons := range outCons {
		idx++
		if !r.Mine(idx) {
			continue
		}
		mk := func(uses string) string {
			return "on: push\njobs:\n  a:\n    runs-on: ubuntu-latest\n    steps:\n      - uses: " + uses + "\n        id: s\n      - run: echo ${{ " + cons + " }}\n"
		}
		c06E2ECompare(r, mk("actions/checkout@v4"), mk("unknown-owner/unknown-action@v1"), "action-unknown")
	}
	needCons := []string{"needs.j.outputs.o", "needs.j.outputs.nope", "needs.j.outputs.o.x", "needs.j.result", "needs.j.nope", "needs.j.outputs.*", "toJSON(needs.j.outputs)"}
	for _, c := range append([]string{}, needCons...) {
		needCons = append(needCons, "toJSON("+c+")")
	}
	for _, cons := range needCons {
		idx++
		if !r.Mine(idx) {
			continue
		}
		tail := "  b:\n    needs: j\n    runs-on: ubuntu-latest\n    steps:\n      - run: echo ${{ " + cons + " }}\n"
		src0 := "on: push\njobs:\n  j:\n    runs-on: ubuntu-latest\n    outputs:\n      o: v\n    steps:\n      - run: echo\n" + tail
		src1 := "on: push\njobs:\n  j:\n    uses: owner/repo/.github/workflows/w.yml@v1\n" + tail
		c06E2ECompare(r, src0, src1, "needs-outputs-unknown")
	}
	// the webhook payload github.event is an open object whatever the triggers are: the same consumers
	// with and without a workflow_dispatch trigger (which adds the typed github.event.inputs)
	for _, cons := range []string{"github.event.pull_request.title", "github.event['repository'].name", "github.event.pull_request.labels.*.name", "github.event.x.y.z", "toJSON(github.event)", "github.event.number == 1", "contains(github.event.head_commit.message, 'x')", "github.event.client_payload.a[0]"} {
		for _, trig := range []string{"  workflow_dispatch:\n", "  workflow_dispatch:\n    inputs:\n      din:\n        type: string\n", "  workflow_dispatch:\n    inputs:\n      din:\n        type: boolean\n      other:\n        type: choice\n        options: [a]\n"} {
			for _, first := range []bool{false, true} {
				idx++
				if !r.Mine(idx) {
					continue
				}
				mk := func(extra string) string {
					on := "on:\n  pull_request:\n" + extra
					if first {
						on = "on:\n" + extra + "  pull_request:\n"
					}
					return on + "jobs:\n  a:\n    runs-on: ubuntu-latest\n    steps:\n      - run: echo\n        env:\n          V: ${{ " + cons + " }}\n        if: ${{ " + cons + " }}\n"
				}
				c06E2ECompare(r, mk(""), mk(trig), "event-payload-open-with-dispatch-trigger")
			}
		}
	}
	// a matrix given as ONE expression whose include list has elements of known type vs the same list
	// with one more element that makes the element type unknown
	for _, cons := range []string{"matrix.x", "matrix.X", "matrix['x']", "matrix.os", "toJSON(matrix)", "matrix.x == 1", "matrix.x.y", "matrix.nope"} {
		for _, extra := range []string{"null", "1", "\"s\"", "[]", "{\"y\":2},null"} {
			idx++
			if !r.Mine(idx) {
				continue
			}
			mk := func(inc string) string {
				return "on: push\njobs:\n  a:\n    runs-on: ubuntu-latest\n    strategy:\n      matrix: ${{ fromJSON('{\"os\":[\"a\"],\"include\":[" + inc + "]}') }}\n    steps:\n      - run: echo ${{ " + cons + " }}\n"
			}
			c06E2ECompare(r, mk("{\"x\":1}"), mk("{\"x\":1},"+extra), "matrix-expression-include-element-unknown")
		}
	}
	// the jobs context of on.workflow_call.outputs.<id>.value: declared outputs of an ordinary job vs a
	// job that calls another reusable workflow (its outputs are not known); the call job first, last,
	// next to an ordinary job
	jobsCons := []string{"jobs.j.outputs.o", "jobs.J.outputs.O", "jobs.j.outputs['o']", "jobs['j'].outputs.o", "toJSON(jobs.j.outputs)", "jobs.j.outputs.o || 'x'", "format('{0}', jobs.j.outputs.o)", "jobs.j.result", "jobs.*.outputs.o", "toJSON(jobs.*.outputs)", "jobs.j.outputs.o.x", "jobs.j.outputs.nope", "jobs.j.nope"}
	for _, cons := range jobsCons {
		for _, layout := range []int{0, 1, 2} {
			for _, local := range []bool{false, true} {
				idx++
				if !r.Mine(idx) {
					continue
				}
				head := "on:\n  workflow_call:\n    outputs:\n      out:\n        value: ${{ " + cons + " }}\njobs:\n"
				other := "  k:\n    runs-on: ubuntu-latest\n    outputs:\n      ko: v\n    steps:\n      - run: echo\n"
				plain := "  j:\n    runs-on: ubuntu-latest\n    outputs:\n      o: v\n    steps:\n      - run: echo\n"
				uses := "owner/repo/.github/workflows/w.yml@v1"
				if local {
					uses = "./.github/workflows/other.yml"
				}
				call := "  j:\n    uses: " + uses + "\n"
				wrap := func(j string) string {
					switch layout {
					case 1:
						return head + other + j
					case 2:
						return head + j + other
					}
					return head + j
				}
				c06E2ECompare(r, wrap(plain), wrap(call), "jobs-outputs-unknown")
			}
		}
	}
}

var c06PosRe = regexp.MustCompile(`^\d+:\d+ `)

// c06E2ECompare: diagnostics of the loosened workflow (kind expression, at consumer lines) must be
// a sub-multiset of the original's, compared by message skeleton.
// c06NewMessages returns the first diagnostic message of b (expression kind) that a does not have.
func c06NewMessages(a, b vLintResult) string {
	have := map[string]bool{}
	for _, d := range vDiags(a.Errs) {
		have[d.Msg] = true
	}
	for _, d := range vDiags(b.Errs) {
		if d.Kind == "expression" && !have[d.Msg] {
			return d.Msg
		}
	}
	return ""
}

// c06Lint, when set, lints the two sources as a file of the project seed's repository (local action
// and local reusable workflow with typed inputs).
var c06Lint func(src string) vLintResult

func c06E2ECompare(r *vReport, src0, src1, class string) {
	a, b := vLint(src0, nil), vLint(src1, nil)
	if c06Lint != nil {
		a, b = c06Lint(src0), c06Lint(src1)
	}
	r.Evaluations++
	r.Transitions += 2
	r.Validated += 2
	replay := map[string]any{"src0": src0, "src1": src1, "project": c06Lint != nil}
	if a.Panic != "" || b.Panic != "" || a.Err != nil || b.Err != nil {
		r.Violation("failure", fmt.Sprintf("panic/err: %q %q %v %v", vTrunc(a.Panic, 100), vTrunc(b.Panic, 100), a.Err, b.Err), replay)
		return
	}
	skel := func(res vLintResult) map[string]int {
		m := map[string]int{}
		for _, d := range vDiags(res.Errs) {
			if d.Kind != "expression" {
				continue
			}
			msg := d.Msg
			for i := 0; i < 4; i++ {
				msg = c06Strip.ReplaceAllString(msg, "_")
			}
			m[vTrunc(msg, 90)]++
		}
		return m
	}
	s0, s1 := skel(a), skel(b)
	if len(s0) == 0 {
		for k := range s1 {
			r.Violation("e2e-new-diagnostic:"+class+":"+k, fmt.Sprintf("%s: the consumer is accepted with the literal definition; making the definition dynamic adds diagnostic %q\noriginal:\n%s\nloosened:\n%s\n%v", class, k, src0, src1, vDiagStrings(b.Errs)), replay)
		}
	}
	r.Class("e2e "+class, len(s0) > 0)
}
