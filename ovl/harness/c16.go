//go:build go1.23

package actionlint

// C16 — every output format renders the diagnostics faithfully, one per line.
//
// (a) echo sites x hostile payloads: every value and key position of the clean seeds and of a
// noisy seed (whose diagnostics echo object types, names and user strings) is filled, through a
// double-quoted YAML scalar, with payloads containing line breaks, control, non-ASCII, bracket and
// colon text; every resulting diagnostic list is rendered in default, -oneline, color, JSON and
// custom -format mode and parsed back (header lines through the shipped problem-matcher regexp).
// (b) the snippet renderer over all sources of length <= 5 over {a, space, tab, LF, é, あ} x line
// -1..4 x column -1..7.

import (
	"bytes"
	"encoding/json"
	"fmt"
	"os"
	"path/filepath"
	"regexp"
	"sort"
	"strings"
	"testing"
	"unicode/utf8"

	"github.com/fatih/color"
	"github.com/rhysd/actionlint/verifshim/vexec"
)

const c16Noisy = `on:
  workflow_dispatch:
    inputs:
      din:
        type: string
  schedule:
    - cron: '0 0 * * *'
  pull_request:
    types: [opened]
    branches: [main]
env:
  WK: wv
jobs:
  first:
    runs-on: ubuntu-latest
    strategy:
      matrix:
        os: [x]
        include:
          - os: y
            extra: z
    outputs:
      out1: v
    env:
      EK: v
    steps:
      - id: s1
        run: echo ${{ matrix.nosuch }} ${{ inputs.nosuch }} ${{ env.nosuch.x }} ${{ steps.nosuch }} ${{ needs.nosuch }} ${{ secrets.x.y }} ${{ vars.x.y }}
        env:
          SK: v
      - uses: actions/checkout@v4
        with:
          ref: r
  second:
    needs: first
    runs-on: ubuntu-latest
    steps:
      - run: echo ${{ needs.first.outputs.nosuch }} ${{ needs.nosuch }} ${{ fromJSON('{"jk":1}').nosuch }}
`

// c16Payloads are written inside a double-quoted YAML scalar (so \n etc. are YAML escapes).
var c16Payloads = []struct{ name, yaml string }{
	{"lf", `a\nb`}, {"cr", `a\rb`}, {"ctl", `a\u0001b`}, {"latin", `é`}, {"wide", `あ`}, {"bracket", `a [b]`}, {"header-like", `x:1:2: y`},
	{"percent", `%s%d`}, {"esc", `a\eb`}, {"nel", `a\Nb`}, {"ls", `a\Lb`}, {"tab", `a\tb`},
}

// c16Templates echo a user string only when it occurs at several places (§ = the payload).
var c16Templates = []string{
	// duplicate matrix values: scalar, mapping key, mapping value, nested sequence
	c16Job("    strategy:\n      matrix:\n        cfg: [§, §]\n"),
	c16Job("    strategy:\n      matrix:\n        cfg: [{§: 1}, {§: 1}]\n"),
	c16Job("    strategy:\n      matrix:\n        cfg: [{k: §}, {k: §}]\n"),
	c16Job("    strategy:\n      matrix:\n        cfg: [[§, 1], [§, 1]]\n"),
	c16Job("    strategy:\n      matrix:\n        cfg: [{k: {§: [§]}}, {k: {§: [§]}}]\n"),
	// exclude / include against the rows
	c16Job("    strategy:\n      matrix:\n        cfg: [{§: 1}, x]\n        exclude:\n          - cfg: {§: 2}\n"),
	c16Job("    strategy:\n      matrix:\n        cfg: [§, x]\n        exclude:\n          - cfg: [§]\n"),
	c16Job("    strategy:\n      matrix:\n        cfg: [[§], {a: §}]\n        exclude:\n          - cfg: zz\n"),
	c16Job("    strategy:\n      matrix:\n        cfg: [x]\n        exclude:\n          - §: 1\n"),
	c16Job("    strategy:\n      matrix:\n        §: [x]\n        exclude:\n          - §: y\n"),
	c16Job("    strategy:\n      matrix:\n        cfg: [x]\n        other: [y]\n        exclude:\n          - cfg: §\n            other: {§: §}\n"),
	// duplicate ids / names
	"on: push\njobs:\n  a:\n    runs-on: ubuntu-latest\n    steps:\n      - id: §\n        run: echo\n      - id: §\n        run: echo\n",
	"on: push\njobs:\n  a:\n    needs: [§, §]\n    runs-on: ubuntu-latest\n    steps:\n      - run: echo\n",
	"on: push\njobs:\n  §:\n    runs-on: ubuntu-latest\n    steps:\n      - run: echo\n  b:\n    needs: [§]\n    runs-on: ubuntu-latest\n    steps:\n      - run: echo ${{ needs.nosuch }}\n",
	"on: push\njobs:\n  a:\n    runs-on: ubuntu-latest\n    env:\n      §: 1\n      §: 2\n    steps:\n      - run: echo\n",
	"on: push\njobs:\n  a:\n    runs-on: ubuntu-latest\n    steps:\n      - uses: actions/checkout@v4\n        with:\n          §: 1\n          §: 2\n",
	"on: push\njobs:\n  a:\n    runs-on: [§, §, ubuntu-latest, windows-latest]\n    steps:\n      - run: echo\n",
	"on: push\njobs:\n  a:\n    runs-on: ubuntu-latest\n    outputs:\n      §: a\n      §: b\n    steps:\n      - run: echo\n",
	"on: push\njobs:\n  a:\n    runs-on: ubuntu-latest\n    services:\n      §:\n        image: x\n      §:\n        image: y\n    steps:\n      - run: echo ${{ job.services.nosuch }}\n",
	// job ids echoed by the needs rule: cycle through §, self-cycle, dangling and existing references
	"on: push\njobs:\n  §:\n    needs: [b]\n    runs-on: ubuntu-latest\n    steps:\n      - run: echo\n  b:\n    needs: [§]\n    runs-on: ubuntu-latest\n    steps:\n      - run: echo\n",
	"on: push\njobs:\n  §:\n    needs: §\n    runs-on: ubuntu-latest\n    steps:\n      - run: echo\n",
	"on: push\njobs:\n  a:\n    needs: [§, b]\n    runs-on: ubuntu-latest\n    steps:\n      - run: echo ${{ needs.b.outputs.x }} ${{ needs.nosuch }}\n  b:\n    needs: [c]\n    runs-on: ubuntu-latest\n    steps:\n      - run: echo\n  c:\n    needs: [b, §]\n    runs-on: ubuntu-latest\n    steps:\n      - run: echo\n",
	// declared sets
	"on:\n  workflow_dispatch:\n    inputs:\n      x:\n        type: choice\n        options: [§, §]\n        default: zz\njobs:\n  a:\n    runs-on: ubuntu-latest\n    steps:\n      - run: echo\n",
	"on:\n  workflow_dispatch:\n    inputs:\n      x:\n        type: choice\n        options: [p]\n        default: §\njobs:\n  a:\n    runs-on: ubuntu-latest\n    steps:\n      - run: echo\n",
	"on:\n  workflow_dispatch:\n    inputs:\n      §:\n        type: string\n      §:\n        type: string\njobs:\n  a:\n    runs-on: ubuntu-latest\n    steps:\n      - run: echo ${{ inputs.nosuch }}\n",
	"on:\n  workflow_call:\n    inputs:\n      §:\n        type: string\n    secrets:\n      §:\n        required: true\n    outputs:\n      §:\n        value: v\njobs:\n  a:\n    runs-on: ubuntu-latest\n    steps:\n      - run: echo ${{ inputs.nosuch }} ${{ secrets.nosuch.x }}\n",
	"on:\n  push:\n    branches: [§, §]\n    branches-ignore: [§]\n    paths: [§]\n    paths-ignore: [§]\njobs:\n  a:\n    runs-on: ubuntu-latest\n    steps:\n      - run: echo\n",
	"on: [§, §]\njobs:\n  a:\n    runs-on: ubuntu-latest\n    steps:\n      - run: echo\n",
	"on: push\npermissions:\n  §: read\n  §: write\njobs:\n  a:\n    runs-on: ubuntu-latest\n    steps:\n      - run: echo\n",
	"on: push\njobs:\n  a:\n    runs-on: ubuntu-latest\n    strategy:\n      matrix:\n        §: [1]\n    steps:\n      - run: echo ${{ matrix.nosuch }} ${{ matrix }}\n",
	"on: push\njobs:\n  a:\n    runs-on: ubuntu-latest\n    steps:\n      - id: s\n        run: echo\n        shell: §\n      - run: echo\n        shell: §\n",
}

func c16Job(strategy string) string {
	return "on: push\njobs:\n  a:\n    runs-on: ubuntu-latest\n" + strategy + "    steps:\n      - run: echo ${{ matrix.nosuch }} ${{ toJSON(matrix) == 1 }}\n"
}

var c16Matcher *regexp.Regexp

func c16LoadMatcher(repo string) error {
	b, err := os.ReadFile(filepath.Join(repo, ".github", "actionlint-matcher.json"))
	if err != nil {
		return err
	}
	var m struct {
		ProblemMatcher []struct {
			Pattern []struct {
				Regexp                            string
				File, Line, Column, Message, Code int
			}
		}
	}
	if err := json.Unmarshal(b, &m); err != nil {
		return err
	}
	p := m.ProblemMatcher[0].Pattern[0]
	if p.File != 1 || p.Line != 2 || p.Column != 3 || p.Message != 4 || p.Code != 5 {
		return fmt.Errorf("unexpected group layout in the matcher")
	}
	// JavaScript's "." does not match LF, CR, U+2028 and U+2029; Go's excludes only LF
	js := p.Regexp
	var tr strings.Builder
	inClass := false
	for i := 0; i < len(js); i++ {
		c := js[i]
		switch {
		case c == '\\' && i+1 < len(js):
			tr.WriteByte(c)
			tr.WriteByte(js[i+1])
			i++
		case c == '[':
			inClass = true
			tr.WriteByte(c)
		case c == ']':
			inClass = false
			tr.WriteByte(c)
		case c == '.' && !inClass:
			tr.WriteString(`[^\n\r\x{2028}\x{2029}]`)
		default:
			tr.WriteByte(c)
		}
	}
	re, err := regexp.Compile(tr.String())
	if err != nil {
		return fmt.Errorf("matcher regexp does not translate to Go regexp: %v", err)
	}
	c16Matcher = re
	return nil
}

type c16Mode struct {
	name string
	opts LinterOptions
}

const c16Custom = `{{range $e := .}}{{$e.Filepath}}|{{$e.Line}}|{{$e.Column}}|{{$e.Kind}}|{{json $e.Message}}{{end}}`

var c16Modes = []c16Mode{
	{"default", LinterOptions{Color: ColorOptionKindNever}},
	{"oneline", LinterOptions{Oneline: true, Color: ColorOptionKindNever}},
	{"oneline-color", LinterOptions{Oneline: true, Color: ColorOptionKindAlways}},
	{"default-color", LinterOptions{Color: ColorOptionKindAlways}},
	{"json", LinterOptions{Format: "{{json .}}", Color: ColorOptionKindNever}},
	{"custom", LinterOptions{Format: c16Custom, Color: ColorOptionKindNever}},
}

var c16EscRe = regexp.MustCompile(`\x1b\[\d+m`)
var c16TrailingEscRe = regexp.MustCompile(`(?:\x1b\[\d+m)+$`)

func c16MsgClass(m string) string {
	m = regexp.MustCompile(`"(?:[^"\\]|\\.)*"`).ReplaceAllString(m, `"_"`)
	m = regexp.MustCompile(`\{[^}]*\}`).ReplaceAllString(m, "{_}")
	m = regexp.MustCompile(`\d+`).ReplaceAllString(m, "N")
	return vTrunc(strings.ReplaceAll(strings.ReplaceAll(m, "\n", "<LF>"), "\r", "<CR>"), 70)
}

// c16CheckRender lints src in every mode and checks that the output parses back to the API result.
func c16CheckRender(r *vReport, what, src string) {
	c16CheckRenderAt(r, what, "test.yaml", src, nil, map[string]any{"src": src, "what": what})
}

// c16CheckRenderAt lints src as the file at path (inside proj when given) in every mode.
func c16CheckRenderAt(r *vReport, what, path, src string, proj *Project, replay map[string]any) {
	var base []*Error
	var defaultOut string // output of the default mode and the indexes of its header lines
	var defaultHeaders []int
	for mi, m := range c16Modes {
		var out bytes.Buffer
		opts := m.opts
		opts.WorkingDir = "/"
		if c16ExtraOpts != nil {
			c16ExtraOpts(&opts)
		}
		l, err := NewLinter(&out, &opts)
		if err != nil {
			r.HarnessError("NewLinter for mode %s: %v", m.name, err)
			return
		}
		var errs []*Error
		var lerr error
		func() {
			defer func() {
				if p := recover(); p != nil {
					r.Violation("render-panic:"+m.name, fmt.Sprintf("%s: rendering in mode %s panicked: %v\n%s", what, m.name, p, vTrunc(vStack(), 800)), replay)
				}
			}()
			errs, lerr = l.Lint(path, []byte(src), proj)
		}()
		color.NoColor = true
		r.Evaluations++
		r.Transitions++
		r.Validated++
		if lerr != nil {
			r.Violation("render-error:"+m.name, fmt.Sprintf("%s: mode %s failed: %v", what, m.name, lerr), replay)
			continue
		}
		if mi == 0 {
			base = errs
			for _, e := range errs {
				if strings.ContainsAny(e.Message, "\n\r") {
					r.Violation("message-line-break:"+e.Kind+":"+c16MsgClass(e.Message), fmt.Sprintf("%s: message of a %s diagnostic contains a line break: %q", what, e.Kind, e.Message), replay)
				}
			}
		} else if len(errs) != len(base) {
			r.Violation("mode-changes-diagnostics:"+m.name, fmt.Sprintf("%s: %d diagnostics in mode %s, %d in default mode", what, len(errs), m.name, len(base)), replay)
			continue
		}
		o := out.String()
		if os.Getenv("VERIF_DEBUG") != "" {
			fmt.Printf("mode %s output %q\n", m.name, o)
		}
		switch m.name {
		case "oneline", "oneline-color":
			// in colour mode the sequence that resets the colour of the last line follows its line break:
			// escape sequences after the last line break are not a line
			o = c16TrailingEscRe.ReplaceAllString(o, "")
			lines := strings.Split(strings.TrimSuffix(o, "\n"), "\n")
			if o == "" {
				lines = nil
			}
			if len(lines) != len(errs) {
				r.Violation("oneline-line-count", fmt.Sprintf("%s: -oneline printed %d lines for %d diagnostics (first message: %q)", what, len(lines), len(errs), c16First(errs)), replay)
				continue
			}
			for i, e := range errs {
				c16ParseBack(r, what, m.name, lines[i], e, replay)
			}
		case "default-color":
			// colour adds escape sequences and nothing else; the header lines (where the default mode
			// has them) parse back with the matcher as they are
			plain := c16EscRe.ReplaceAllString(o, "")
			if plain != defaultOut {
				r.Violation("color-changes-text", fmt.Sprintf("%s: default mode with colour, escape sequences removed, differs from the output without colour\n%q\n%q", what, vTrunc(plain, 400), vTrunc(defaultOut, 400)), replay)
				continue
			}
			lines := strings.Split(o, "\n")
			for k, li := range defaultHeaders {
				if k < len(errs) && li < len(lines) {
					c16ParseBack(r, what, m.name, lines[li], errs[k], replay)
				}
			}
		case "default":
			lines := strings.Split(o, "\n")
			li := 0
			defaultOut = o
			for _, e := range errs {
				if li >= len(lines) {
					r.Violation("default-missing-header", fmt.Sprintf("%s: output ended before the header of %q", what, e.Message), replay)
					break
				}
				if !c16ParseBack(r, what, m.name, lines[li], e, replay) {
					break
				}
				defaultHeaders = append(defaultHeaders, li)
				li++
				// optional snippet block: "  |", "N | src", "  | ^~~"
				if li+2 < len(lines) && strings.HasSuffix(strings.TrimRight(lines[li], " "), "|") && strings.TrimLeft(lines[li], " ") == "|" {
					srcLines := c16Lines(src)
					want := ""
					if e.Line >= 1 && e.Line <= len(srcLines) {
						want = srcLines[e.Line-1]
					}
					got := lines[li+1]
					pfx := fmt.Sprintf("%d | ", e.Line)
					if !strings.HasPrefix(got, pfx) || got[len(pfx):] != want {
						r.Violation("snippet-line", fmt.Sprintf("%s: snippet shows %q, referenced source line %d is %q", what, got, e.Line, want), replay)
					}
					li += 3
				}
			}
		case "json":
			var fields []ErrorTemplateFields
			if err := json.Unmarshal([]byte(o), &fields); err != nil {
				r.Violation("json-invalid", fmt.Sprintf("%s: {{json .}} output is not valid JSON: %v", what, err), replay)
				continue
			}
			if len(fields) != len(errs) {
				r.Violation("json-count", fmt.Sprintf("%s: JSON has %d entries for %d diagnostics", what, len(fields), len(errs)), replay)
				continue
			}
			for i, e := range errs {
				f := fields[i]
				if f.Message != e.Message || f.Filepath != e.Filepath || f.Line != e.Line || f.Column != e.Column || f.Kind != e.Kind {
					r.Violation("json-roundtrip:"+e.Kind, fmt.Sprintf("%s: JSON entry %d = %+v does not round-trip %v", what, i, f, e), replay)
				}
			}
		case "custom":
			lines := strings.Split(strings.TrimSuffix(o, "\n"), "\n")
			if o == "" {
				lines = nil
			}
			if len(lines) != len(errs) {
				r.Violation("custom-line-count", fmt.Sprintf("%s: custom format printed %d lines for %d diagnostics", what, len(lines), len(errs)), replay)
				continue
			}
			for i, e := range errs {
				parts := strings.SplitN(lines[i], "|", 5)
				var msg string
				if len(parts) == 5 {
					json.Unmarshal([]byte(parts[4]), &msg)
				}
				if len(parts) != 5 || parts[0] != e.Filepath || parts[1] != fmt.Sprint(e.Line) || parts[2] != fmt.Sprint(e.Column) || parts[3] != e.Kind || msg != e.Message {
					r.Violation("custom-roundtrip:"+e.Kind, fmt.Sprintf("%s: custom format line %q does not round-trip %v", what, lines[i], e), replay)
				}
			}
		}
	}
	for _, e := range base {
		r.Class(e.Kind+": "+c16MsgClass(e.Message), true)
	}
	if len(base) == 0 {
		r.Class("no diagnostics", false)
	}
}

func c16First(errs []*Error) string {
	for _, e := range errs {
		if strings.ContainsAny(e.Message, "\n\r") {
			return e.Message
		}
	}
	if len(errs) > 0 {
		return errs[0].Message
	}
	return ""
}

// c16ParseBack applies the shipped matcher to one header line.
func c16ParseBack(r *vReport, what, mode, line string, e *Error, replay map[string]any) bool {
	m := c16Matcher.FindStringSubmatch(line)
	if m == nil {
		r.Violation("matcher-no-match:"+mode+":"+e.Kind+":"+c16MsgClass(e.Message), fmt.Sprintf("%s (%s): header line %q is not matched by the problem matcher (diagnostic %v)", what, mode, line, e), replay)
		return false
	}
	if m[1] != e.Filepath || m[2] != fmt.Sprint(e.Line) || m[3] != fmt.Sprint(e.Column) || m[4] != e.Message || m[5] != e.Kind {
		key := "matcher-misparse:" + mode
		if m[4] != e.Message && strings.Contains(e.Message, " [") {
			key = "matcher-misparse-bracket-in-message"
		} else {
			key += ":" + e.Kind + ":" + c16MsgClass(e.Message)
		}
		r.Violation(key, fmt.Sprintf("%s (%s): header line %q parses back to file=%q line=%s col=%s message=%q kind=%q, diagnostic is %v", what, mode, line, m[1], m[2], m[3], m[4], m[5], e), replay)
		return false
	}
	return true
}

func TestVerifC16(t *testing.T) {
	r := vNewReport("C16")
	defer r.Write(t)
	repo := os.Getenv("VERIF_REPO")
	if repo == "" {
		repo = "/repo"
	}
	if err := c16LoadMatcher(repo); err != nil {
		r.HarnessError("%v", err)
		return
	}
	maxLen := 4
	if vThorough() {
		maxLen = 5
	}
	r.Bounds["snippet_source_length"] = maxLen
	r.Bounds["payloads"] = len(c16Payloads)
	r.Bounds["modes"] = len(c16Modes)
	r.Extra["rule"] = "(a) every value and key position of 4 clean seeds + 1 noisy seed (type-echoing diagnostics) x 12 hostile payloads in double-quoted YAML; each diagnostic list rendered in 6 modes (default, -oneline, both also with colour, {{json .}}, custom template) and parsed back with the shipped problem-matcher regexp / JSON; the same payloads at every value and key of a local action metadata file and of a local reusable workflow file (as string, sequence, mapping; one position and every pair of positions), rendering the workflow that uses them; scripted shellcheck / pyflakes answering with 10 issue texts (line breaks of every kind, brackets, escape characters); (b) PrettyPrint and GetTemplateFields over all sources <= L over {a, space, tab, LF, é, あ, CR, U+2028} (lines as the YAML parser counts them) x line -1..4 x column -1..7 against a reference. class = (kind, message skeleton) | snippet outcome; non-trivial = at least one diagnostic"
	r.Extra["assumptions"] = []string{"the matcher's JavaScript regexp is translated to Go regexp syntax with '.' narrowed to JavaScript's meaning (no LF, CR, U+2028, U+2029)", "caret placement is not compared when the column splits a multi-byte character; a tab before the caret is expected to be repeated in the caret line"}

	if raw := vReplayInput(); raw != nil {
		var rp struct {
			Src, What string
			Snippet   *struct {
				Src       string
				Line, Col int
			}
		}
		jsonUnmarshal(raw, &rp)
		if rp.Snippet != nil {
			c16Snippet(r, rp.Snippet.Src, rp.Snippet.Line, rp.Snippet.Col)
			c16Snippet(r, rp.Snippet.Src, rp.Snippet.Line, rp.Snippet.Col)
			return
		}
		if strings.HasPrefix(rp.What, "caret ") {
			c16Caret(r)
			c16Caret(r)
			return
		}
		if strings.HasPrefix(rp.What, "project ") {
			var n int64
			c16Project(t, r, &n, rp.What)
			c16Project(t, r, &n, rp.What)
			return
		}
		if strings.HasPrefix(rp.What, "LintFiles") {
			c16MultiFile(t, r)
			c16MultiFile(t, r)
			return
		}
		if strings.HasPrefix(rp.What, "tools answering") {
			c16Tools(r)
			c16Tools(r)
			return
		}
		for k := 0; k < 2; k++ {
			res := vLint(rp.Src, &LinterOptions{Oneline: true})
			fmt.Printf("replay %d:\n%s\noutput:\n%s\n", k, rp.Src, res.Out)
			c16CheckRender(r, rp.What, rp.Src)
		}
		return
	}

	// ---- (a)
	seeds := map[string]string{"noisy": c16Noisy}
	for k, v := range vSeeds {
		seeds[k] = v
	}
	var idx int64
	for _, sname := range vSortedKeys(seeds) {
		cat, err := vBuildCatalogue(sname, seeds[sname])
		if err != nil {
			r.HarnessError("%v", err)
			return
		}
		for _, p := range append(append([]*vPos{}, cat.Scalars...), cat.Keys...) {
			for _, pl := range c16Payloads {
				idx++
				if !r.Mine(idx) {
					continue
				}
				if idx%256 == 0 && r.Expired() {
					return
				}
				variants := []string{`"` + pl.yaml + `"`}
				// structured wrappers: the payload at the place where a sub-syntax (glob class and
				// range, escape, action reference, cron field) echoes a single character or field
				core := pl.yaml
				if len(core) >= 3 && core[0] == 'a' && core[len(core)-1] == 'b' {
					core = core[1 : len(core)-1]
				}
				for _, w := range []string{"[a-%s]", "[%s-a]", "[%s]", "x%s+", "\\\\%s", "own/rep@%s", "docker://%s", "docker://%%zz:%s", "docker://img:%s", "./%s", "@%s", "%s * * * *", "* * %s * *", "%s: x", "x, %s"} {
					variants = append(variants, `"`+fmt.Sprintf(w, core)+`"`)
				}
				if !p.IsKey {
					// also embedded in the original text and inside a string literal of an expression
					variants = append(variants, `"`+strings.ReplaceAll(p.Value, `"`, `\"`)+pl.yaml+`"`, `"${{ '`+pl.yaml+`' == 1 }}"`, `"${{ fromJSON('{\"`+strings.ReplaceAll(pl.yaml, `\`, `\\`)+`\": 1}').zz }}"`, `"${{ nosuch_`+pl.yaml+` }}"`)
				}
				for vi, v := range variants {
					src := cat.Replace(p, v)
					what := fmt.Sprintf("seed %s position %s (key=%v) payload %s variant %d", sname, p.Path, p.IsKey, pl.name, vi)
					r.Begin(func() string { return what })
					c16CheckRender(r, what, src)
				}
				if idx%1501 == 0 {
					r.Sample(map[string]any{"seed": sname, "position": p.Path, "is_key": p.IsKey, "payload": pl.yaml})
				}
			}
		}
	}

	// ---- (a2) echo sites that need the same user string at several places at once (duplicates,
	// mismatches against a declared set): § is replaced by the payload everywhere
	for ti, tmpl := range c16Templates {
		for _, pl := range c16Payloads {
			core := pl.yaml
			if len(core) >= 3 && core[0] == 'a' && core[len(core)-1] == 'b' {
				core = core[1 : len(core)-1]
			}
			for wi, w := range []string{"%s", "x%sy", "[%s-a]", "%s: x"} {
				idx++
				if !r.Mine(idx) {
					continue
				}
				arg := pl.yaml
				if wi > 0 {
					arg = core
				}
				src := strings.ReplaceAll(tmpl, "§", `"`+fmt.Sprintf(w, arg)+`"`)
				what := fmt.Sprintf("template %d payload %s wrapper %d", ti, pl.name, wi)
				r.Begin(func() string { return what })
				c16CheckRender(r, what, src)
			}
		}
	}
	r.Bounds["multi_site_templates"] = len(c16Templates)

	// ---- (a4) every workflow of the repository's own testdata (all rules, the maintainers' examples)
	// rendered in every mode and parsed back
	for _, g := range []string{"testdata/examples/*.yaml", "testdata/ok/*.yaml", "testdata/err/*.yaml"} {
		files, _ := filepath.Glob(filepath.Join(repo, g))
		sort.Strings(files)
		for _, f := range files {
			idx++
			if !r.Mine(idx) {
				continue
			}
			b, err := os.ReadFile(f)
			if err != nil {
				continue
			}
			what := "corpus " + strings.TrimPrefix(f, repo+"/")
			r.Begin(func() string { return what })
			c16CheckRender(r, what, string(b))
		}
	}

	// ---- (a3) several files in one LintFiles call: what is printed is what is returned, in that order
	if r.Shard == 0 {
		c16MultiFile(t, r)
		c16Tools(r)
	}

	// ---- (a4) second input channel: local action metadata and local reusable workflow files
	c16Project(t, r, &idx, "")

	// ---- (a5) caret under the diagnosed token, end to end
	if r.Shard == 0 {
		c16Caret(r)
	}

	// ---- (b) snippet renderer
	alpha := []string{"a", " ", "\t", "\n", "é", "あ", "\r", "\u2028"}
	var gen func(prefix string, n int)
	gen = func(prefix string, n int) {
		idx++
		if r.Mine(idx) {
			for line := -1; line <= 4; line++ {
				for col := -1; col <= 7; col++ {
					c16Snippet(r, prefix, line, col)
				}
			}
		}
		if n == 0 {
			return
		}
		for _, a := range alpha {
			gen(prefix+a, n-1)
		}
	}
	gen("", maxLen)
	// sources of many lines: line numbers of 2, 3 and 4 digits (width of the gutter)
	if r.Shard == 0 {
		for _, n := range []int{12, 120, 1200} {
			var b strings.Builder
			for i := 1; i <= n; i++ {
				fmt.Fprintf(&b, "l%d: x\n", i)
			}
			src := b.String()
			for _, line := range []int{9, 10, 11, 12, 13, 99, 100, 101, 109, 110, 111, 120, 121, 999, 1000, 1001, 1099, 1100, 1200} {
				for _, col := range []int{1, 3, 6} {
					c16Snippet(r, src, line, col)
				}
			}
		}
	}
	// every kind of line break around the buffer boundaries of the line reader (4096, 8192): a break of
	// several bytes (CR LF, NEL, LS, PS) cut in two by the end of a buffered chunk is still ONE break
	if r.Shard == 0 {
		for _, brk := range []string{"\r\n", "\r", "\n", "\u0085", "\u2028", "\u2029"} {
			for _, at := range []int{4093, 4094, 4095, 4096, 4097, 8190, 8191, 8192} {
				for _, head := range []int{0, 1} { // the long stretch as ONE line, or as many short lines
					var src string
					if head == 0 {
						src = strings.Repeat("a", at) + brk
					} else {
						unit := "line" + brk
						for len(src)+len(unit) <= at {
							src += unit
						}
						src += strings.Repeat("b", at-len(src)) + brk
					}
					src += "second" + brk + "third" + brk + "fourth"
					n := len(c16Lines(src))
					for line := n - 3; line <= n; line++ {
						for _, col := range []int{1, 3} {
							c16Snippet(r, src, line, col)
						}
					}
				}
			}
		}
	}
	// long lines (buffer sizes of line readers: 4 KiB, 64 KiB): a snippet, when shown, is still the
	// referenced line
	if r.Shard == 0 {
		for _, n := range []int{4095, 4096, 4097, 8192, 9000, 65535, 65536, 70000} {
			for _, src := range []string{strings.Repeat("x", n) + "\nab\ncd\n", "ab\n" + strings.Repeat("y", n) + "\ncd", "ab\ncd\n" + strings.Repeat("z", n)} {
				for line := 1; line <= 3; line++ {
					for _, col := range []int{1, 2, n} {
						c16Snippet(r, src, line, col)
					}
				}
			}
		}
	}
}

// c16Fill is the text that stands in the caret line below s: a blank per terminal cell, tabs kept (a
// tab is as wide as the same tab in the line above, whatever the terminal makes of it).
func c16Fill(s string) (string, bool) {
	var b strings.Builder
	for _, c := range s {
		switch {
		case c == 0xFFFD:
			return "", false
		case c == '\t':
			b.WriteByte('\t')
		case c == 'あ':
			b.WriteString("  ")
		default:
			b.WriteByte(' ')
		}
	}
	return b.String(), true
}

// c16Lines splits a source into lines the way positions count them: the YAML parser, which
// assigns the line numbers, breaks lines at CRLF, LF, CR, NEL, LS and PS. A final break does not
// open a further line.
func c16Lines(src string) []string {
	var out []string
	start := 0
	rs := []rune(src)
	i := 0
	for i < len(rs) {
		n := 0
		switch rs[i] {
		case '\r':
			n = 1
			if i+1 < len(rs) && rs[i+1] == '\n' {
				n = 2
			}
		case '\n', 0x85, 0x2028, 0x2029:
			n = 1
		}
		if n > 0 {
			out = append(out, string(rs[start:i]))
			i += n
			start = i
			continue
		}
		i++
	}
	if start < len(rs) {
		out = append(out, string(rs[start:]))
	}
	return out
}

// c16Snippet checks PrettyPrint / GetTemplateFields on one (source, line, column) triple.
func c16Snippet(r *vReport, src string, line, col int) {
	e := &Error{Message: "m", Filepath: "f.yaml", Line: line, Column: col, Kind: "k"}
	replay := map[string]any{"snippet": map[string]any{"src": src, "line": line, "col": col}}
	var out bytes.Buffer
	var f *ErrorTemplateFields
	func() {
		defer func() {
			if p := recover(); p != nil {
				r.Violation("snippet-panic", fmt.Sprintf("rendering source %q at %d:%d panicked: %v", src, line, col, p), replay)
			}
		}()
		e.PrettyPrint(&out, []byte(src))
		f = e.GetTemplateFields([]byte(src))
	}()
	r.Evaluations++
	r.Transitions++
	r.Validated++
	if f == nil {
		return
	}
	lines := strings.Split(out.String(), "\n")
	if lines[0] != fmt.Sprintf("f.yaml:%d:%d: m [k]", line, col) {
		r.Violation("snippet-header", fmt.Sprintf("source %q at %d:%d: header is %q", src, line, col, lines[0]), replay)
	}
	// reference: the referenced line (lines as the YAML parser counts them), shown iff it exists and
	// the column is within it
	srcLines := c16Lines(src)
	shown := len(lines) > 2
	if line < 1 || line > len(srcLines) || src == "" {
		if shown {
			r.Violation("snippet-for-missing-line", fmt.Sprintf("source %q at %d:%d: a snippet is shown although line %d does not exist", src, line, col, line), replay)
		}
		r.Class("snippet:none", false)
		return
	}
	ref := srcLines[line-1]
	if !shown {
		r.Class("snippet:not-shown", true)
		return
	}
	// the three snippet lines share one gutter: as wide as the line number plus a blank
	gutter := strings.Repeat(" ", len(fmt.Sprint(line))+1)
	if len(lines) >= 4 && (lines[1] != gutter+"|" || !strings.HasPrefix(lines[3], gutter+"| ")) {
		r.Violation("snippet-gutter", fmt.Sprintf("source of %d lines at %d:%d: gutter lines %q / %q are not aligned with %q", len(srcLines), line, col, lines[1], lines[3], lines[2]), replay)
		return
	}
	if len(lines) < 4 || lines[2] != fmt.Sprintf("%d | %s", line, ref) {
		r.Violation("snippet-line", fmt.Sprintf("source %q at %d:%d: snippet line is %q, referenced line is %q", src, line, col, lines[2], ref), replay)
		return
	}
	if col >= 1 && col-1 <= len(ref) {
		if fill, ok := c16Fill(ref[:col-1]); ok {
			caret := lines[3]
			want := gutter + "| " + fill + "^"
			if !strings.HasPrefix(caret, want) {
				r.Violation("snippet-caret", fmt.Sprintf("source %q at %d:%d: caret line %q, expected the caret after %q", src, line, col, caret, fill), replay)
			}
			if strings.Split(f.Snippet, "\n")[0] != ref {
				r.Violation("snippet-template-field", fmt.Sprintf("source %q at %d:%d: Snippet field %q does not start with the referenced line %q", src, line, col, f.Snippet, ref), replay)
			}
		}
	}
	r.Class("snippet:shown", true)
}

// c16ProjFiles: a repository whose workflow uses a local action and a local reusable workflow; the
// payloads go into those two files (second input channel: their content is echoed by the
// diagnostics of the workflow that uses them, also through third-party YAML error texts).
var c16ProjFiles = map[string]string{
	".git/HEAD":                    "ref: refs/heads/main\n",
	"act/action.yml":               "name: act\ndescription: d\nauthor: me\ninputs:\n  tok:\n    description: t\n    required: true\n    default: x\noutputs:\n  o:\n    description: o\n    value: v\nruns:\n  using: composite\n  steps:\n    - run: echo\n      shell: bash\n",
	".github/workflows/callee.yml": "on:\n  workflow_call:\n    inputs:\n      cin:\n        type: string\n        required: true\n        default: d\n    secrets:\n      csec:\n        required: true\n    outputs:\n      cout:\n        description: d\n        value: v\njobs:\n  j:\n    runs-on: ubuntu-latest\n    steps:\n      - run: echo\n",
	".github/workflows/main.yml":   "on: push\njobs:\n  a:\n    runs-on: ubuntu-latest\n    steps:\n      - id: s\n        uses: ./act\n        with:\n          tok: x\n          nosuchinput: y\n      - run: echo ${{ steps.s.outputs.nosuchoutput }}\n  c:\n    uses: ./.github/workflows/callee.yml\n    with:\n      cin: x\n      nosuchcin: y\n    secrets:\n      csec: x\n      nosuchsecret: y\n  d:\n    needs: [c]\n    runs-on: ubuntu-latest\n    steps:\n      - run: echo ${{ needs.c.outputs.nosuchout }}\n",
}

// c16Project: every scalar and key of the two metadata files replaced by every payload, as a
// string and as a value of the wrong type (sequence, mapping), at one position and at every pair
// of positions (several type errors in one file); the workflow that uses them is rendered in all modes.
func c16Project(t *testing.T, r *vReport, idx *int64, only string) {
	root := vTempDir(t, "c16p-")
	vWriteFiles(t, root, c16ProjFiles)
	mainPath := filepath.Join(root, ".github/workflows/main.yml")
	mainSrc := c16ProjFiles[".github/workflows/main.yml"]
	for _, f := range []string{"act/action.yml", ".github/workflows/callee.yml"} {
		cat, err := vBuildCatalogue("c16proj:"+f, c16ProjFiles[f])
		if err != nil {
			r.HarnessError("%v", err)
			return
		}
		ps := append(append([]*vPos{}, cat.Scalars...), cat.Keys...)
		run := func(what, content string) {
			if only != "" && only != what {
				return
			}
			*idx++
			if only == "" && !r.Mine(*idx) {
				return
			}
			if err := os.WriteFile(filepath.Join(root, f), []byte(content), 0o644); err != nil {
				t.Fatal(err)
			}
			proj, err := NewProject(root)
			if err != nil {
				r.HarnessError("%v", err)
				return
			}
			r.Begin(func() string { return what })
			c16CheckRenderAt(r, what, mainPath, mainSrc, proj, map[string]any{"what": what, "src": content, "project_file": f})
		}
		for _, pl := range c16Payloads {
			forms := []string{`"` + pl.yaml + `"`, `["` + pl.yaml + `"]`, `{"` + pl.yaml + `": 1}`}
			for i, p := range ps {
				for fi, form := range forms {
					if p.IsKey && fi > 0 {
						continue
					}
					run(fmt.Sprintf("project %s position %s (key=%v) payload %s form %d", f, p.Path, p.IsKey, pl.name, fi), cat.Replace(p, form))
				}
				if p.IsKey {
					continue
				}
				// a second value of the wrong type further down in the same file
				for _, q := range ps[i+1:] {
					if q.IsKey || q.Line == p.Line {
						continue
					}
					two := cat.Replace(q, forms[1])
					lines := strings.Split(two, "\n")
					l := lines[p.Line-1]
					lines[p.Line-1] = l[:p.Col-1] + forms[1] + l[p.Col-1+p.Len:]
					run(fmt.Sprintf("project %s positions %s + %s payload %s", f, p.Path, q.Path, pl.name), strings.Join(lines, "\n"))
				}
			}
		}
		os.WriteFile(filepath.Join(root, f), []byte(c16ProjFiles[f]), 0o644)
	}
	// the caller's side: the payload inside the path of a local action / local reusable workflow
	// that does not exist (operating-system errors echo the path)
	for _, pl := range c16Payloads {
		for vi, v := range []struct{ old, new string }{
			{"uses: ./.github/workflows/callee.yml", `uses: "./.github/workflows/x` + pl.yaml + `y.yml"`},
			{"uses: ./act", `uses: "./act` + pl.yaml + `"`},
			{"uses: ./act", `uses: "./` + pl.yaml + `/../act"`},
		} {
			what := fmt.Sprintf("project caller uses-path variant %d payload %s", vi, pl.name)
			if only != "" && only != what {
				continue
			}
			*idx++
			if only == "" && !r.Mine(*idx) {
				continue
			}
			src := strings.Replace(mainSrc, v.old, v.new, 1)
			proj, err := NewProject(root)
			if err != nil {
				r.HarnessError("%v", err)
				return
			}
			r.Begin(func() string { return what })
			c16CheckRenderAt(r, what, mainPath, src, proj, map[string]any{"what": what, "src": src})
		}
	}
}

// c16CaretTemplates: a diagnosed token («») written after other text (§) on the same line.
var c16CaretTemplates = []struct{ name, line, tok string }{
	{"flow-step-unknown-key", "      - {name: §, «foo»: 1, run: echo}", "foo"},
	{"flow-step-shell-value", "      - {name: §, run: echo, shell: «nosuchshell»}", "nosuchshell"},
	{"flow-step-expression", "      - {name: §, run: 'echo ${{ «nosuchvar» }}'}", "nosuchvar"},
	{"flow-step-bad-id", "      - {name: §, run: echo, id: «1bad»}", "1bad"},
	{"plain-then-expression", "      - run: echo § ${{ «nosuchvar» }}", "nosuchvar"},
	{"plain-then-second-placeholder", "      - run: echo ${{ github.sha }} § ${{ «nosuchvar» }}", "nosuchvar"},
}

// c16Caret: end to end, the caret of the snippet stands under the diagnosed token, whatever is
// written before it on the line (ASCII, two-byte, double-width text).
func c16Caret(r *vReport) {
	for _, tp := range c16CaretTemplates {
		for _, pl := range []struct{ name, text string }{{"ascii", "aaaaa"}, {"latin", "ééééé"}, {"wide", "あああ"}, {"mixed", "aéあ"}, {"tabs", "a\t\tb"}} {
			line := strings.ReplaceAll(tp.line, "§", pl.text)
			k := strings.Index(line, "«")
			prefix := line[:k]
			line = strings.NewReplacer("«", "", "»", "").Replace(line)
			src := "on: push\njobs:\n  a:\n    runs-on: ubuntu-latest\n    steps:\n" + line + "\n"
			what := fmt.Sprintf("caret template %s payload %s", tp.name, pl.name)
			replay := map[string]any{"src": src, "what": what}
			var out bytes.Buffer
			l, err := NewLinter(&out, &LinterOptions{WorkingDir: "/", Color: ColorOptionKindNever})
			if err != nil {
				r.HarnessError("%v", err)
				return
			}
			errs, err := l.Lint("test.yaml", []byte(src), nil)
			r.Evaluations++
			r.Transitions++
			r.Validated++
			if err != nil {
				r.Violation("render-error:caret", fmt.Sprintf("%s: %v", what, err), replay)
				continue
			}
			var hit *Error
			for _, e := range errs {
				if e.Line == 6 && strings.Contains(e.Message, tp.tok) {
					hit = e
				}
			}
			if hit == nil {
				r.HarnessError("%s: no diagnostic about %q on line 6: %v", what, tp.tok, vDiagStrings(errs))
				continue
			}
			lines := strings.Split(out.String(), "\n")
			fill, _ := c16Fill(prefix)
			w := len(fill)
			found := false
			for i, ol := range lines {
				if strings.HasPrefix(ol, fmt.Sprintf("test.yaml:%d:%d: ", hit.Line, hit.Column)) && strings.Contains(ol, tp.tok) && i+3 < len(lines) {
					found = true
					caret := lines[i+3]
					got := strings.Index(caret, "^") - len("  | ")
					if !strings.HasPrefix(caret, "  | ") || got != w || caret[len("  | "):len("  | ")+got] != fill {
						key := fmt.Sprintf("snippet-caret-displaced:%s:after-%s-text:%+d", tp.name, pl.name, got-w)
						if len(prefix) != utf8.RuneCountInString(prefix) && hit.Column == 1+utf8.RuneCountInString(prefix) && got < w {
							// one cause: the reported column counts characters (as the YAML parser does),
							// the caret is placed by bytes
							key = "snippet-caret-displaced:column-in-characters-caret-by-bytes"
						}
						r.Violation(key, fmt.Sprintf("%s: the caret stands %d cells after the margin, the token %q starts after %d cells\n%s\n%s\n%s", what, got, tp.tok, w, ol, lines[i+2], caret), replay)
					}
				}
			}
			if !found {
				r.Violation("snippet-missing:caret", fmt.Sprintf("%s: no snippet for the diagnostic about %q", what, tp.tok), replay)
			}
			r.Class("caret:"+tp.name, true)
		}
	}
}

// c16MultiFile lints every ordering of three workflow files (names chosen so that argument order,
// byte order and case-folded order all differ) with LintFiles in -oneline and {{json .}} mode and
// compares the printed sequence with the returned one.
// c16ExtraOpts, when set, adjusts the options of every Linter made by c16CheckRenderAt.
var c16ExtraOpts func(*LinterOptions)

// c16Tools: a third source of message text - what shellcheck / pyflakes print. Scripted tools answer
// with issue texts that hold line breaks of every kind, brackets and escape characters; the
// diagnostics built from them are rendered in all modes like any other.
func c16Tools(r *vReport) {
	src := "on: push\njobs:\n  a:\n    runs-on: ubuntu-latest\n    steps:\n      - run: echo $FOO\n      - run: print(x)\n        shell: python\n"
	texts := []string{"first\nsecond", "first\r\nsecond", "first\rsecond", "a\u2028b", "a\u2029b", "x [y] z", "tab\there", "esc\x1bX", "trailing\n", "é あ"} // (a text that ENDS in a colour sequence cannot be told from colouring by the matcher: not claimed)
	vexec.LookPathFn = func(file string) (string, error) { return "/fake/" + file, nil }
	c16ExtraOpts = func(o *LinterOptions) { o.Shellcheck, o.Pyflakes = "shellcheck", "pyflakes" }
	defer func() { vexec.LookPathFn, vexec.Handler, c16ExtraOpts = nil, nil, nil }()
	for _, tx := range texts {
		tx := tx
		vexec.Handler = func(name string, args []string) vexec.Outcome {
			if filepath.Base(name) == "shellcheck" {
				b, _ := json.Marshal([]map[string]any{{"file": "-", "line": 2, "endLine": 2, "column": 6, "endColumn": 10, "level": "info", "code": 2086, "message": tx + "."}})
				return vexec.Outcome{ExitCode: 1, Stdout: b}
			}
			// pyflakes prints one issue per line: a line break inside its text cannot be told from the
			// end of the issue; the other characters are taken over
			one := strings.NewReplacer("\n", " ", "\r", " ").Replace(tx)
			return vexec.Outcome{ExitCode: 1, Stdout: []byte("<stdin>:1:7: " + one + "\n")}
		}
		c16CheckRender(r, fmt.Sprintf("tools answering %q", tx), src)
	}
}

func c16MultiFile(t *testing.T, r *vReport) {
	dir := vTempDir(t, "c16-")
	files := map[string]string{
		"b.yaml": "on: push\njobs:\n  a:\n    runs-on: ubuntu-latest\n    steps:\n      - run: echo ${{ nosuch1 }}\n      - run: echo\n        shell: nosuchshell\n",
		"a.yaml": "on: push\njobs:\n  a:\n    runs-on: nosuchlabel\n    steps:\n      - run: echo ${{ nosuch2 }}\n",
		"B.yaml": "on: push\njobs:\n  a:\n    runs-on: ubuntu-latest\n    steps:\n      - run: echo ${{ nosuch3 }}\n",
	}
	vWriteFiles(t, dir, files)
	names := []string{"b.yaml", "a.yaml", "B.yaml"}
	var orders [][]string
	for _, p := range c18PermsCopy(names) {
		orders = append(orders, p, p[:2])
	}
	for _, ord := range orders {
		for _, mode := range []string{"oneline", "json"} {
			var out bytes.Buffer
			opts := LinterOptions{Color: ColorOptionKindNever, WorkingDir: dir}
			if mode == "oneline" {
				opts.Oneline = true
			} else {
				opts.Format = "{{json .}}"
			}
			l, err := NewLinter(&out, &opts)
			if err != nil {
				r.HarnessError("NewLinter: %v", err)
				return
			}
			var paths []string
			for _, n := range ord {
				paths = append(paths, filepath.Join(dir, n))
			}
			errs, lerr := l.LintFiles(paths, nil)
			color.NoColor = true
			r.Evaluations++
			r.Transitions++
			r.Validated++
			what := fmt.Sprintf("LintFiles%v mode %s", ord, mode)
			replay := map[string]any{"src": "", "what": what}
			if lerr != nil || len(errs) == 0 {
				r.HarnessError("%s: err=%v, %d diagnostics", what, lerr, len(errs))
				continue
			}
			var printed []string
			if mode == "oneline" {
				for _, line := range strings.Split(strings.TrimSuffix(out.String(), "\n"), "\n") {
					if m := c16Matcher.FindStringSubmatch(line); m != nil {
						printed = append(printed, fmt.Sprintf("%s:%s:%s:%s", m[1], m[2], m[3], m[4]))
					} else {
						printed = append(printed, "UNPARSED "+line)
					}
				}
			} else {
				var fields []ErrorTemplateFields
				if err := json.Unmarshal(out.Bytes(), &fields); err != nil {
					r.Violation("multi-file-json-invalid", fmt.Sprintf("%s: %v", what, err), replay)
					continue
				}
				for _, f := range fields {
					printed = append(printed, fmt.Sprintf("%s:%d:%d:%s", f.Filepath, f.Line, f.Column, f.Message))
				}
			}
			var returned []string
			for _, e := range errs {
				returned = append(returned, fmt.Sprintf("%s:%d:%d:%s", e.Filepath, e.Line, e.Column, e.Message))
			}
			if strings.Join(printed, "\n") != strings.Join(returned, "\n") {
				r.Violation("multi-file-printed-vs-returned:"+mode, fmt.Sprintf("%s: the printed diagnostics are not the returned ones in the returned order\n printed:  %v\n returned: %v", what, c16Heads(printed), c16Heads(returned)), replay)
			}
			r.Class("multi-file "+mode, true)
		}
	}
}

func c16Heads(xs []string) []string {
	out := make([]string, len(xs))
	for i, x := range xs {
		out[i] = vTrunc(x, 40)
	}
	return out
}

func c18PermsCopy(xs []string) [][]string {
	if len(xs) <= 1 {
		return [][]string{append([]string{}, xs...)}
	}
	var out [][]string
	for i := range xs {
		rest := append(append([]string{}, xs[:i]...), xs[i+1:]...)
		for _, p := range c18PermsCopy(rest) {
			out = append(out, append([]string{xs[i]}, p...))
		}
	}
	return out
}
