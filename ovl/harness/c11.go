//go:build go1.23

package actionlint

// C11 — script-injection detection is complete and precise.
//
// Space: the documented untrusted paths (appendix D), their proper prefixes, one trusted sibling per
// segment, one-segment extensions; every spelling of every segment (.name, .NAME, ['name'],
// ['Name'], and for * segments .*, [0], [matrix.i]); a named segment replaced by an object filter;
// 20 embeddings in larger expressions; script and non-script positions. Oracle: a stateless
// reference matcher on segment lists.

import (
	"fmt"
	"regexp"
	"sort"
	"strings"
	"testing"
)

var c11Leaves = [][]string{
	{"event", "issue", "title"}, {"event", "issue", "body"},
	{"event", "pull_request", "title"}, {"event", "pull_request", "body"},
	{"event", "pull_request", "head", "ref"}, {"event", "pull_request", "head", "label"},
	{"event", "pull_request", "head", "repo", "default_branch"},
	{"event", "comment", "body"}, {"event", "review", "body"}, {"event", "review_comment", "body"},
	{"event", "pages", "*", "page_name"},
	{"event", "commits", "*", "message"}, {"event", "commits", "*", "author", "email"}, {"event", "commits", "*", "author", "name"},
	{"event", "head_commit", "message"}, {"event", "head_commit", "author", "email"}, {"event", "head_commit", "author", "name"},
	{"event", "discussion", "title"}, {"event", "discussion", "body"},
	{"head_ref"},
}

// accessor kinds of a generated chain
type c11Acc struct {
	kind byte   // 'p' .name, 'i' ['name'], 'n' [non-string index], 's' .*
	name string // as written
}

type c11Chain struct {
	root string
	accs []c11Acc
}

func (c *c11Chain) text() string {
	var b strings.Builder
	b.WriteString(c.root)
	for _, a := range c.accs {
		switch a.kind {
		case 'p':
			b.WriteString("." + a.name)
		case 'i':
			b.WriteString("['" + a.name + "']")
		case 'n':
			b.WriteString("[" + a.name + "]")
		case 's':
			b.WriteString(".*")
		}
	}
	return b.String()
}

// c11Match is the reference: the set of documented leaf paths the chain reads.
func c11Match(c *c11Chain) []string {
	if strings.ToLower(c.root) != "github" {
		return nil
	}
	type cand struct {
		path []string
		pos  int
	}
	var cands []cand
	for _, l := range c11Leaves {
		cands = append(cands, cand{l, 0})
	}
	for _, a := range c.accs {
		var next []cand
		for _, cd := range cands {
			if cd.pos >= len(cd.path) {
				continue // reading below a leaf is not a documented path
			}
			seg := cd.path[cd.pos]
			switch a.kind {
			case 'p', 'i':
				if seg != "*" && seg == strings.ToLower(a.name) {
					next = append(next, cand{cd.path, cd.pos + 1})
				}
			case 'n':
				if seg == "*" {
					next = append(next, cand{cd.path, cd.pos + 1})
				}
			case 's':
				// array filter over a * segment, or object filter over any named member
				next = append(next, cand{cd.path, cd.pos + 1})
			}
		}
		cands = next
	}
	set := map[string]bool{}
	for _, cd := range cands {
		if cd.pos == len(cd.path) {
			set["github."+strings.Join(cd.path, ".")] = true
		}
	}
	out := make([]string, 0, len(set))
	for k := range set {
		out = append(out, k)
	}
	sort.Strings(out)
	return out
}

var c11OneRe = regexp.MustCompile(`^"([^"]+)" is potentially untrusted`)
var c11ManyRe = regexp.MustCompile(`^object filter extracts potentially untrusted properties (.*?)\. avoid`)

// c11Reported extracts the sets of paths named by untrusted-input diagnostics, one entry per diagnostic.
func c11Reported(msgs []string) [][]string {
	var out [][]string
	for _, m := range msgs {
		if mm := c11OneRe.FindStringSubmatch(m); mm != nil {
			out = append(out, []string{mm[1]})
		} else if mm := c11ManyRe.FindStringSubmatch(m); mm != nil {
			var ps []string
			for _, q := range strings.Split(mm[1], ", ") {
				ps = append(ps, strings.Trim(q, `"`))
			}
			sort.Strings(ps)
			out = append(out, ps)
		}
	}
	return out
}

func c11CheckExpr(r *vReport, expr string, want [][]string, class string) {
	p := NewExprParser()
	tree, perr := p.Parse(NewExprLexer(expr + "}}"))
	r.Evaluations++
	r.Transitions++
	r.Validated++
	replay := map[string]any{"expr": expr, "want": want}
	if perr != nil {
		r.HarnessError("C11 generated an expression that does not parse: %q: %v", expr, perr)
		return
	}
	c := NewExprSemanticsChecker(true, nil)
	_, errs := c.Check(tree)
	var msgs []string
	for _, e := range errs {
		msgs = append(msgs, e.Message)
	}
	c11Compare(r, expr, c11Reported(msgs), want, class, replay)
}

func c11Key(sets [][]string) string {
	ss := make([]string, len(sets))
	for i, s := range sets {
		ss[i] = strings.Join(s, "+")
	}
	sort.Strings(ss)
	return strings.Join(ss, " | ")
}

func c11Compare(r *vReport, expr string, got, want [][]string, class string, replay map[string]any) {
	var w [][]string
	for _, s := range want {
		if len(s) > 0 {
			w = append(w, s)
		}
	}
	if c11Key(got) != c11Key(w) {
		kind := "wrong-paths"
		switch {
		case len(got) < len(w):
			kind = "missed"
		case len(got) > len(w):
			kind = "false-report"
		}
		r.Violation(kind+":"+class, fmt.Sprintf("expression %q: reference says it reads [%s], actionlint reports [%s]", expr, c11Key(w), c11Key(got)), replay)
	}
	r.Class(fmt.Sprintf("%s reported=%d", class, len(w)), len(w) > 0)
}

// c11Spellings enumerates every spelling of a path's segments.
func c11Spellings(path []string, yield func(*c11Chain)) {
	var rec func(i int, accs []c11Acc)
	rec = func(i int, accs []c11Acc) {
		if i == len(path) {
			yield(&c11Chain{root: "github", accs: append([]c11Acc{}, accs...)})
			return
		}
		seg := path[i]
		if seg == "*" {
			// ['*'] is a string index: it names a property called "*", which no array has
			for _, a := range []c11Acc{{'s', ""}, {'n', "0"}, {'n', "matrix.i"}, {'i', "*"}} {
				rec(i+1, append(accs, a))
			}
			return
		}
		cap := strings.ToUpper(seg[:1]) + seg[1:]
		for _, a := range []c11Acc{{'p', seg}, {'p', strings.ToUpper(seg)}, {'i', seg}, {'i', cap}} {
			rec(i+1, append(accs, a))
		}
	}
	rec(0, nil)
}

func c11Canonical(path []string, adversarial bool) *c11Chain {
	c := &c11Chain{root: "github"}
	if adversarial {
		c.root = "GitHub"
	}
	for i, seg := range path {
		switch {
		case seg == "*" && adversarial:
			c.accs = append(c.accs, c11Acc{'n', "matrix.i"})
		case seg == "*":
			c.accs = append(c.accs, c11Acc{'s', ""})
		case adversarial && i%2 == 1:
			c.accs = append(c.accs, c11Acc{'i', strings.ToUpper(seg)})
		case adversarial:
			c.accs = append(c.accs, c11Acc{'p', strings.ToUpper(seg[:1]) + seg[1:]})
		default:
			c.accs = append(c.accs, c11Acc{'p', seg})
		}
	}
	return c
}

type c11Embedding struct {
	name string
	n    int // number of chains used
	tmpl func(e []string) string
	// which chains are read outside a sanitising call
	live []bool
}

var c11Embeddings = []c11Embedding{
	{"bare", 1, func(e []string) string { return e[0] }, []bool{true}},
	{"not", 1, func(e []string) string { return "!" + e[0] }, []bool{true}},
	{"eq-left", 1, func(e []string) string { return e[0] + " == 'x'" }, []bool{true}},
	{"eq-right", 1, func(e []string) string { return "'x' != " + e[0] }, []bool{true}},
	{"and", 1, func(e []string) string { return e[0] + " && true" }, []bool{true}},
	{"or", 1, func(e []string) string { return "false || " + e[0] }, []bool{true}},
	{"paren", 1, func(e []string) string { return "(" + e[0] + ")" }, []bool{true}},
	// operands whose type is narrowed away (condition of the a && b || c idiom and its relatives)
	{"ternary-condition", 1, func(e []string) string { return e[0] + " && 'a' || 'b'" }, []bool{true}},
	{"ternary-condition-eq", 1, func(e []string) string { return e[0] + " == 'x' && 'a' || 'b'" }, []bool{true}},
	{"or-then-and", 1, func(e []string) string { return "(" + e[0] + " || 'a') && 'b'" }, []bool{true}},
	{"not-and-and", 1, func(e []string) string { return "!(" + e[0] + " && true) && 'y'" }, []bool{true}},
	{"ternary-both", 2, func(e []string) string { return e[0] + " && " + e[1] + " || 'b'" }, []bool{true, true}},
	{"ternary-in-format", 1, func(e []string) string { return "format('{0}', " + e[0] + " && 'a' || 'b')" }, []bool{true}},
	{"format-arg", 1, func(e []string) string { return "format('{0} {1}', 'a', " + e[0] + ")" }, []bool{true}},
	{"toJSON", 1, func(e []string) string { return "toJSON(" + e[0] + ")" }, []bool{true}},
	// calls the checker cannot resolve: a function that does not exist, a call with too many arguments
	{"undefined-function-arg", 1, func(e []string) string { return "nosuchfn('a', " + e[0] + ")" }, []bool{true}},
	{"wrong-arity-arg", 1, func(e []string) string { return "toJSON('a', " + e[0] + ")" }, []bool{true}},
	{"safe-in-undefined", 1, func(e []string) string { return "nosuchfn(contains(" + e[0] + ", 'x'))" }, []bool{false}},
	{"fromJSON-nested", 1, func(e []string) string { return "fromJSON(toJSON(" + e[0] + ")).x" }, []bool{true}},
	{"as-index", 1, func(e []string) string { return "env[" + e[0] + "]" }, []bool{true}},
	{"as-index-of-event", 1, func(e []string) string { return "github.event.commits[" + e[0] + "]" }, []bool{true}},
	{"indexed-after", 1, func(e []string) string { return "matrix.x[0] == " + e[0] }, []bool{true}},
	{"two-chains", 2, func(e []string) string { return e[0] + " == " + e[1] }, []bool{true, true}},
	{"three-chains", 3, func(e []string) string { return "format('{0}{1}{2}', " + e[0] + ", " + e[1] + ", " + e[2] + ")" }, []bool{true, true, true}},
	{"contains", 1, func(e []string) string { return "contains(" + e[0] + ", 'x')" }, []bool{false}},
	{"startsWith", 1, func(e []string) string { return "StartsWith(" + e[0] + ", 'x')" }, []bool{false}},
	{"endsWith-2nd", 1, func(e []string) string { return "endsWith('x', " + e[0] + ")" }, []bool{false}},
	{"unsafe-in-safe", 1, func(e []string) string { return "contains(toJSON(" + e[0] + "), 'x')" }, []bool{false}},
	{"safe-in-unsafe", 1, func(e []string) string { return "format('{0}', contains(" + e[0] + ", 'x'))" }, []bool{false}},
	{"safe-then-live", 2, func(e []string) string { return "format('{0}{1}', contains(" + e[0] + ", 'x'), " + e[1] + ")" }, []bool{false, true}},
	{"live-then-safe", 2, func(e []string) string { return "format('{0}{1}', " + e[0] + ", endsWith(" + e[1] + ", 'x'))" }, []bool{true, false}},
	{"safe-and-live", 2, func(e []string) string { return "contains(" + e[0] + ", 'x') && " + e[1] }, []bool{false, true}},
}

func TestVerifC11(t *testing.T) {
	r := vNewReport("C11")
	defer r.Write(t)
	r.Extra["rule"] = "20 documented untrusted paths: full spelling product of every segment in the bare embedding; proper prefixes, trusted siblings per segment, one-segment extensions, object filter in place of each named segment; array filter followed by an index at every later place of the chain; object filter followed by an element-picking index and a second index for the array segment; every path continued on the result of a parenthesised || / && (4 templates x every split point); the tail of every path written on the result of a sanitising call next to its head (4 templates x every split point); canonical + adversarial spelling (thorough: every spelling) of every path in 26 embeddings (operators, calls of undefined functions and calls with too many arguments, parentheses, call arguments, index positions, 2 and 3 chains, sanitising calls nested both ways), pairs of different paths in the multi-chain embeddings; every path (3 spellings) next to 10 partner chains that leave the matcher in different states, both orders, 3 templates; script positions (run:, github-script script:; also scripts whose own text holds {{ }} before the placeholder) and non-script positions (env:, other with: input, if:, name:; 14 positions that hold exactly one expression - booleans, numbers, whole sections, runner labels - in plain, single- and double-quoted style) through Linter.Lint. oracle = stateless reference matcher on segment lists. class = (family, number of reports expected); non-trivial = something must be reported"
	r.Extra["assumptions"] = []string{"a chain is a variable followed by accessors; chains interrupted by operators are not claimed (DESIGN section 7)", "a non-string index anywhere after an object filter (it selects an element of the filtered array) is not generated"}
	if raw := vReplayInput(); raw != nil {
		var rp struct {
			Expr string     `json:"expr"`
			Want [][]string `json:"want"`
			Src  string     `json:"src"`
		}
		jsonUnmarshal(raw, &rp)
		for k := 0; k < 2; k++ {
			if rp.Src != "" {
				res := vLint(rp.Src, nil)
				fmt.Printf("replay %d:\n%s\n%v\n", k, rp.Src, vDiagStrings(res.Errs))
				var msgs []string
				for _, e := range res.Errs {
					msgs = append(msgs, e.Message)
				}
				c11Compare(r, rp.Src, c11Reported(msgs), rp.Want, "replay", map[string]any{"src": rp.Src, "want": rp.Want})
			} else {
				c11CheckExpr(r, rp.Expr, rp.Want, "replay")
			}
		}
		return
	}
	var idx int64
	mine := func() bool { idx++; return r.Mine(idx) }
	// (1) full spelling product, bare
	for _, leaf := range c11Leaves {
		c11Spellings(leaf, func(c *c11Chain) {
			if !mine() {
				return
			}
			c11CheckExpr(r, c.text(), [][]string{c11Match(c)}, "spelling")
			if idx%997 == 0 {
				r.Sample(map[string]any{"expression": c.text(), "reference_paths": c11Match(c)})
			}
		})
	}
	// (2) prefixes, siblings, extensions, object filters (canonical and adversarial spellings)
	for _, leaf := range c11Leaves {
		for _, adv := range []bool{false, true} {
			for n := 0; n < len(leaf); n++ {
				if mine() {
					c := c11Canonical(leaf[:n], adv)
					c11CheckExpr(r, c.text(), [][]string{c11Match(c)}, "prefix")
				}
			}
			for i := range leaf {
				sib := append([]string{}, leaf...)
				sib[i] = "trusted_sibling"
				if leaf[i] == "*" {
					continue
				}
				if mine() {
					c := c11Canonical(sib, adv)
					c11CheckExpr(r, c.text(), [][]string{c11Match(c)}, "sibling")
				}
				// object filter in place of this named segment
				flt := c11Canonical(leaf, adv)
				flt.accs[i] = c11Acc{'s', ""}
				laterIndex := false
				for _, a := range flt.accs[i+1:] {
					if a.kind == 'n' {
						laterIndex = true
					}
				}
				if laterIndex {
					// the first index after an object filter selects an element of the filtered
					// array (github.event.*.body[0]); how it interacts with * segments of the
					// documented paths is not claimed
					continue
				}
				if mine() {
					c11CheckExpr(r, flt.text(), [][]string{c11Match(flt)}, "object-filter")
				}
			}
			if mine() {
				ext := c11Canonical(append(append([]string{}, leaf...), "extra"), adv)
				c11CheckExpr(r, ext.text(), [][]string{c11Match(ext)}, "extension")
			}
		}
	}
	// (3) embeddings
	other := c11Canonical(c11Leaves[len(c11Leaves)-1], false) // github.head_ref
	trusted := &c11Chain{root: "github", accs: []c11Acc{{'p', "sha"}}}
	for _, leaf := range c11Leaves {
		for _, adv := range []bool{false, true} {
			e0 := c11Canonical(leaf, adv)
			for _, em := range c11Embeddings {
				var combos [][]*c11Chain
				switch em.n {
				case 1:
					combos = [][]*c11Chain{{e0}}
				case 2:
					combos = [][]*c11Chain{{e0, other}, {other, e0}, {e0, trusted}, {trusted, e0}, {e0, e0}}
				case 3:
					combos = [][]*c11Chain{{e0, other, trusted}, {trusted, e0, other}, {other, trusted, e0}}
				}
				for _, combo := range combos {
					if !mine() {
						continue
					}
					texts := make([]string, len(combo))
					var want [][]string
					for i, c := range combo {
						texts[i] = c.text()
						if em.live[i] {
							want = append(want, c11Match(c))
						}
					}
					c11CheckExpr(r, em.tmpl(texts), want, "embed:"+em.name)
				}
			}
		}
	}
	// (3t) thorough: the full spelling product of every path in every single-chain embedding
	if vThorough() {
		for _, leaf := range c11Leaves {
			c11Spellings(leaf, func(c *c11Chain) {
				for _, em := range c11Embeddings {
					if em.n != 1 || !mine() {
						continue
					}
					var want [][]string
					if em.live[0] {
						want = append(want, c11Match(c))
					}
					c11CheckExpr(r, em.tmpl([]string{c.text()}), want, "embed-all-spellings:"+em.name)
				}
			})
		}
	}
	// (2b) array filter followed by an index somewhere later in the same chain: commits.*.message[0]
	// is the first commit's message (the index picks an element of the filtered array), i.e. the
	// same documented path as commits[0].message
	for _, leaf := range c11Leaves {
		star := -1
		for i, sgm := range leaf {
			if sgm == "*" {
				star = i
			}
		}
		if star < 0 {
			continue
		}
		for _, adv := range []bool{false, true} {
			for at := star + 1; at <= len(leaf); at++ {
				for _, ix := range []string{"0", "matrix.i"} {
					if !mine() {
						continue
					}
					base := c11Canonical(leaf, false)
					if adv {
						base = c11Canonical(leaf, true)
						base.accs[star] = c11Acc{'s', ""} // keep the filter (the adversarial form turns * into an index)
					}
					c := &c11Chain{root: base.root}
					c.accs = append(c.accs, base.accs[:at]...)
					c.accs = append(c.accs, c11Acc{'n', ix})
					c.accs = append(c.accs, base.accs[at:]...)
					want := []string{"github." + strings.Join(leaf, ".")}
					c11CheckExpr(r, c.text(), [][]string{want}, "array-filter-then-index")
				}
			}
		}
	}
	// (2d) object filter in place of a named segment before an array segment, an index that picks one
	// element of the filtered array at any place up to the array, and the array segment itself read
	// through a second index: github.*.commits[0][0].message reads the same paths as
	// github.*.commits.*.message
	for _, leaf := range c11Leaves {
		star := -1
		for i, sgm := range leaf {
			if sgm == "*" {
				star = i
			}
		}
		for k := 0; k < star; k++ {
			for at := k + 1; at <= star; at++ {
				for _, ix := range [][2]string{{"0", "0"}, {"matrix.i", "1"}, {"0", "github.run_id"}} {
					if !mine() {
						continue
					}
					base := c11Canonical(leaf, false)
					base.accs[k] = c11Acc{'s', ""}
					base.accs[star] = c11Acc{'n', ix[1]}
					want := c11Match(base)
					c := &c11Chain{root: base.root}
					c.accs = append(c.accs, base.accs[:at]...)
					c.accs = append(c.accs, c11Acc{'n', ix[0]})
					c.accs = append(c.accs, base.accs[at:]...)
					c11CheckExpr(r, c.text(), [][]string{want}, "object-filter-then-two-indices")
				}
			}
		}
	}
	// (2c) a chain continued on the result of a parenthesised logical operator: the value read is
	// still the documented path ((github.event.issue || x).title reads github.event.issue.title)
	for _, leaf := range c11Leaves {
		for k := 1; k < len(leaf); k++ {
			if !mine() {
				continue
			}
			head := c11Canonical(leaf[:k], false)
			full := c11Canonical(leaf, false)
			rest := strings.TrimPrefix(full.text(), head.text())
			want := [][]string{c11Match(full)}
			for _, tmpl := range []string{"(%s || fromJSON(env.X))%s", "(fromJSON(env.X) || %s)%s", "(true && %s)%s", "(%s || github.event.sender)%s"} {
				c11CheckExpr(r, fmt.Sprintf(tmpl, head.text(), rest), want, "postfix-on-logical-result")
			}
		}
	}
	// (2e) the tail of a path written on the result of a sanitising call, the head of the path being
	// a sibling operand: github.event == contains('a', 'b').issue.title reads no documented path
	// (the whole path as the sibling operand is read, of course)
	for _, leaf := range c11Leaves {
		full := c11Canonical(leaf, false)
		for k := 0; k <= len(leaf); k++ {
			if !mine() {
				continue
			}
			head := &c11Chain{root: full.root, accs: full.accs[:k]}
			rest := strings.TrimPrefix(full.text(), head.text())
			var want [][]string
			if k == len(leaf) {
				want = [][]string{c11Match(full)}
			}
			for _, tmpl := range []string{"%s == contains('a', 'b')%s", "%s && startsWith('a', github.event.sender.login)%s", "format('{0}{1}', %s, endsWith(github.head_ref, 'b')%s)", "%s || contains(contains('a', 'b'), 'c')%s"} {
				c11CheckExpr(r, fmt.Sprintf(tmpl, head.text(), rest), want, "tail-on-sanitising-call-result")
			}
		}
	}
	// (3b) stateful-matcher stress: every path (three spellings of its * segments) next to partner
	// chains that leave the matcher in different states (unmatched array filter, unmatched object
	// filter, filter on another context, prefix, numeric index, trusted leaf), in both orders
	partners := []*c11Chain{
		other, trusted,
		{root: "github", accs: []c11Acc{{'p', "event"}, {'p', "commits"}, {'s', ""}, {'p', "id"}}},
		{root: "github", accs: []c11Acc{{'p', "event"}, {'s', ""}, {'p', "id"}}},
		{root: "github", accs: []c11Acc{{'p', "event"}, {'p', "pages"}, {'s', ""}}},
		{root: "matrix", accs: []c11Acc{{'s', ""}}},
		{root: "github", accs: []c11Acc{{'p', "event"}, {'p', "commits"}, {'n', "0"}, {'p', "id"}}},
		{root: "github", accs: []c11Acc{{'p', "event"}, {'p', "pull_request"}, {'p', "head"}}},
		{root: "env", accs: []c11Acc{{'p', "foo"}}},
		{root: "github", accs: []c11Acc{{'p', "event"}, {'p', "commits"}, {'s', ""}, {'p', "message"}}},
	}
	for _, leaf := range c11Leaves {
		for mode := 0; mode < 3; mode++ {
			e0 := c11Canonical(leaf, mode == 1)
			if mode == 2 {
				e0 = c11Canonical(leaf, false)
				for i := range e0.accs {
					if e0.accs[i].kind == 's' {
						e0.accs[i] = c11Acc{'n', "0"}
					}
				}
			}
			for _, pt := range partners {
				for _, tmpl := range []func(a, b string) string{
					func(a, b string) string { return a + " == " + b },
					func(a, b string) string { return "format('{0} {1}', " + a + ", " + b + ")" },
					func(a, b string) string { return "toJSON(" + a + ") && " + b },
				} {
					for order := 0; order < 2; order++ {
						if !mine() {
							continue
						}
						a, b := pt, e0
						if order == 1 {
							a, b = e0, pt
						}
						c11CheckExpr(r, tmpl(a.text(), b.text()), [][]string{c11Match(a), c11Match(b)}, "partner")
					}
				}
			}
		}
	}
	// (4) pairs of different untrusted paths in the two-chain embedding
	for i, a := range c11Leaves {
		for j, b := range c11Leaves {
			if i == j || !mine() {
				continue
			}
			ca, cb := c11Canonical(a, false), c11Canonical(b, true)
			c11CheckExpr(r, ca.text()+" == "+cb.text(), [][]string{c11Match(ca), c11Match(cb)}, "pair")
		}
	}
	// (5) positions through the whole Linter
	for _, leaf := range c11Leaves {
		for _, adv := range []bool{false, true} {
			if !mine() {
				continue
			}
			c := c11Canonical(leaf, adv)
			e := "${{ " + c.text() + " }}"
			q := func(s string) string { return "'" + strings.ReplaceAll(s, "'", "''") + "'" }
			type pos struct {
				name   string
				src    string
				script bool
			}
			head := "on: pull_request\njobs:\n  a:\n    runs-on: ubuntu-latest\n    strategy:\n      matrix:\n        i: [0]\n    steps:\n"
			ps := []pos{
				{"run", head + "      - run: " + q("echo "+e) + "\n", true},
				{"run-twice", head + "      - run: " + q("echo "+e+" and "+e) + "\n", true},
				{"run-after-semantic-error", head + "      - run: " + q("echo ${{ github.nosuchprop }} "+e) + "\n", true},
				{"run-before-semantic-error", head + "      - run: " + q("echo "+e+" ${{ github.nosuchprop }}") + "\n", true},
				{"github-script", head + "      - uses: actions/github-script@v7\n        with:\n          script: " + q("console.log("+e+")") + "\n", true},
				{"github-script-key-capitalised", head + "      - uses: actions/github-script@v7\n        with:\n          Script: " + q("console.log("+e+")") + "\n", true},
				{"github-script-key-upper-other-ref", head + "      - uses: actions/github-script@main\n        with:\n          github-token: t\n          SCRIPT: " + q("console.log("+e+")") + "\n", true},
				{"github-script-multiline", head + "      - uses: actions/github-script@v7\n        with:\n          script: |\n            console.log(1)\n            console.log(" + e + ")\n", true},
				{"run-multiline", head + "      - run: |\n          echo 1\n          echo " + e + "\n", true},
				// scripts whose own text holds braces (Go templates, object literals, shell expansions)
				// before / around the placeholder
				{"run-after-go-template", head + "      - run: " + q("docker inspect --format '{{.State.Running}}' c; echo "+e) + "\n", true},
				{"run-between-braces", head + "      - run: " + q("x={{a}} "+e+" y={{b}}") + "\n", true},
				{"run-after-shell-braces", head + "      - run: " + q("echo ${HOME}}} }} "+e) + "\n", true},
				{"github-script-after-object-literal", head + "      - uses: actions/github-script@v7\n        with:\n          script: " + q("const o = {retry: {max: 3}}; console.log("+e+")") + "\n", true},
				{"run-multiline-template-first", head + "      - run: |\n          docker ps --format '{{.Names}}'\n          echo " + e + "\n", true},
				{"env-after-braces", head + "      - run: echo\n        env:\n          V: " + q("}} "+e) + "\n", false},
				{"github-script-other-input", head + "      - uses: actions/github-script@v7\n        with:\n          script: x\n          github-token: " + q(e) + "\n", false},
				{"env", head + "      - run: echo\n        env:\n          V: " + q(e) + "\n", false},
				{"with-other-action", head + "      - uses: actions/checkout@v4\n        with:\n          ref: " + q(e) + "\n", false},
				{"if", head + "      - run: echo\n        if: " + q(e+" == 'x'") + "\n", false},
				{"name", head + "      - run: echo\n        name: " + q(e) + "\n", false},
				{"job-env", "on: pull_request\njobs:\n  a:\n    runs-on: ubuntu-latest\n    env:\n      V: " + q(e) + "\n    steps:\n      - run: echo\n", false},
			}
			// positions that hold exactly ONE expression (booleans, numbers, whole sections): not scripts
			// either, in each of the three scalar styles
			for qi, qf := range []func(string) string{q, func(s string) string { return "\"" + s + "\"" }, func(s string) string { return s }} {
				if qi == 2 && (strings.Contains(e, ": ") || strings.Contains(e, " #")) {
					continue // not a plain scalar
				}
				st := []string{"single", "double", "plain"}[qi]
				v := qf(e)
				job := "on: pull_request\njobs:\n  a:\n    runs-on: ubuntu-latest\n"
				steps := "    steps:\n      - run: echo\n"
				ps = append(ps,
					pos{"job-continue-on-error-" + st, job + "    continue-on-error: " + v + "\n" + steps, false},
					pos{"job-timeout-minutes-" + st, job + "    timeout-minutes: " + v + "\n" + steps, false},
					pos{"step-continue-on-error-" + st, job + steps + "        continue-on-error: " + v + "\n", false},
					pos{"step-timeout-minutes-" + st, job + steps + "        timeout-minutes: " + v + "\n", false},
					pos{"fail-fast-" + st, job + "    strategy:\n      fail-fast: " + v + "\n      matrix:\n        x: [1]\n" + steps, false},
					pos{"max-parallel-" + st, job + "    strategy:\n      max-parallel: " + v + "\n      matrix:\n        x: [1]\n" + steps, false},
					pos{"matrix-" + st, job + "    strategy:\n      matrix: " + v + "\n" + steps, false},
					pos{"matrix-row-" + st, job + "    strategy:\n      matrix:\n        x: " + v + "\n" + steps, false},
					pos{"matrix-include-" + st, job + "    strategy:\n      matrix:\n        x: [1]\n        include: " + v + "\n" + steps, false},
					pos{"job-env-section-" + st, job + "    env: " + v + "\n" + steps, false},
					pos{"step-env-section-" + st, job + steps + "        env: " + v + "\n", false},
					pos{"runs-on-" + st, "on: pull_request\njobs:\n  a:\n    runs-on: " + v + "\n" + steps, false},
					pos{"runs-on-labels-" + st, "on: pull_request\njobs:\n  a:\n    runs-on:\n      group: g\n      labels: " + v + "\n" + steps, false},
					pos{"cancel-in-progress-" + st, "on: pull_request\nconcurrency:\n  group: g\n  cancel-in-progress: " + v + "\n" + strings.TrimPrefix(job, "on: pull_request\n") + steps, false},
				)
			}
			for _, p := range ps {
				res := vLint(p.src, nil)
				r.Evaluations++
				r.Transitions++
				r.Validated++
				var msgs []string
				for _, d := range res.Errs {
					msgs = append(msgs, d.Message)
				}
				var want [][]string
				if p.script {
					want = append(want, c11Match(c))
					if p.name == "run-twice" {
						want = append(want, c11Match(c))
					}
				}
				c11Compare(r, p.src, c11Reported(msgs), want, "position:"+p.name, map[string]any{"src": p.src, "want": want})
			}
		}
	}
}
