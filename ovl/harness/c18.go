//go:build go1.23

package actionlint

// C18 — job dependency checks are exact for every needs graph.
//
// Space: every directed graph (self loops included) on n <= 4 labelled jobs (thorough: plus all
// loop-free graphs on 5 jobs), every order of the `needs` entries for n <= 3 (ascending and
// descending for larger n), one dangling and one duplicate entry added at every place, job ids and
// references in differing letter case; and for each of these every order in which the rule's
// `nodes` map can be iterated (DFS entry order / resolution order), enumerated by Engine A's
// map-order choice points. Oracle: Tarjan-free reference (reachability closure) written from the
// property statement.

import (
	"fmt"
	"regexp"
	"sort"
	"strings"
	"testing"
	"time"

	"github.com/rhysd/actionlint/verifshim/vsched"
)

var c18IDs = []string{"Ja", "jb", "JC", "jd", "Je"}

// c18Ghosts are the names used for references that do not resolve.
var c18Ghosts = []string{"Ghost", "Phantom"}

type c18Case struct {
	N     int
	Needs [][]string // per job, as written
	Desc  string
	IDs   []string `json:"ids,omitempty"` // job ids when they are not the default ones
	// SameLine: all job ids on one source line at different columns (flow style), rule level only
	SameLine bool `json:"same_line,omitempty"`
}

func (c *c18Case) yaml() string {
	var b strings.Builder
	b.WriteString("on: push\njobs:\n")
	for i := 0; i < c.N; i++ {
		fmt.Fprintf(&b, "  %s:\n", c18IDs[i])
		if len(c.Needs[i]) > 0 {
			fmt.Fprintf(&b, "    needs: [%s]\n", strings.Join(c.Needs[i], ", "))
		}
		b.WriteString("    runs-on: ubuntu-latest\n    steps:\n      - run: echo\n")
	}
	return b.String()
}

// line of job i's id in yaml(): computed the same way as the text is generated
func (c *c18Case) jobLine(i int) int {
	line := 3
	for k := 0; k < i; k++ {
		line += 4
		if len(c.Needs[k]) > 0 {
			line++
		}
	}
	return line
}

type c18Expect struct {
	dangling map[int][]string // job -> dangling refs (lower-cased), one diagnostic each
	dups     map[int][]string // job -> duplicate entries as written
	cyclic   bool
	adj      [][]bool
}

func c18Oracle(c *c18Case) *c18Expect {
	e := &c18Expect{dangling: map[int][]string{}, dups: map[int][]string{}}
	idx := map[string]int{}
	for i := 0; i < c.N; i++ {
		idx[strings.ToLower(c18IDs[i])] = i
	}
	e.adj = make([][]bool, c.N)
	anyDangling := false
	for i := 0; i < c.N; i++ {
		e.adj[i] = make([]bool, c.N)
		seen := map[string]bool{}
		for _, ref := range c.Needs[i] {
			l := strings.ToLower(ref)
			if seen[l] {
				e.dups[i] = append(e.dups[i], ref)
				continue
			}
			seen[l] = true
			if j, ok := idx[l]; ok {
				e.adj[i][j] = true
			} else {
				e.dangling[i] = append(e.dangling[i], l)
				anyDangling = true
			}
		}
	}
	if anyDangling {
		return e
	}
	// cycle iff some node reaches itself (transitive closure; boring on purpose)
	reach := make([][]bool, c.N)
	for i := range reach {
		reach[i] = append([]bool{}, e.adj[i]...)
	}
	for k := 0; k < c.N; k++ {
		for i := 0; i < c.N; i++ {
			for j := 0; j < c.N; j++ {
				if reach[i][k] && reach[k][j] {
					reach[i][j] = true
				}
			}
		}
	}
	for i := 0; i < c.N; i++ {
		if reach[i][i] {
			e.cyclic = true
		}
	}
	return e
}

var c18CycleRe = regexp.MustCompile(`^cyclic dependencies in "needs" job configurations are detected\. detected cycle is (.*)$`)
var c18DangRe = regexp.MustCompile(`^job "([^"]*)" needs job "([^"]*)" which does not exist in this workflow$`)
var c18DupRe = regexp.MustCompile(`^job ID "([^"]*)" duplicates in "needs" section`)

// c18Judge compares diagnostics (line, message) with the oracle; returns "" or a violation class+text.
func c18Judge(c *c18Case, e *c18Expect, diags []vDiag, jobLine func(int) int) (string, string) {
	idx := map[string]int{}
	for i := 0; i < c.N; i++ {
		idx[strings.ToLower(c18IDs[i])] = i
	}
	lineJob := map[int]int{}
	code := func(line, col int) int { return line }
	if c.SameLine {
		code = func(line, col int) int { return line*1000 + col }
	}
	for i := 0; i < c.N; i++ {
		if c.SameLine {
			lineJob[code(10, 3+20*i)] = i
		} else {
			lineJob[jobLine(i)] = i
		}
	}
	gotDang := map[int][]string{}
	gotDup := map[int][]string{}
	var cycles []vDiag
	for _, d := range diags {
		if m := c18CycleRe.FindStringSubmatch(d.Msg); m != nil {
			cycles = append(cycles, d)
			continue
		}
		if m := c18DangRe.FindStringSubmatch(d.Msg); m != nil {
			j, ok := lineJob[code(d.Line, d.Col)]
			if !ok || strings.ToLower(c18IDs[j]) != m[1] {
				return "dangling-position", fmt.Sprintf("dangling diagnostic %v is not located at the referring job", d)
			}
			gotDang[j] = append(gotDang[j], m[2])
			continue
		}
		if m := c18DupRe.FindStringSubmatch(d.Msg); m != nil {
			j, ok := lineJob[d.Line-1]
			if !ok {
				return "dup-position", fmt.Sprintf("duplicate diagnostic %v is not on a needs line", d)
			}
			gotDup[j] = append(gotDup[j], m[1])
			continue
		}
		return "unexpected-diagnostic", fmt.Sprintf("unexpected diagnostic %v", d)
	}
	for i := 0; i < c.N; i++ {
		a, b := append([]string{}, gotDang[i]...), append([]string{}, e.dangling[i]...)
		sort.Strings(a)
		sort.Strings(b)
		if strings.Join(a, ",") != strings.Join(b, ",") {
			return "dangling-set", fmt.Sprintf("job %d: dangling references reported %v, expected %v", i, a, b)
		}
		a, b = append([]string{}, gotDup[i]...), append([]string{}, e.dups[i]...)
		sort.Strings(a)
		sort.Strings(b)
		if strings.Join(a, ",") != strings.Join(b, ",") {
			return "dup-set", fmt.Sprintf("job %d: duplicate entries reported %v, expected %v", i, a, b)
		}
	}
	if len(e.dangling) > 0 {
		if len(cycles) > 0 {
			return "cycle-with-dangling", "cycle diagnostic although a reference does not resolve"
		}
		return "", ""
	}
	if !e.cyclic {
		if len(cycles) > 0 {
			return "false-cycle", fmt.Sprintf("acyclic graph got %v", cycles[0])
		}
		return "", ""
	}
	if len(cycles) != 1 {
		return "cycle-count", fmt.Sprintf("cyclic graph got %d cycle diagnostics, expected exactly 1", len(cycles))
	}
	m := c18CycleRe.FindStringSubmatch(cycles[0].Msg)
	parts := strings.Split(m[1], " -> ")
	if len(parts) < 2 {
		return "cycle-path", fmt.Sprintf("cannot parse cycle path %q", m[1])
	}
	var path []int
	for _, p := range parts {
		p = strings.Trim(p, `"`)
		j, ok := idx[p]
		if !ok {
			return "cycle-path", fmt.Sprintf("cycle path names unknown job %q", p)
		}
		path = append(path, j)
	}
	if path[0] != path[len(path)-1] {
		return "cycle-not-closed", fmt.Sprintf("printed path %q does not return to its start", m[1])
	}
	seen := map[int]bool{}
	for k := 0; k+1 < len(path); k++ {
		if !e.adj[path[k]][path[k+1]] {
			return "cycle-not-an-edge", fmt.Sprintf("printed hop %s -> %s is not a needs edge", parts[k], parts[k+1])
		}
		if seen[path[k]] {
			return "cycle-not-simple", fmt.Sprintf("printed path %q repeats a job", m[1])
		}
		seen[path[k]] = true
	}
	j, ok := lineJob[code(cycles[0].Line, cycles[0].Col)]
	if !ok || !seen[j] {
		return "cycle-position", fmt.Sprintf("cycle diagnostic at line %d is not at a job of the printed cycle %q", cycles[0].Line, m[1])
	}
	return "", ""
}

// c18RunRule drives the real rule through its visitor callbacks with synthetic AST nodes.
func c18RunRule(c *c18Case) []vDiag {
	rule := NewRuleJobNeeds()
	for i := 0; i < c.N; i++ {
		line, col := 10*(i+1), 3
		if c.SameLine {
			line, col = 10, 3+20*i
		}
		job := &Job{ID: &String{Value: c18IDs[i], Pos: &Pos{line, col}}, Pos: &Pos{line, col}}
		for k, n := range c.Needs[i] {
			np := &Pos{line + 1, 13 + k}
			if c.SameLine {
				np = &Pos{line, col + 5 + k}
			}
			job.Needs = append(job.Needs, &String{Value: n, Pos: np})
		}
		if err := rule.VisitJobPre(job); err != nil {
			panic(err)
		}
		if err := rule.VisitJobPost(job); err != nil {
			panic(err)
		}
	}
	if err := rule.VisitWorkflowPost(&Workflow{}); err != nil {
		panic(err)
	}
	return vDiags(rule.Errs())
}

func c18Perms(xs []string) [][]string {
	if len(xs) <= 1 {
		return [][]string{append([]string{}, xs...)}
	}
	var out [][]string
	for i := range xs {
		rest := append(append([]string{}, xs[:i]...), xs[i+1:]...)
		for _, p := range c18Perms(rest) {
			out = append(out, append([]string{xs[i]}, p...))
		}
	}
	return out
}

// refSpelling gives the spelling used when job i refers to job j: varies in letter case.
func c18Ref(i, j int) string {
	id := c18IDs[j]
	switch (i + j) % 3 {
	case 0:
		return strings.ToUpper(id)
	case 1:
		return strings.ToLower(id)
	}
	return id
}

// c18Enumerate yields all cases for n jobs. selfLoops=false restricts to loop-free edge sets.
func c18Enumerate(n int, selfLoops bool, variants bool, yield func(idx int64, c *c18Case) bool) {
	bits := n * n
	var idx int64
	for mask := 0; mask < 1<<bits; mask++ {
		if !selfLoops {
			skip := false
			for i := 0; i < n; i++ {
				if mask&(1<<(i*n+i)) != 0 {
					skip = true
				}
			}
			if skip {
				continue
			}
		}
		base := make([][]string, n)
		for i := 0; i < n; i++ {
			for j := 0; j < n; j++ {
				if mask&(1<<(i*n+j)) != 0 {
					base[i] = append(base[i], c18Ref(i, j))
				}
			}
		}
		// orders of needs entries
		var orderings [][][]string
		if n <= 3 {
			// all orders of every list (product)
			orderings = [][][]string{{}}
			for i := 0; i < n; i++ {
				var next [][][]string
				for _, p := range c18Perms(base[i]) {
					for _, o := range orderings {
						next = append(next, append(append([][]string{}, o...), p))
					}
				}
				orderings = next
			}
		} else {
			desc := make([][]string, n)
			for i := range base {
				for k := len(base[i]) - 1; k >= 0; k-- {
					desc[i] = append(desc[i], base[i][k])
				}
			}
			orderings = [][][]string{base, desc}
		}
		for oi, o := range orderings {
			c := &c18Case{N: n, Needs: o, Desc: fmt.Sprintf("n=%d mask=%#x order=%d", n, mask, oi)}
			if !yield(idx, c) {
				return
			}
			idx++
			if !variants || oi > 0 {
				continue
			}
			// one dangling reference added at the front / back of each job's list
			for i := 0; i < n; i++ {
				for _, front := range []bool{true, false} {
					nn := make([][]string, n)
					copy(nn, o)
					if front {
						nn[i] = append([]string{c18Ghosts[0]}, o[i]...)
					} else {
						nn[i] = append(append([]string{}, o[i]...), c18Ghosts[0])
					}
					c := &c18Case{N: n, Needs: nn, Desc: fmt.Sprintf("n=%d mask=%#x dangling job=%d front=%v", n, mask, i, front)}
					if !yield(idx, c) {
						return
					}
					idx++
				}
				// two different dangling references in one job (both in front, around, both at the
				// back), and one in each of two jobs: every one of them is reported
				for form := 0; form < 3; form++ {
					nn := make([][]string, n)
					copy(nn, o)
					switch form {
					case 0:
						nn[i] = append([]string{c18Ghosts[0], c18Ghosts[1]}, o[i]...)
					case 1:
						nn[i] = append(append([]string{c18Ghosts[0]}, o[i]...), "Phantom")
					case 2:
						nn[i] = append(append([]string{}, o[i]...), c18Ghosts[0], c18Ghosts[1])
					}
					c := &c18Case{N: n, Needs: nn, Desc: fmt.Sprintf("n=%d mask=%#x two dangling job=%d form=%d", n, mask, i, form)}
					if !yield(idx, c) {
						return
					}
					idx++
				}
				for j := i + 1; j < n; j++ {
					nn := make([][]string, n)
					copy(nn, o)
					nn[i] = append(append([]string{}, o[i]...), c18Ghosts[0])
					nn[j] = append([]string{c18Ghosts[1]}, o[j]...)
					c := &c18Case{N: n, Needs: nn, Desc: fmt.Sprintf("n=%d mask=%#x dangling jobs=%d,%d", n, mask, i, j)}
					if !yield(idx, c) {
						return
					}
					idx++
					// the SAME missing id referred to by both jobs (in another letter case by the second):
					// reported at each referring job
					same := make([][]string, n)
					copy(same, o)
					g := c18Ghosts[0]
					g2 := strings.ToUpper(g)
					if g2 == g {
						g2 = strings.ToLower(g)
					}
					same[i] = append(append([]string{}, o[i]...), g)
					same[j] = append([]string{g2}, o[j]...)
					c = &c18Case{N: n, Needs: same, Desc: fmt.Sprintf("n=%d mask=%#x same dangling id in jobs=%d,%d", n, mask, i, j)}
					if !yield(idx, c) {
						return
					}
					idx++
				}
				// one duplicate (re-cased) of each existing entry appended
				for k := range o[i] {
					nn := make([][]string, n)
					copy(nn, o)
					dup := o[i][k]
					if dup == strings.ToUpper(dup) {
						dup = strings.ToLower(dup)
					} else {
						dup = strings.ToUpper(dup)
					}
					nn[i] = append(append([]string{}, o[i]...), dup)
					c := &c18Case{N: n, Needs: nn, Desc: fmt.Sprintf("n=%d mask=%#x dup job=%d entry=%d", n, mask, i, k)}
					if !yield(idx, c) {
						return
					}
					idx++
				}
			}
		}
	}
}

func c18Sites() map[int]bool {
	// map-order sites inside rule_job_needs.go (all of them)
	m := map[int]bool{}
	for _, s := range vLoadSites() {
		if s.File == "rule_job_needs.go" {
			m[s.ID] = true
		}
	}
	return m
}

// c18Large: termination on LARGE graphs: layered pipelines in which every job of a stage needs every job of the stage before (the number of paths doubles / triples with every stage), acyclic and closed into one long cycle; long chains; a wide fan. A search that forgets what it has finished does not come back from these in any reasonable time: horizon 60 s (the pinned tree needs milliseconds), reported as a violation of "terminates for every graph".
func c18Large(r *vReport) {
	type big struct {
		name   string
		src    string
		cyclic bool
	}
	layered := func(width, stages int, closeCycle bool) string {
		var b strings.Builder
		b.WriteString("on: push\njobs:\n")
		for st := 0; st < stages; st++ {
			for w := 0; w < width; w++ {
				fmt.Fprintf(&b, "  s%dj%d:\n", st, w)
				var needs []string
				if st > 0 {
					for pw := 0; pw < width; pw++ {
						needs = append(needs, fmt.Sprintf("s%dj%d", st-1, pw))
					}
				} else if closeCycle && w == 0 {
					needs = append(needs, fmt.Sprintf("s%dj%d", stages-1, width-1))
				}
				if len(needs) > 0 {
					fmt.Fprintf(&b, "    needs: [%s]\n", strings.Join(needs, ", "))
				}
				b.WriteString("    runs-on: ubuntu-latest\n    steps:\n      - run: echo\n")
			}
		}
		return b.String()
	}
	bigs := []big{
		{"2 jobs x 48 stages, acyclic", layered(2, 48, false), false},
		{"3 jobs x 30 stages, acyclic", layered(3, 30, false), false},
		{"2 jobs x 48 stages, closed into a cycle", layered(2, 48, true), true},
		{"1 job x 400 stages (chain), acyclic", layered(1, 400, false), false},
		{"1 job x 400 stages (chain), cyclic", layered(1, 400, true), true},
		{"40 jobs x 3 stages (wide), acyclic", layered(40, 3, false), false},
	}
	for _, bg := range bigs {
		done := make(chan vLintResult, 1)
		go func() { done <- vLint(bg.src, nil) }()
		r.Evaluations++
		r.Transitions++
		r.Validated++
		select {
		case res := <-done:
			cycles := 0
			for _, d := range vDiags(res.Errs) {
				if strings.Contains(d.Msg, "cyclic dependencies") {
					cycles++
				}
			}
			if res.Panic != "" || res.Err != nil {
				r.Violation("e2e-failure", fmt.Sprintf("large graph %s: panic=%q err=%v", bg.name, vTrunc(res.Panic, 300), res.Err), map[string]any{"n": 0, "desc": "large " + bg.name})
			} else if (cycles == 1) != bg.cyclic || cycles > 1 {
				r.Violation("large-graph-verdict", fmt.Sprintf("large graph %s: %d cyclic-dependency diagnostics, cyclic=%v", bg.name, cycles, bg.cyclic), map[string]any{"n": 0, "desc": "large " + bg.name})
			}
		case <-time.After(60 * time.Second):
			r.Violation("termination", fmt.Sprintf("large graph %s (%d lines): the check had not finished after 60 s", bg.name, strings.Count(bg.src, "\n")), map[string]any{"n": 0, "desc": "large " + bg.name})
		}
		r.Class("large graph "+bg.name, bg.cyclic)
	}
}

func TestVerifC18(t *testing.T) {
	r := vNewReport("C18")
	defer r.Write(t)
	sites := c18Sites()
	if len(sites) < 2 {
		r.HarnessError("expected >= 2 map-order sites in rule_job_needs.go, found %d", len(sites))
		return
	}
	r.Extra["rule"] = "every directed graph on <=4 jobs (thorough: + loop-free graphs on 5 jobs) x needs-entry orders x {one dangling, two dangling in one job (3 placements), one dangling in each of two jobs - different ids and the same id -, one duplicate} entry x every iteration order of the rule's nodes map (Engine A map-order choices at the sites of rule_job_needs.go, deviation budget 1, thorough 2 for <=3 jobs); the graphs on <=3 jobs again with ids in unusual spellings, ids containing each other, pairs of ids that concatenate to the same text (plainly, around '-' and '_'), every letter in two cases; 6 large layered graphs (up to 96 jobs, path counts up to 2^47) with a 60 s horizon for termination; class = (cyclic|acyclic|dangling|dup) x printed cycle length; non-trivial = class other than acyclic-clean"
	r.Extra["assumptions"] = []string{"job ids drawn from 5 fixed spellings with mixed case", "needs graphs with more than 5 jobs are not explored"}
	maxFull := 4
	r.Bounds["jobs_all_graphs"] = maxFull
	maxDev := 1
	if vThorough() {
		maxDev = 2
	}
	r.Bounds["map_order_deviations"] = fmt.Sprintf("%d for <=3 jobs, 1 for 4 and 5 jobs", maxDev)
	r.Bounds["perm_full"] = 5

	if raw := vReplayInput(); raw != nil {
		var c c18Case
		if err := jsonUnmarshal(raw, &c); err != nil {
			t.Fatal(err)
		}
		if c.IDs != nil {
			c18IDs = c.IDs
		}
		if strings.HasPrefix(c.Desc, "large ") {
			c18Large(r)
			r.Class("replay", true)
			return
		}
		for k := 0; k < 2; k++ {
			d := c18RunRule(&c)
			cls, msg := c18Judge(&c, c18Oracle(&c), d, func(i int) int { return 10 * (i + 1) })
			fmt.Printf("replay %d: diags=%v verdict=%q %s\n", k, d, cls, msg)
			if cls != "" {
				r.Violation(cls, msg, c)
			}
		}
		r.Class("replay", true)
		return
	}

	check := func(idx int64, c *c18Case) bool {
		if !r.Mine(idx) {
			return true
		}
		if idx%4096 == 0 && r.Expired() {
			return false
		}
		r.Begin(func() string { return c.Desc + " " + fmt.Sprint(c.Needs) })
		exp := c18Oracle(c)
		cfg := vsched.Config{MaxDev: 1, PermFull: 5, DevSites: sites}
		if c.N <= 3 {
			cfg.MaxDev = maxDev
		}
		outcomes := 0
		cfg.Check = func(x *vsched.Exec, obs string) string {
			return obs
		}
		res := vsched.Explore(cfg, func(x *vsched.Exec) string {
			d := c18RunRule(c)
			cls, msg := c18Judge(c, exp, d, func(i int) int { return 10 * (i + 1) })
			if cls != "" {
				return cls + "\x00" + msg
			}
			return ""
		})
		if res.HarnessErr != "" {
			r.HarnessError("%s: %s", c.Desc, res.HarnessErr)
			return false
		}
		outcomes = len(res.Outcomes)
		_ = outcomes
		r.Evaluations++
		r.Transitions += res.Execs
		r.Validated += res.Execs
		for _, v := range res.Violations {
			parts := strings.SplitN(v.Msg, "\x00", 2)
			if len(parts) < 2 {
				// not a verdict of c18Judge: the rule panicked / the explorer reported the execution itself
				r.Violation("failure", vTrunc(v.Msg, 600)+" | case "+c.Desc+" needs="+fmt.Sprint(c.Needs)+" map choices="+fmt.Sprint(v.Choices), c)
				continue
			}
			r.Violation(parts[0], parts[1]+" | case "+c.Desc+" needs="+fmt.Sprint(c.Needs)+" map choices="+fmt.Sprint(v.Choices), c)
		}
		cls := "acyclic"
		switch {
		case len(exp.dangling) > 0:
			cls = "dangling"
		case exp.cyclic:
			cls = "cyclic"
		}
		if len(exp.dups) > 0 {
			cls += "+dup"
		}
		cls = fmt.Sprintf("n=%d %s", c.N, cls)
		r.Class(cls, cls != fmt.Sprintf("n=%d acyclic", c.N))
		if idx%9973 == 0 {
			r.Sample(map[string]any{"case": c.Desc, "needs": c.Needs, "executions": res.Execs, "expected_cyclic": exp.cyclic})
		}
		return true
	}
	for n := 1; n <= maxFull; n++ {
		c18Enumerate(n, true, true, check)
	}
	if vThorough() {
		r.Bounds["jobs_loop_free_graphs"] = 5
		c18Enumerate(5, false, false, check)
	}
	// every graph on <= 3 (thorough 4) jobs (no dangling / duplicate entries) with all job ids on ONE source line
	// (flow style): positions differ in the column only
	sameLineN := 3
	if vThorough() {
		sameLineN = 4
	}
	for n := 1; n <= sameLineN; n++ {
		c18Enumerate(n, true, false, func(idx int64, c *c18Case) bool {
			c.Desc = "same-line " + c.Desc
			c.SameLine = true
			return check(idx+2<<40, c)
		})
	}
	// the same graphs on <= 3 jobs with ids and dangling names in unusual spellings (leading digit,
	// dot, space, leading underscore): ids are labels, the verdicts do not depend on them
	{
		ids, ghosts := c18IDs, c18Ghosts
		c18IDs, c18Ghosts = []string{"1a", "b.C", "d e", "_f", "g-1"}, []string{"3rd", "x.y z"}
		for n := 1; n <= 3; n++ {
			c18Enumerate(n, true, true, func(idx int64, c *c18Case) bool {
				c.Desc = "odd-ids " + c.Desc
				c.IDs = c18IDs
				return check(idx+1<<40, c)
			})
		}
		c18IDs, c18Ghosts = ids, ghosts
	}
	// ids that contain each other as substrings / prefixes / suffixes (graphs on <= 3 jobs): ids
	// are compared as wholes
	{
		ids, ghosts := c18IDs, c18Ghosts
		c18IDs, c18Ghosts = []string{"test-linux", "test", "linux", "t", "st-li"}, []string{"tes", "test-linux-2"}
		for n := 1; n <= 3; n++ {
			c18Enumerate(n, true, true, func(idx int64, c *c18Case) bool {
				c.Desc = "substring-ids " + c.Desc
				c.IDs = c18IDs
				return check(idx+40<<40, c)
			})
		}
		c18IDs, c18Ghosts = ids, ghosts
	}
	// pairs (job, needed job) whose ids concatenate to the same text, plainly or around a separator
	// ("a" needs "bc" / "ab" needs "c"; "a" needs "b-c" / "a-b" needs "c"): a pair is two ids, not a string
	{
		ids, ghosts := c18IDs, c18Ghosts
		for k, set := range [][2][]string{
			{{"ab", "c", "a", "bcx", "b"}, {"bc", "cx"}},
			{{"a-b", "c", "a", "b-cx", "b"}, {"b-c", "c-x"}},
			{{"a_b", "c", "a", "b_cx", "b"}, {"b_c", "c_x"}},
		} {
			c18IDs, c18Ghosts = set[0], set[1]
			for n := 1; n <= 3; n++ {
				c18Enumerate(n, true, true, func(idx int64, c *c18Case) bool {
					c.Desc = "concatenating-ids " + c.Desc
					c.IDs = c18IDs
					return check(idx+(41+int64(k))<<40, c)
				})
			}
		}
		c18IDs, c18Ghosts = ids, ghosts
	}
	// every letter of the alphabet in ids that are defined in one letter case and referenced in
	// another (graphs on <= 2 jobs): case folding is per letter
	{
		ids, ghosts := c18IDs, c18Ghosts
		for l := 'a'; l <= 'z'; l++ {
			lo, up := string(l), strings.ToUpper(string(l))
			c18IDs, c18Ghosts = []string{up + "_" + lo, "_" + lo + up, up + up, lo + lo + "_", "_" + up}, []string{"ghost" + up, lo + "ghost"}
			for n := 1; n <= 2; n++ {
				c18Enumerate(n, true, true, func(idx int64, c *c18Case) bool {
					c.Desc = "letter-" + lo + " " + c.Desc
					c.IDs = c18IDs
					return check(idx+(3+int64(l-'a'))<<40, c)
				})
			}
		}
		c18IDs, c18Ghosts = ids, ghosts
	}

	if r.Shard == 0 {
		c18Large(r)
	}

	// end-to-end slice: every graph on <= 3 jobs through Linter.Lint (YAML text, real parser,
	// all rules); map order canonical.
	var e2e int64
	for n := 1; n <= 3; n++ {
		c18Enumerate(n, true, true, func(idx int64, c *c18Case) bool {
			if !r.Mine(idx) {
				return true
			}
			r.Begin(func() string { return "e2e " + c.Desc })
			res := vLint(c.yaml(), nil)
			if res.Panic != "" || res.Err != nil {
				r.Violation("e2e-failure", fmt.Sprintf("%s: panic=%q err=%v", c.Desc, vTrunc(res.Panic, 300), res.Err), c)
				return true
			}
			var ds []vDiag
			for _, d := range vDiags(res.Errs) {
				if d.Kind == "job-needs" {
					ds = append(ds, d)
				} else {
					r.Violation("e2e-foreign-diagnostic", fmt.Sprintf("%s: %v", c.Desc, d), c)
				}
			}
			cls, msg := c18Judge(c, c18Oracle(c), ds, c.jobLine)
			if cls != "" {
				r.Violation("e2e-"+cls, msg+" | "+c.Desc, c)
			}
			e2e++
			r.Transitions++
			r.Validated++
			return true
		})
	}
	r.Extra["sum_e2e_lints"] = float64(e2e)
}
