//go:build go1.23

package actionlint

// C03 — every ${{ }} placeholder in a workflow is checked.
//
// Space: maximal seeds + pairwise-sibling reductions of every mapping x every scalar value position
// x 4 malformed placeholders (thorough: two simultaneous mutations in sibling positions).
// Oracle: >= 1 diagnostic located at the mutated scalar; unless the position is exempt (event
// names, input type, permissions values, secrets: inherit) it is an expression syntax error.

import (
	"fmt"
	"os"
	"strings"
	"testing"
)

var c03Payloads = []struct{ name, text string }{
	{"lexer-error", "${{ a + }}"},
	{"leftover-tokens", "${{ a b }}"},
	{"empty", "${{ }}"},
	{"unterminated-string", "${{ 'x }}"},
	// the malformed placeholder is not the first one in the string
	{"after-valid-placeholder", "${{ 1 }}-${{ a + }}"},
	// text that holds a closing marker of its own before the placeholder
	{"after-closing-braces", "}} ${{ a + }}"},
}

// c03Quote renders text as a single-quoted YAML scalar.
func c03Quote(s string) string { return "'" + strings.ReplaceAll(s, "'", "''") + "'" }

type c03Seed struct {
	name string
	cat  *vCatalogue
	// when non-empty, only positions whose path starts with this prefix are mutated (variants
	// that differ from another seed only inside one mapping)
	onlyPath string
	direct   bool // with onlyPath: only the direct scalar children of that container
	// project seeds: the workflow is linted as a file of a repository that holds a local action and
	// a local reusable workflow (nil: linted as a single source)
	lint func(src string) vLintResult
}

// c03DerivedSeeds produces, for every mapping of a maximal seed, the reductions that keep the
// mandatory keys plus each pair of optional keys; only reductions that still lint clean are kept.
func c03DerivedSeeds(r *vReport, cats []*vCatalogue) []*c03Seed {
	var out []*c03Seed
	skipped := 0
	for _, c := range cats {
		out = append(out, &c03Seed{name: c.Seed, cat: c})
		out = append(out, c03Reorderings(c, &skipped)...)
		out = append(out, c03SiblingVariations([]*vCatalogue{c}, &skipped)...)
		out = append(out, c03SectionsByExpression(c, &skipped)...)
		for _, m := range c.Mappings {
			var keyNames []string
			for _, k := range m.Keys {
				keyNames = append(keyNames, k.Value)
			}
			sch, ok := vMappingSchemaOf(m.NPath, keyNames)
			if !ok {
				r.HarnessError("no mapping schema for %s (%s)", m.NPath, m.Path)
				continue
			}
			var opt []*vPos
			for _, k := range m.Keys {
				mand := false
				for _, mk := range sch.Mandatory {
					if strings.EqualFold(mk, k.Value) {
						mand = true
					}
				}
				if !mand {
					opt = append(opt, k)
				}
			}
			if len(opt) < 3 {
				continue
			}
			for i := 0; i < len(opt); i++ {
				for j := i + 1; j < len(opt); j++ {
					var drop []*vPos
					for k, o := range opt {
						if k != i && k != j {
							drop = append(drop, o)
						}
					}
					src := c.DeleteKeys(drop)
					name := fmt.Sprintf("%s/%s{%s,%s}", c.Seed, m.Path, opt[i].Value, opt[j].Value)
					res := vLint(src, nil)
					if res.Panic != "" || res.Err != nil || len(res.Errs) > 0 {
						skipped++
						continue
					}
					dc, err := vBuildCatalogue(name, src)
					if err != nil {
						skipped++
						continue
					}
					out = append(out, &c03Seed{name: name, cat: dc})
				}
			}
		}
	}
	r.Extra["sum_derived_seeds_not_clean_skipped"] = float64(skipped)
	return out
}

// c03SiblingVariations wraps vSiblingVariations (lib_catalogue.go) as seeds of this check.
func c03SiblingVariations(cats []*vCatalogue, skipped *int) []*c03Seed {
	var out []*c03Seed
	for _, v := range vSiblingVariations(cats, skipped) {
		out = append(out, &c03Seed{name: v.Cat.Seed, cat: v.Cat, onlyPath: v.Container, direct: true})
	}
	return out
}

// c03SectionsByExpression: for every key of a block mapping whose value is a sequence, a mapping
// (block or flow style) or a multi-line scalar, the variant in which that whole value is given by one expression
// (`labels: ${{ ... }}`, `matrix: ${{ ... }}`, `env: ${{ ... }}`), kept when it lints clean; only the
// direct scalar children of the mapping the key stands in are mutated (the siblings of the section).
func c03SectionsByExpression(c *vCatalogue, skipped *int) []*c03Seed {
	var out []*c03Seed
	for _, m := range c.Mappings {
		if m.Flow || len(m.Keys) < 2 {
			continue
		}
		for _, k := range m.Keys {
			if k.Line < 1 || k.EndLine < k.Line {
				continue
			}
			scalarValue := false
			for _, q := range c.Scalars {
				if q.Path == k.Path && !q.IsKey {
					scalarValue = true
				}
			}
			if scalarValue && k.EndLine == k.Line {
				continue // a one-line scalar: covered by the sibling variations
			}
			head := c.Lines[k.Line-1]
			colon := k.Len
			if k.Col-1+colon >= len(head) || head[k.Col-1+colon] != ':' {
				continue
			}
			for ei, expr := range []string{"${{ fromJSON(vars.X) }}", "${{ matrix.x }}"} {
				var lines []string
				lines = append(lines, c.Lines[:k.Line-1]...)
				lines = append(lines, head[:k.Col-1+colon+1]+" "+expr)
				lines = append(lines, c.Lines[k.EndLine:]...)
				src := strings.Join(lines, "\n")
				res := vLint(src, nil)
				if res.Panic != "" || res.Err != nil || len(res.Errs) > 0 {
					*skipped++
					continue
				}
				name := fmt.Sprintf("%s<%s=expression%d>", c.Seed, k.Path, ei)
				dc, err := vBuildCatalogue(name, src)
				if err != nil {
					*skipped++
					continue
				}
				out = append(out, &c03Seed{name: name, cat: dc, onlyPath: m.Path, direct: true})
				break
			}
		}
	}
	return out
}

// c03Reorderings produces, for every block mapping with at least two keys, the variants in which
// the keys are written in another order (each key moved to the front, and the reversed order);
// the order of keys in a mapping must not decide whether a value is checked. Only variants that
// still lint clean are kept, and only the positions inside the reordered mapping are mutated.
func c03Reorderings(c *vCatalogue, skipped *int) []*c03Seed {
	var out []*c03Seed
	for _, m := range c.Mappings {
		n := len(m.Keys)
		if n < 2 || m.Path == "" && false {
			continue
		}
		// blocks of lines per key; flow mappings (keys sharing a line) are skipped
		ok := true
		for i := 1; i < n; i++ {
			if m.Keys[i].Line <= m.Keys[i-1].EndLine {
				ok = false
			}
		}
		if !ok {
			continue
		}
		first := m.Keys[0]
		firstLine := c.Lines[first.Line-1]
		seqItem := strings.Contains(firstLine[:first.Col-1], "-")
		blocks := make([][]string, n)
		for i, k := range m.Keys {
			for l := k.Line; l <= k.EndLine; l++ {
				blocks[i] = append(blocks[i], c.Lines[l-1])
			}
		}
		prefix := firstLine[:first.Col-1] // e.g. "      - "
		if seqItem {
			blocks[0] = append([]string{strings.Repeat(" ", first.Col-1) + firstLine[first.Col-1:]}, blocks[0][1:]...)
		}
		var orders [][]int
		for f := 1; f < n; f++ {
			o := []int{f}
			for i := 0; i < n; i++ {
				if i != f {
					o = append(o, i)
				}
			}
			orders = append(orders, o)
		}
		if n > 2 {
			rev := make([]int, n)
			for i := range rev {
				rev[i] = n - 1 - i
			}
			orders = append(orders, rev)
		}
		for oi, o := range orders {
			var lines []string
			lines = append(lines, c.Lines[:first.Line-1]...)
			for bi, k := range o {
				b := append([]string{}, blocks[k]...)
				if bi == 0 && seqItem {
					b[0] = prefix + b[0][first.Col-1:]
				}
				lines = append(lines, b...)
			}
			lines = append(lines, c.Lines[m.EndLine:]...)
			src := strings.Join(lines, "\n")
			res := vLint(src, nil)
			if res.Panic != "" || res.Err != nil || len(res.Errs) > 0 {
				*skipped++
				continue
			}
			name := fmt.Sprintf("%s/%s<order %d:%s first>", c.Seed, m.Path, oi, m.Keys[o[0]].Value)
			dc, err := vBuildCatalogue(name, src)
			if err != nil {
				*skipped++
				continue
			}
			sd := &c03Seed{name: name, cat: dc, onlyPath: m.Path}
			if m.Path == "" {
				sd.onlyPath = ""
				continue // top level: every position would be repeated; the job/step/section mappings are what matters
			}
			out = append(out, sd)
		}
	}
	return out
}

var c03SyntaxRe = c04SyntaxReCopy()

func c03Check(r *vReport, sd *c03Seed, ps []*vPos, payload int) {
	c := sd.cat
	src := c.Src
	// apply right-to-left so that columns of earlier positions stay valid
	lines := append([]string{}, c.Lines...)
	type span struct{ line, lo, hi int }
	spans := make([]span, len(ps))
	order := make([]int, len(ps))
	for i := range order {
		order[i] = i
	}
	// sort by (line, col) descending
	for i := 0; i < len(order); i++ {
		for j := i + 1; j < len(order); j++ {
			a, b := ps[order[i]], ps[order[j]]
			if a.Line < b.Line || (a.Line == b.Line && a.Col < b.Col) {
				order[i], order[j] = order[j], order[i]
			}
		}
	}
	text := c03Quote(c03Payloads[payload].text)
	shift := map[int]int{} // line -> accumulated shift for positions left of earlier (right-hand) edits: none needed right-to-left
	_ = shift
	for _, k := range order {
		p := ps[k]
		l := lines[p.Line-1]
		lines[p.Line-1] = l[:p.Col-1] + text + l[p.Col-1+p.Len:]
	}
	// columns: an edit further left on the same line shifts later spans
	for k, p := range ps {
		lo := p.Col
		for _, q := range ps {
			if q != p && q.Line == p.Line && q.Col < p.Col {
				lo += len(text) - q.Len
			}
		}
		spans[k] = span{p.Line, lo, lo + len(text) - 1}
	}
	src = strings.Join(lines, "\n")
	lint := func(s string) vLintResult { return vLint(s, nil) }
	if sd.lint != nil {
		lint = sd.lint
	}
	res := lint(src)
	r.Evaluations++
	r.Transitions++
	r.Validated++
	var names []string
	for _, p := range ps {
		names = append(names, p.Path)
	}
	var rspans [][]any
	for k, p := range ps {
		sch, _ := vSchemaOf(p.NPath)
		rspans = append(rspans, []any{spans[k].line, spans[k].lo, spans[k].hi, sch.Exempt, p.NPath})
	}
	replay := map[string]any{"seed": sd.name, "paths": names, "payload": payload, "src": src, "spans": rspans, "project": sd.lint != nil}
	if res.Panic != "" || res.Err != nil {
		r.Violation("failure", fmt.Sprintf("%s %v: panic=%q err=%v", sd.name, names, vTrunc(res.Panic, 300), res.Err), replay)
		return
	}
	for k, p := range ps {
		sch, ok := vSchemaOf(p.NPath)
		if !ok {
			r.HarnessError("no schema entry for scalar position %s (%s) of %s", p.NPath, p.Path, sd.name)
			return
		}
		var at []vDiag
		for _, d := range vDiags(res.Errs) {
			if d.Line == spans[k].line && d.Col >= spans[k].lo && d.Col <= spans[k].hi {
				at = append(at, d)
			}
		}
		which := ""
		if len(ps) > 1 {
			which = "pair:"
		}
		if len(at) == 0 {
			r.Violation(which+"unchecked:"+p.NPath, fmt.Sprintf("%s: %s placeholder %s at %s (line %d col %d) is not reported at all; diagnostics: %v", sd.name, c03Payloads[payload].name, c03Payloads[payload].text, p.Path, spans[k].line, spans[k].lo, vTrunc(fmt.Sprint(vDiagStrings(res.Errs)), 300)), replay)
			continue
		}
		if sch.Exempt {
			continue
		}
		syn := false
		for _, d := range at {
			if d.Kind == "expression" && c03SyntaxRe.MatchString(d.Msg) {
				syn = true
			}
		}
		if pt := c03Payloads[payload].text; !syn && (strings.Count(pt, "${{") >= 2 || !strings.HasPrefix(pt, "${{")) {
			// a field that takes exactly one expression rejects a text with two placeholders (or with
			// other text around the placeholder) at the
			// YAML-to-AST level: reported at the scalar, which is what the statement asks for there
			for _, d := range at {
				if d.Kind == "syntax-check" {
					syn = true
				}
			}
		}
		if !syn {
			r.Violation(which+"not-a-syntax-error:"+p.NPath, fmt.Sprintf("%s: %s placeholder at %s is reported, but not as an expression syntax error: %v", sd.name, c03Payloads[payload].name, p.Path, at), replay)
		}
	}
	if len(ps) == 1 {
		sch, _ := vSchemaOf(ps[0].NPath)
		r.Class(fmt.Sprintf("%s exempt=%v", ps[0].NPath, sch.Exempt), !sch.Exempt)
	} else {
		r.Class("pair "+ps[0].NPath+" + "+ps[1].NPath, true)
	}
}

func TestVerifC03(t *testing.T) {
	r := vNewReport("C03")
	defer r.Write(t)
	cats, err := vAllCatalogues()
	if err != nil {
		r.HarnessError("%v", err)
		return
	}
	seeds := c03DerivedSeeds(r, cats)
	r.Bounds["maximal_seeds"] = len(cats)
	r.Bounds["seeds_with_pairwise_sibling_reductions"] = len(seeds)
	r.Bounds["payloads"] = len(c03Payloads)
	r.Bounds["simultaneous_mutations"] = 1
	if vThorough() {
		r.Bounds["simultaneous_mutations"] = 2
	}
	r.Extra["rule"] = "4 maximal seeds covering every key of the workflow syntax (+ a caller linted inside a repository with a local action and a local reusable workflow) + a seed of 5 spellings of a step's uses: (unknown action, local action, image, action in a subdirectory, mixed-case owner with a commit hash) x inputs named entrypoint / args in both letter cases next to an ordinary input + every clean reduction of a mapping to its mandatory keys plus one pair of optional keys + every mapping rewritten with each key moved to the front and in reversed order (positions inside that mapping); every scalar value position (mapping values and sequence elements at any depth) x 5 malformed placeholders (one of them after a valid placeholder in the same string) spliced as single-quoted scalars; thorough: also every pair of scalar positions inside one mapping mutated together. class = normalised schema path of the position; non-trivial = position where an expression syntax error is required"
	r.Extra["assumptions"] = []string{"positions are those reachable from the seeds (one occurrence of every key of appendix C); block-style mappings only"}

	if raw := vReplayInput(); raw != nil {
		var c struct {
			Src     string  `json:"src"`
			Spans   [][]any `json:"spans"`
			Project bool    `json:"project"`
		}
		if err := jsonUnmarshal(raw, &c); err != nil {
			t.Fatal(err)
		}
		for k := 0; k < 2; k++ {
			res := vLint(c.Src, nil)
			if c.Project {
				res = vProjectLint(t)(c.Src)
			}
			fmt.Printf("replay %d:\n%s\ndiagnostics: %v err=%v panic=%s\n", k, c.Src, vDiagStrings(res.Errs), res.Err, vTrunc(res.Panic, 200))
			for _, sp := range c.Spans {
				line, lo, hi := int(sp[0].(float64)), int(sp[1].(float64)), int(sp[2].(float64))
				exempt, np := sp[3].(bool), sp[4].(string)
				found, syn := false, false
				for _, d := range vDiags(res.Errs) {
					if d.Line == line && d.Col >= lo && d.Col <= hi {
						found = true
						if d.Kind == "expression" && c03SyntaxRe.MatchString(d.Msg) {
							syn = true
						}
					}
				}
				if !found {
					r.Violation("unchecked:"+np, fmt.Sprintf("placeholder at line %d col %d is not reported", line, lo), c)
				} else if !exempt && !syn {
					r.Violation("not-a-syntax-error:"+np, fmt.Sprintf("placeholder at line %d col %d is not reported as a syntax error", line, lo), c)
				}
			}
		}
		r.Class("replay", true)
		return
	}

	// the project seed: a caller linted inside a repository with a local action and a local reusable
	// workflow (values given to typed and untyped inputs are placeholders like any other scalar)
	{
		pl := vProjectLint(t)
		if res := pl(vProjectCaller); res.Err != nil || res.Panic != "" || len(res.Errs) > 0 {
			r.HarnessError("the project seed does not lint clean: %v %v %s", vDiagStrings(res.Errs), res.Err, vTrunc(res.Panic, 200))
		} else if cat, err := vBuildCatalogue("project-caller", vProjectCaller); err != nil {
			r.HarnessError("%v", err)
		} else {
			seeds = append(seeds, &c03Seed{name: "project-caller", cat: cat, lint: pl})
		}
	}
	// every spelling of a step's `uses:` x the inputs named like the image overrides (entrypoint,
	// args, in both letter cases) next to an ordinary input
	{
		var b strings.Builder
		b.WriteString("on: push\njobs:\n  a:\n    runs-on: ubuntu-latest\n    steps:\n")
		for _, u := range []string{"some-owner/docker-act@v1", "./.github/actions/my-dock", "docker://alpine:3", "some-owner/repo/sub/dir@v1", "Some-Owner/Docker-Act@0123456789abcdef0123456789abcdef01234567"} {
			b.WriteString("      - uses: " + u + "\n        with:\n          entrypoint: /bin/sh\n          args: -c x\n          other: o\n")
			b.WriteString("      - uses: " + u + "\n        with:\n          Args: -c x\n          other: o\n          ENTRYPOINT: /bin/sh\n")
		}
		src := b.String()
		if res := vLint(src, nil); res.Err != nil || res.Panic != "" || len(res.Errs) > 0 {
			r.HarnessError("the uses-forms seed does not lint clean: %v %v %s", vDiagStrings(res.Errs), res.Err, vTrunc(res.Panic, 200))
		} else if cat, err := vBuildCatalogue("uses-forms", src); err != nil {
			r.HarnessError("%v", err)
		} else {
			seeds = append(seeds, &c03Seed{name: "uses-forms", cat: cat})
		}
	}
	var idx int64
	pathsSeen := map[string]bool{}
	for _, sd := range seeds {
		for _, p := range sd.cat.Scalars {
			if sd.onlyPath != "" && !(p.Path == sd.onlyPath || strings.HasPrefix(p.Path, sd.onlyPath+".") || strings.HasPrefix(p.Path, sd.onlyPath+"[")) {
				continue
			}
			if sd.direct {
				rest := strings.TrimPrefix(p.Path, sd.onlyPath)
				if strings.Count(rest, ".")+strings.Count(rest, "[") != 1 {
					continue
				}
			}
			pathsSeen[p.NPath] = true
			for pl := range c03Payloads {
				idx++
				if !r.Mine(idx) {
					continue
				}
				if idx%512 == 0 && r.Expired() {
					return
				}
				r.Begin(func() string { return fmt.Sprintf("%s %s payload %d", sd.name, p.Path, pl) })
				c03Check(r, sd, []*vPos{p}, pl)
				if idx%1777 == 0 {
					r.Sample(map[string]any{"seed": sd.name, "position": p.Path, "schema_path": p.NPath, "line": p.Line, "col": p.Col, "payload": c03Payloads[pl].text})
				}
			}
		}
	}
	r.Extra["distinct_schema_paths"] = len(pathsSeen)
	// the repository's own clean workflows (shapes nobody chose for this purpose): every locatable
	// scalar value replaced by a malformed placeholder is reported at that scalar
	repo := os.Getenv("VERIF_REPO")
	if repo == "" {
		repo = "/repo"
	}
	corpus := vCorpusCatalogues(repo, true)
	r.Bounds["corpus_workflows"] = len(corpus)
	if len(corpus) < 40 {
		r.HarnessError("corpus of workflows too small: %d", len(corpus))
	}
	text := c03Quote(c03Payloads[0].text)
	baseDiags := map[string]map[string]bool{}
	for _, c := range corpus {
		for _, p := range c.Scalars {
			idx++
			if !r.Mine(idx) {
				continue
			}
			if idx%512 == 0 && r.Expired() {
				return
			}
			base, ok := baseDiags[c.Seed]
			if !ok {
				base = map[string]bool{}
				for _, d := range vDiags(vLint(c.Src, nil).Errs) {
					base[fmt.Sprintf("%d:%d:%s", d.Line, d.Col, d.Msg)] = true
				}
				baseDiags[c.Seed] = base
			}
			src := c.Replace(p, text)
			r.Begin(func() string { return fmt.Sprintf("%s %s", c.Seed, p.Path) })
			res := vLint(src, nil)
			r.Evaluations++
			r.Transitions++
			r.Validated++
			replay := map[string]any{"seed": c.Seed, "paths": []string{p.Path}, "payload": 0, "src": src, "spans": [][]any{{p.Line, p.Col, p.Col + len(text) - 1, true, p.NPath}}}
			if res.Panic != "" || res.Err != nil {
				r.Violation("failure", fmt.Sprintf("%s %s: panic=%q err=%v", c.Seed, p.Path, vTrunc(res.Panic, 300), res.Err), replay)
				continue
			}
			found := false
			for _, d := range vDiags(res.Errs) {
				// a diagnostic the unchanged file already has at this place does not count
				if d.Line == p.Line && d.Col >= p.Col && d.Col <= p.Col+len(text)-1 && !base[fmt.Sprintf("%d:%d:%s", d.Line, d.Col, d.Msg)] {
					found = true
				}
			}
			if !found {
				r.Violation("corpus-unchecked:"+p.NPath, fmt.Sprintf("%s: placeholder %s at %s (line %d col %d) is not reported at all; diagnostics: %v", c.Seed, c03Payloads[0].text, p.Path, p.Line, p.Col, vTrunc(fmt.Sprint(vDiagStrings(res.Errs)), 300)), replay)
			}
			r.Class("corpus position", true)
		}
	}
	if !vThorough() {
		return
	}
	// two simultaneous mutations among the scalar descendants of one mapping (maximal seeds only)
	for _, c := range cats {
		sd := &c03Seed{name: c.Seed, cat: c}
		for _, m := range c.Mappings {
			var kids []*vPos
			for _, s := range c.Scalars {
				if strings.HasPrefix(s.Path, m.Path) && s.Line >= m.Line && s.Line <= m.EndLine && (m.Path == "" || strings.HasPrefix(s.Path, m.Path+".") || strings.HasPrefix(s.Path, m.Path+"[")) {
					// direct children (scalar values of this mapping's keys, or elements of their sequences)
					rest := strings.TrimPrefix(strings.TrimPrefix(s.Path, m.Path), ".")
					if !strings.Contains(rest, ".") {
						kids = append(kids, s)
					}
				}
			}
			for i := 0; i < len(kids); i++ {
				for j := i + 1; j < len(kids); j++ {
					idx++
					if !r.Mine(idx) {
						continue
					}
					if idx%512 == 0 && r.Expired() {
						return
					}
					c03Check(r, sd, []*vPos{kids[i], kids[j]}, int(idx)%len(c03Payloads))
				}
			}
		}
	}
}
