//go:build go1.23

package actionlint

// Common part of the verification harness (overlaid into package actionlint as a _test.go file).

import (
	"bytes"
	"encoding/json"
	"fmt"
	"os"
	"path/filepath"
	"runtime/debug"
	"sort"
	"strconv"
	"strings"
	"sync/atomic"
	"testing"
	"time"

	"github.com/fatih/color"
)

type vViolation struct {
	Key    string `json:"key"`
	Msg    string `json:"msg"`
	Replay any    `json:"replay"`
	Count  int64  `json:"count"`
}

// vReport is what one shard of one check writes; vcheck merges the shards.
type vReport struct {
	Property      string           `json:"property"`
	Tier          string           `json:"tier"`
	Shard         int              `json:"shard"`
	NShards       int              `json:"nshards"`
	Evaluations   int64            `json:"evaluations"`
	Transitions   int64            `json:"transitions"`
	Validated     int64            `json:"validated"`
	Classes       map[string]int64 `json:"classes"`
	Nontrivial    map[string]bool  `json:"nontrivial"`
	Violations    []*vViolation    `json:"violations"`
	Samples       []any            `json:"samples"`
	Exhaustive    bool             `json:"exhaustive"`
	Caps          []string         `json:"caps"`
	Bounds        map[string]any   `json:"bounds"`
	HarnessErrors []string         `json:"harness_errors"`
	Extra         map[string]any   `json:"extra"`
	WallS         float64          `json:"wall_s"`
	vkeys         map[string]*vViolation
	start         time.Time
	deadline      time.Time
	current       atomic.Pointer[func() string]
	t             *testing.T
}

// Begin announces the case about to run (cheap: one pointer store). A watchdog goroutine copies
// its description to <VERIF_OUT>.progress a few times per second, so that an unrecoverable crash
// (stack overflow, runtime fatal error) can be attributed by vcheck, and turns a case that runs
// longer than vHangLimit into a "hang" violation.
func (r *vReport) Begin(desc func() string) { r.current.Store(&desc) }

var vHangLimit = 120 * time.Second

func (r *vReport) watchdog() {
	out := os.Getenv("VERIF_OUT")
	if out == "" {
		return
	}
	go func() {
		var last *func() string
		var since time.Time
		for {
			time.Sleep(200 * time.Millisecond)
			p := r.current.Load()
			if p == nil {
				continue
			}
			if p != last {
				last, since = p, time.Now()
				os.WriteFile(out+".progress", []byte((*p)()), 0o644)
				continue
			}
			if time.Since(since) > vHangLimit {
				d := (*p)()
				// confirm: the limit is 4+ orders of magnitude above a normal case
				r.Violation("hang", fmt.Sprintf("case did not finish within %v: %s", vHangLimit, d), map[string]any{"case": d})
				r.Exhaustive = false
				r.Caps = append(r.Caps, "aborted on hang")
				r.WallS = time.Since(r.start).Seconds()
				b, _ := json.MarshalIndent(r, "", " ")
				os.WriteFile(out, b, 0o644)
				os.Exit(0)
			}
		}
	}()
}

var vTier = func() string {
	if t := os.Getenv("VERIF_TIER"); t != "" {
		return t
	}
	return "quick"
}()

func vThorough() bool { return vTier == "thorough" }

func vEnvInt(name string, def int) int {
	if s := os.Getenv(name); s != "" {
		if n, err := strconv.Atoi(s); err == nil {
			return n
		}
	}
	return def
}

func vNewReport(prop string) *vReport {
	color.NoColor = true
	r := &vReport{
		Property: prop, Tier: vTier, Shard: vEnvInt("VERIF_SHARD", 0), NShards: vEnvInt("VERIF_NSHARDS", 1),
		Classes: map[string]int64{}, Nontrivial: map[string]bool{}, Exhaustive: true,
		Bounds: map[string]any{}, Extra: map[string]any{}, vkeys: map[string]*vViolation{}, start: time.Now(),
	}
	if s := vEnvInt("VERIF_DEADLINE_S", 0); s > 0 {
		r.deadline = r.start.Add(time.Duration(s) * time.Second)
	}
	debug.SetMaxStack(256 << 20)
	r.watchdog()
	return r
}

// Mine says whether enumeration index i belongs to this shard.
func (r *vReport) Mine(i int64) bool { return r.NShards <= 1 || int(i%int64(r.NShards)) == r.Shard }

// Expired reports (and records) that the internal deadline was reached.
func (r *vReport) Expired() bool {
	if r.deadline.IsZero() || time.Now().Before(r.deadline) {
		return false
	}
	if r.Exhaustive {
		r.Exhaustive = false
		r.Caps = append(r.Caps, "internal deadline reached")
	}
	return true
}

func (r *vReport) Class(key string, nontrivial bool) {
	r.Classes[key]++
	if nontrivial {
		r.Nontrivial[key] = true
	}
}

func (r *vReport) Violation(key, msg string, replay any) {
	if v, ok := r.vkeys[key]; ok {
		v.Count++
		return
	}
	v := &vViolation{Key: key, Msg: msg, Replay: replay, Count: 1}
	r.vkeys[key] = v
	r.Violations = append(r.Violations, v)
}

func (r *vReport) Sample(s any) {
	if len(r.Samples) < 8 {
		r.Samples = append(r.Samples, s)
	}
}

func (r *vReport) HarnessError(format string, args ...any) {
	if len(r.HarnessErrors) < 20 {
		r.HarnessErrors = append(r.HarnessErrors, fmt.Sprintf(format, args...))
	}
}

func (r *vReport) Write(t *testing.T) {
	r.WallS = time.Since(r.start).Seconds()
	out := os.Getenv("VERIF_OUT")
	b, err := json.MarshalIndent(r, "", " ")
	if err != nil {
		t.Fatal(err)
	}
	if out == "" {
		// interactive use: print a summary
		fmt.Printf("property=%s evals=%d transitions=%d classes=%d violations=%d exhaustive=%v harness_errors=%v\n", r.Property, r.Evaluations, r.Transitions, len(r.Classes), len(r.Violations), r.Exhaustive, r.HarnessErrors)
		for _, v := range r.Violations {
			fmt.Printf("  VIOL key=%s n=%d %s\n", v.Key, v.Count, v.Msg)
		}
		return
	}
	if err := os.WriteFile(out, b, 0o644); err != nil {
		t.Fatal(err)
	}
}

// vReplayInput returns the replay payload when the check is run in replay mode.
func vReplayInput() json.RawMessage {
	p := os.Getenv("VERIF_REPLAY")
	if p == "" {
		return nil
	}
	b, err := os.ReadFile(p)
	if err != nil {
		panic(err)
	}
	var f struct {
		Replay json.RawMessage `json:"replay"`
	}
	if err := json.Unmarshal(b, &f); err != nil {
		panic(err)
	}
	return f.Replay
}

// ---------------------------------------------------------------------------------------------
// lint helpers

type vDiag struct {
	Line, Col int
	Kind, Msg string
}

func (d vDiag) String() string { return fmt.Sprintf("%d:%d [%s] %s", d.Line, d.Col, d.Kind, d.Msg) }

func vDiags(errs []*Error) []vDiag {
	ds := make([]vDiag, len(errs))
	for i, e := range errs {
		ds[i] = vDiag{e.Line, e.Column, e.Kind, e.Message}
	}
	return ds
}

func vDiagStrings(errs []*Error) []string {
	ss := make([]string, len(errs))
	for i, e := range errs {
		ss[i] = vDiag{e.Line, e.Column, e.Kind, e.Message}.String()
	}
	return ss
}

type vLintResult struct {
	Errs  []*Error
	Err   error
	Out   string
	Panic string
}

// vLint lints src as an in-memory file (no project) with a fresh Linter, recovering panics.
func vLint(src string, opts *LinterOptions) (res vLintResult) {
	return vLintAt("<stdin>", src, opts, nil)
}

func vLintAt(path, src string, opts *LinterOptions, proj *Project) (res vLintResult) {
	defer func() {
		if r := recover(); r != nil {
			res.Panic = fmt.Sprintf("%v\n%s", r, debug.Stack())
		}
	}()
	var o LinterOptions
	if opts != nil {
		o = *opts
	}
	if o.WorkingDir == "" {
		o.WorkingDir = "/"
	}
	var out bytes.Buffer
	l, err := NewLinter(&out, &o)
	if err != nil {
		res.Err = err
		return
	}
	res.Errs, res.Err = l.Lint(path, []byte(src), proj)
	res.Out = out.String()
	return
}

func vSortedKeys[V any](m map[string]V) []string {
	ks := make([]string, 0, len(m))
	for k := range m {
		ks = append(ks, k)
	}
	sort.Strings(ks)
	return ks
}

// vTempDir makes a scratch directory under VERIF_WORK (set by vcheck) or the OS temp dir.
func vTempDir(t testing.TB, name string) string {
	base := os.Getenv("VERIF_WORK")
	if base == "" {
		return t.TempDir()
	}
	d, err := os.MkdirTemp(base, name)
	if err != nil {
		t.Fatal(err)
	}
	return d
}

func vWriteFiles(t testing.TB, root string, files map[string]string) {
	for _, p := range vSortedKeys(files) {
		full := filepath.Join(root, p)
		if err := os.MkdirAll(filepath.Dir(full), 0o755); err != nil {
			t.Fatal(err)
		}
		if err := os.WriteFile(full, []byte(files[p]), 0o644); err != nil {
			t.Fatal(err)
		}
	}
}

func vTrunc(s string, n int) string {
	if len(s) <= n {
		return s
	}
	return s[:n] + "…"
}

var _ = strings.Join

type vSite struct {
	ID   int    `json:"id"`
	File string `json:"file"`
	Line int    `json:"line"`
	Key  string `json:"key_type"`
	Expr string `json:"expr"`
}

// vLoadSites reads the list of rewritten range-over-map sites produced by the overlay generator.
func vLoadSites() []vSite {
	p := os.Getenv("VERIF_SITES")
	if p == "" {
		return nil
	}
	b, err := os.ReadFile(p)
	if err != nil {
		panic(err)
	}
	var ss []vSite
	if err := json.Unmarshal(b, &ss); err != nil {
		panic(err)
	}
	return ss
}

func jsonUnmarshal(b []byte, v any) error { return json.Unmarshal(b, v) }

// vInt reads an int from a replay payload value (int before, float64 after a JSON round trip).
func vInt(v any) int {
	switch x := v.(type) {
	case int:
		return x
	case float64:
		return int(x)
	}
	return 0
}

func vStack() string { return string(debug.Stack()) }

// c10Diff lists the elements of a that are not in b (multiset difference).
func c10Diff(a, b []string) []string {
	in := map[string]int{}
	for _, s := range b {
		in[s]++
	}
	var out []string
	for _, s := range a {
		if in[s] > 0 {
			in[s]--
			continue
		}
		out = append(out, vTrunc(s, 220))
	}
	if len(out) == 0 {
		return []string{"(nothing extra; order differs)"}
	}
	return out
}
