//go:build go1.23

package actionlint

// Workflow schema model and position catalogue (Engine B, B1).
//
// The seeds are clean workflows that together populate every key of every section of the workflow
// syntax (DESIGN appendix C), written with one-line scalars so that a node's source span is
// (line, column, length). The catalogue lists every scalar value, every key and every mapping of a
// seed together with its schema path; the schema table below (written from the GitHub
// documentation, not from parse.go) says what each position is.

import (
	"fmt"
	"os"
	"path/filepath"
	"regexp"
	"sort"
	"strings"

	"gopkg.in/yaml.v3"
)

var vSeeds = map[string]string{
	"seed-a": `name: seed workflow
run-name: run ${{ github.actor }}
on:
  push:
    branches: [main]
    tags: [v1]
    paths: [src]
  pull_request:
    types: [opened]
    branches-ignore: [dev]
    paths-ignore: [docs]
  workflow_run:
    workflows: [build]
    types: [completed]
    branches: [trunk]
  schedule:
    - cron: '0 0 * * *'
  workflow_dispatch:
    inputs:
      din:
        description: dispatch input
        required: true
        default: x
        type: choice
        options: [x, y]
  repository_dispatch:
    types: [custom]
  workflow_call:
    inputs:
      cin:
        description: call input
        required: false
        default: dflt
        type: string
    secrets:
      csec:
        description: call secret
        required: true
    outputs:
      cout:
        description: call output
        value: ${{ jobs.build.outputs.jout }}
permissions:
  contents: read
env:
  WENV: wv
defaults:
  run:
    shell: bash
    working-directory: wdir
concurrency:
  group: wgroup
  cancel-in-progress: true
jobs:
  build:
    name: build job
    needs: [prep]
    runs-on:
      group: rgroup
      labels: [ubuntu-latest]
    permissions:
      contents: read
    environment:
      name: prod
      url: https://example.com
    concurrency:
      group: jgroup
      cancel-in-progress: false
    outputs:
      jout: ${{ steps.s1.outputs.o }}
    env:
      JENV: jv
    defaults:
      run:
        shell: bash
        working-directory: jdir
    if: true
    timeout-minutes: 10
    strategy:
      matrix:
        os: [a, b]
        include:
          - os: a
            extra: e
        exclude:
          - os: b
      fail-fast: true
      max-parallel: 2
    continue-on-error: false
    container:
      image: img
      credentials:
        username: cuser
        password: ${{ secrets.csec }}
      env:
        CENV: cv
      ports: [80]
      volumes: [va:vb]
      options: --cpus 1
    services:
      db:
        image: pg
        credentials:
          username: suser
          password: ${{ secrets.csec }}
        env:
          SENV: sv
        ports: [5432]
        volumes: [vc:vd]
        options: --cpus 2
    steps:
      - id: s1
        if: true
        name: run step
        env:
          SE: sev
        continue-on-error: false
        timeout-minutes: 5
        run: echo
        working-directory: swd
        shell: bash
      - id: s2
        name: action step
        uses: actions/checkout@v4
        with:
          ref: main
      - uses: docker://alpine:3
        with:
          entrypoint: /bin/sh
          args: -c x
      - uses: actions/github-script@v7
        with:
          github-token: tok
          script: return 1
          retries: 1
  prep:
    runs-on: ubuntu-latest
    steps:
      - run: echo
`,
	"seed-b": `on: [push, pull_request]
permissions: read-all
concurrency: wgroup
jobs:
  first:
    runs-on: [self-hosted, linux]
    environment: prod
    container: img
    strategy:
      matrix:
        os: ${{ fromJSON('["a"]') }}
        include: ${{ fromJSON('[]') }}
        exclude:
          - ${{ fromJSON('{}') }}
    steps:
      - run: echo
  second:
    needs: first
    runs-on: ubuntu-latest
    strategy:
      matrix: ${{ fromJSON('{}') }}
    steps:
      - run: echo
  call1:
    needs: [first, second]
    concurrency:
      group: c1group
      cancel-in-progress: true
    strategy:
      fail-fast: false
      max-parallel: 3
      matrix:
        w: [1, 2]
    uses: owner/repo/.github/workflows/w.yml@v1
    with:
      win: wv
    secrets:
      wsec: ${{ secrets.S }}
  call2:
    name: caller two
    if: true
    permissions:
      contents: read
    concurrency: cgroup
    strategy:
      fail-fast: true
      max-parallel: 2
      matrix:
        v: [1]
        include:
          - ${{ fromJSON(vars.INC) }}
          - v: 3
    uses: owner/repo/.github/workflows/w.yml@v1
    secrets: inherit
`,
	"seed-c": `on:
  push:
    branches-ignore: [dev]
    tags-ignore: [rc]
    paths-ignore: [docs]
jobs:
  only:
    runs-on:
      labels: ubuntu-latest
    steps:
      - run: echo
`,
	// alternative forms: scalar instead of sequence, env / services given by one expression,
	// nested matrix values, every workflow_dispatch input type, two schedule elements
	"seed-e": `on:
  pull_request:
    types: opened
    branches: main
  schedule:
    - cron: '0 0 * * *'
    - cron: '5 4 * * 0'
  workflow_dispatch:
    inputs:
      b:
        type: boolean
        default: true
      n:
        type: number
        default: 1
      e:
        type: environment
      s:
        type: string
env: ${{ fromJSON('{}') }}
jobs:
  only:
    runs-on: ubuntu-latest
    env: ${{ fromJSON('{}') }}
    strategy:
      matrix:
        os: [[a, b, c], {k: [v, w, x]}]
        include:
          - os: [d, e, f]
            nested: {x: {y: z}}
        exclude:
          - os: [a, b, c]
          - nested: {x: {y: z}}
            os: [d, e, f]
    container:
      image: img
      env: ${{ fromJSON('{}') }}
    services: ${{ fromJSON('{}') }}
    steps:
      - run: echo
        env: ${{ fromJSON('{}') }}
  svc:
    runs-on: ubuntu-latest
    services:
      db:
        image: pg
        env: ${{ fromJSON('{}') }}
    steps:
      - run: echo
`,
	"seed-d": `on: push
jobs:
  only:
    runs-on: ubuntu-latest
    needs: other
    steps:
      - uses: actions/checkout@v4
  other:
    runs-on: ubuntu-latest
    steps:
      - run: echo
`,
}

// vPos is one catalogued position of a seed.
type vPos struct {
	Seed   string
	Path   string // raw path, e.g. jobs.build.steps[0].with.ref
	NPath  string // normalised schema path, e.g. jobs.*.steps[].with.*
	Line   int
	Col    int
	Len    int    // length of the source text of the node (quotes included)
	Value  string // decoded value
	IsKey  bool
	Quoted bool
	// for mapping entries
	IsMapping bool
	Flow      bool    // mappings: written in flow style
	KeyLine   int     // for a key/mapping: line of the key that introduces it (0 for the root)
	EndLine   int     // last line of the subtree introduced by this key (keys only)
	Indent    int     // column of the keys of this mapping (mappings only)
	Keys      []*vPos // keys of this mapping in order (mappings only)
	Parent    *vPos   // enclosing mapping (keys, scalar values that are direct mapping values)
}

func (p *vPos) String() string {
	return fmt.Sprintf("%s:%s@%d:%d", p.Seed, p.Path, p.Line, p.Col)
}

type vCatalogue struct {
	Seed     string
	Src      string
	Lines    []string
	Scalars  []*vPos // scalar values (mapping values and sequence elements)
	Keys     []*vPos
	Mappings []*vPos
}

var vWebhookish = map[string]bool{"schedule": true, "workflow_dispatch": true, "repository_dispatch": true, "workflow_call": true}

// vNormalize maps a raw path to its schema path.
func vNormalize(segs []string) string {
	out := make([]string, 0, len(segs))
	for i := 0; i < len(segs); i++ {
		s := segs[i]
		prev, prev2 := "", ""
		if len(out) > 0 {
			prev = out[len(out)-1]
		}
		if len(out) > 1 {
			prev2 = out[len(out)-2]
		}
		switch {
		case s == "[]":
			out = append(out, s)
		case prev == "on" && len(out) == 1 && !vWebhookish[s]:
			out = append(out, "<webhook>")
		case prev == "jobs" && len(out) == 1:
			out = append(out, "*")
		case (prev == "inputs" || prev == "secrets" || prev == "outputs") && len(out) >= 2 && (prev2 == "workflow_dispatch" || prev2 == "workflow_call"):
			out = append(out, "*")
		case prev == "permissions" || prev == "env" || prev == "with" || prev == "services":
			out = append(out, "*")
		case (prev == "outputs" || prev == "secrets") && len(out) == 3 && out[0] == "jobs":
			out = append(out, "*")
		case prev == "matrix" && s != "include" && s != "exclude":
			out = append(out, "*")
		case prev == "[]" && (prev2 == "include" || prev2 == "exclude"):
			out = append(out, "*")
		default:
			out = append(out, s)
		}
	}
	return strings.ReplaceAll(strings.Join(out, "."), ".[]", "[]")
}

func vBuildCatalogue(seed, src string) (*vCatalogue, error) {
	return vBuildCatalogueMode(seed, src, false)
}

// vBuildCatalogueMode with lenient=true skips the scalars whose source span cannot be located
// (block scalars, multi-line or escaped quoted scalars, keys written in a non-verbatim form)
// instead of failing: used for the repository's own workflows, which nobody wrote for this purpose.
func vBuildCatalogueMode(seed, src string, lenient bool) (*vCatalogue, error) {
	var doc yaml.Node
	if err := yaml.Unmarshal([]byte(src), &doc); err != nil {
		return nil, err
	}
	c := &vCatalogue{Seed: seed, Src: src, Lines: strings.Split(src, "\n")}
	if len(doc.Content) != 1 {
		return nil, fmt.Errorf("seed %s: not a single document", seed)
	}
	var walk func(n *yaml.Node, segs []string, parent *vPos, keyLine int) (endLine int, err error)
	span := func(n *yaml.Node) (int, bool, error) {
		line := c.Lines[n.Line-1]
		rest := line[n.Column-1:]
		if n.Style&(yaml.SingleQuotedStyle|yaml.DoubleQuotedStyle) != 0 {
			q := rest[0]
			j := strings.IndexByte(rest[1:], q)
			if j < 0 {
				return 0, false, fmt.Errorf("seed %s line %d: multi-line quoted scalar", seed, n.Line)
			}
			return j + 2, true, nil
		}
		if !strings.HasPrefix(rest, n.Value) {
			return 0, false, fmt.Errorf("seed %s line %d col %d: plain scalar %q is not written verbatim", seed, n.Line, n.Column, n.Value)
		}
		return len(n.Value), false, nil
	}
	walk = func(n *yaml.Node, segs []string, parent *vPos, keyLine int) (int, error) {
		path := strings.ReplaceAll(strings.Join(segs, "."), ".[", "[")
		switch n.Kind {
		case yaml.ScalarNode:
			if n.Anchor != "" {
				return n.Line, nil // anchored scalars are not catalogued (their source span starts at the anchor)
			}
			l, q, err := span(n)
			if err != nil {
				if lenient {
					return n.Line, nil
				}
				return 0, err
			}
			if lenient && (l == 0 || n.Style&(yaml.LiteralStyle|yaml.FoldedStyle) != 0 || n.Tag == "!!merge" || (q && strings.ContainsAny(n.Value, "\\'\""))) {
				return n.Line + strings.Count(n.Value, "\n"), nil
			}
			p := &vPos{Seed: seed, Path: path, NPath: vNormalize(vGeneric(segs)), Line: n.Line, Col: n.Column, Len: l, Value: n.Value, Quoted: q, KeyLine: keyLine, Parent: parent}
			c.Scalars = append(c.Scalars, p)
			return n.Line, nil
		case yaml.AliasNode:
			return n.Line, nil
		case yaml.SequenceNode:
			end := n.Line
			for i, e := range n.Content {
				el, err := walk(e, append(append([]string{}, segs...), fmt.Sprintf("[%d]", i)), nil, keyLine)
				if err != nil {
					return 0, err
				}
				if el > end {
					end = el
				}
			}
			return end, nil
		case yaml.MappingNode:
			m := &vPos{Seed: seed, Path: path, NPath: vNormalize(vGeneric(segs)), Line: n.Line, Col: n.Column, IsMapping: true, Flow: n.Style&yaml.FlowStyle != 0, KeyLine: keyLine, Indent: n.Column, Parent: parent}
			c.Mappings = append(c.Mappings, m)
			end := n.Line
			for i := 0; i+1 < len(n.Content); i += 2 {
				k, v := n.Content[i], n.Content[i+1]
				kl, _, err := span(k)
				if err != nil {
					if !lenient {
						return 0, err
					}
					kl = -1
				}
				ksegs := append(append([]string{}, segs...), strings.ToLower(k.Value))
				kp := &vPos{Seed: seed, Path: strings.ReplaceAll(strings.Join(ksegs, "."), ".[", "["), NPath: vNormalize(vGeneric(ksegs)), Line: k.Line, Col: k.Column, Len: kl, Value: k.Value, IsKey: true, KeyLine: k.Line, Parent: m}
				if kl >= 0 {
					c.Keys = append(c.Keys, kp)
				}
				m.Keys = append(m.Keys, kp)
				el, err := walk(v, ksegs, m, k.Line)
				if err != nil {
					return 0, err
				}
				if el < k.Line {
					el = k.Line
				}
				kp.EndLine = el
				if el > end {
					end = el
				}
			}
			m.EndLine = end
			return end, nil
		}
		return 0, fmt.Errorf("seed %s: unexpected node kind %d at %s", seed, n.Kind, path)
	}
	if _, err := walk(doc.Content[0], nil, nil, 0); err != nil {
		return nil, err
	}
	return c, nil
}

// vGeneric replaces sequence indices by [].
func vGeneric(segs []string) []string {
	out := make([]string, len(segs))
	for i, s := range segs {
		if strings.HasPrefix(s, "[") {
			out[i] = "[]"
		} else {
			out[i] = s
		}
	}
	return out
}

// Replace returns the seed text with the source span of p replaced by text.
func (c *vCatalogue) Replace(p *vPos, text string) string {
	lines := append([]string{}, c.Lines...)
	l := lines[p.Line-1]
	lines[p.Line-1] = l[:p.Col-1] + text + l[p.Col-1+p.Len:]
	return strings.Join(lines, "\n")
}

// DeleteKeys returns the seed text without the line spans of the given keys (block style only).
func (c *vCatalogue) DeleteKeys(keys []*vPos) string {
	drop := map[int]bool{}
	for _, k := range keys {
		for l := k.Line; l <= k.EndLine; l++ {
			drop[l] = true
		}
	}
	var out []string
	for i, l := range c.Lines {
		if !drop[i+1] {
			out = append(out, l)
		}
	}
	return strings.Join(out, "\n")
}

// InsertLinesAfter returns the seed text with extra lines inserted after the given 1-based line
// (0 = at the top).
func (c *vCatalogue) InsertLinesAfter(line int, extra []string) string {
	var out []string
	out = append(out, c.Lines[:line]...)
	out = append(out, extra...)
	out = append(out, c.Lines[line:]...)
	return strings.Join(out, "\n")
}

// vAllCatalogues builds the catalogues of all seeds (sorted by name) and asserts that each seed
// lints clean.
func vAllCatalogues() ([]*vCatalogue, error) {
	var cs []*vCatalogue
	for _, name := range vSortedKeys(vSeeds) {
		c, err := vBuildCatalogue(name, vSeeds[name])
		if err != nil {
			return nil, err
		}
		res := vLint(c.Src, nil)
		if res.Panic != "" || res.Err != nil || len(res.Errs) > 0 {
			return nil, fmt.Errorf("seed %s does not lint clean: %v %v %s", name, vDiagStrings(res.Errs), res.Err, vTrunc(res.Panic, 300))
		}
		cs = append(cs, c)
	}
	return cs, nil
}

// ---------------------------------------------------------------------------------------------
// schema table (DESIGN appendices C and E)

type vScalarSchema struct {
	Exempt bool   // event names, input type, permissions values, secrets: inherit
	Avail  string // availability key; "" = no context allowed
}

var vCtxAll = []string{"env", "github", "inputs", "job", "jobs", "matrix", "needs", "runner", "secrets", "steps", "strategy", "vars"}
var vSpecialFuncs = []string{"always", "cancelled", "failure", "success", "hashFiles"}

// vAvailability transcribes GitHub's context availability table (appendix E): key -> contexts, special functions.
var vAvailability = map[string][2][]string{
	"run-name":                                         {{"github", "inputs", "vars"}, nil},
	"concurrency":                                      {{"github", "inputs", "vars"}, nil},
	"env":                                              {{"github", "secrets", "inputs", "vars"}, nil},
	"jobs.<job_id>.concurrency":                        {{"github", "needs", "strategy", "matrix", "inputs", "vars"}, nil},
	"jobs.<job_id>.container":                          {{"github", "needs", "strategy", "matrix", "vars", "inputs"}, nil},
	"jobs.<job_id>.container.credentials":              {{"github", "needs", "strategy", "matrix", "env", "vars", "secrets", "inputs"}, nil},
	"jobs.<job_id>.container.env.<env_id>":             {{"github", "needs", "strategy", "matrix", "job", "runner", "env", "vars", "secrets", "inputs"}, nil},
	"jobs.<job_id>.container.image":                    {{"github", "needs", "strategy", "matrix", "vars", "inputs"}, nil},
	"jobs.<job_id>.continue-on-error":                  {{"github", "needs", "strategy", "vars", "matrix", "inputs"}, nil},
	"jobs.<job_id>.defaults.run":                       {{"github", "needs", "strategy", "matrix", "env", "vars", "inputs"}, nil},
	"jobs.<job_id>.env":                                {{"github", "needs", "strategy", "matrix", "vars", "secrets", "inputs"}, nil},
	"jobs.<job_id>.environment":                        {{"github", "needs", "strategy", "matrix", "vars", "inputs"}, nil},
	"jobs.<job_id>.environment.url":                    {{"github", "needs", "strategy", "matrix", "job", "runner", "env", "vars", "steps", "inputs"}, nil},
	"jobs.<job_id>.if":                                 {{"github", "needs", "vars", "inputs"}, {"always", "cancelled", "success", "failure"}},
	"jobs.<job_id>.name":                               {{"github", "needs", "strategy", "matrix", "vars", "inputs"}, nil},
	"jobs.<job_id>.outputs.<output_id>":                {{"github", "needs", "strategy", "matrix", "job", "runner", "env", "vars", "secrets", "steps", "inputs"}, nil},
	"jobs.<job_id>.runs-on":                            {{"github", "needs", "strategy", "matrix", "vars", "inputs"}, nil},
	"jobs.<job_id>.secrets.<secrets_id>":               {{"github", "needs", "strategy", "matrix", "secrets", "inputs", "vars"}, nil},
	"jobs.<job_id>.services":                           {{"github", "needs", "strategy", "matrix", "vars", "inputs"}, nil},
	"jobs.<job_id>.services.<service_id>.credentials":  {{"github", "needs", "strategy", "matrix", "env", "vars", "secrets", "inputs"}, nil},
	"jobs.<job_id>.services.<service_id>.env.<env_id>": {{"github", "needs", "strategy", "matrix", "job", "runner", "env", "vars", "secrets", "inputs"}, nil},
	"jobs.<job_id>.steps.continue-on-error":            {{"github", "needs", "strategy", "matrix", "job", "runner", "env", "vars", "secrets", "steps", "inputs"}, {"hashFiles"}},
	"jobs.<job_id>.steps.env":                          {{"github", "needs", "strategy", "matrix", "job", "runner", "env", "vars", "secrets", "steps", "inputs"}, {"hashFiles"}},
	"jobs.<job_id>.steps.if":                           {{"github", "needs", "strategy", "matrix", "job", "runner", "env", "vars", "steps", "inputs"}, {"always", "cancelled", "success", "failure", "hashFiles"}},
	"jobs.<job_id>.steps.name":                         {{"github", "needs", "strategy", "matrix", "job", "runner", "env", "vars", "secrets", "steps", "inputs"}, {"hashFiles"}},
	"jobs.<job_id>.steps.run":                          {{"github", "needs", "strategy", "matrix", "job", "runner", "env", "vars", "secrets", "steps", "inputs"}, {"hashFiles"}},
	"jobs.<job_id>.steps.timeout-minutes":              {{"github", "needs", "strategy", "matrix", "job", "runner", "env", "vars", "secrets", "steps", "inputs"}, {"hashFiles"}},
	"jobs.<job_id>.steps.with":                         {{"github", "needs", "strategy", "matrix", "job", "runner", "env", "vars", "secrets", "steps", "inputs"}, {"hashFiles"}},
	"jobs.<job_id>.steps.working-directory":            {{"github", "needs", "strategy", "matrix", "job", "runner", "env", "vars", "secrets", "steps", "inputs"}, {"hashFiles"}},
	"jobs.<job_id>.strategy":                           {{"github", "needs", "vars", "inputs"}, nil},
	"jobs.<job_id>.timeout-minutes":                    {{"github", "needs", "strategy", "matrix", "vars", "inputs"}, nil},
	"jobs.<job_id>.with.<with_id>":                     {{"github", "needs", "strategy", "matrix", "inputs", "vars"}, nil},
	"on.workflow_call.inputs.<inputs_id>.default":      {{"github", "inputs", "vars"}, nil},
	"on.workflow_call.outputs.<output_id>.value":       {{"github", "jobs", "vars", "inputs"}, nil},
}

// vSchemaOf classifies a scalar value position by its normalised path. ok=false means the path is
// not in the schema (harness error: the seeds and the schema must agree).
func vSchemaOf(np string) (vScalarSchema, bool) {
	ex := func() (vScalarSchema, bool) { return vScalarSchema{Exempt: true}, true }
	t := func(avail string) (vScalarSchema, bool) { return vScalarSchema{Avail: avail}, true }
	j := "jobs.*."
	switch {
	case np == "name":
		return t("")
	case np == "run-name":
		return t("run-name")
	case np == "on" || np == "on[]":
		return ex()
	case strings.HasPrefix(np, "on.<webhook>."), np == "on.schedule[].cron", strings.HasPrefix(np, "on.repository_dispatch."):
		return t("")
	case strings.HasPrefix(np, "on.workflow_dispatch.inputs.*."):
		if strings.HasSuffix(np, ".type") {
			return ex()
		}
		return t("")
	case strings.HasPrefix(np, "on.workflow_call.inputs.*."):
		if strings.HasSuffix(np, ".type") {
			return ex()
		}
		if strings.HasSuffix(np, ".default") {
			return t("on.workflow_call.inputs.<inputs_id>.default")
		}
		return t("")
	case strings.HasPrefix(np, "on.workflow_call.secrets.*."):
		return t("")
	case strings.HasPrefix(np, "on.workflow_call.outputs.*."):
		if strings.HasSuffix(np, ".value") {
			return t("on.workflow_call.outputs.<output_id>.value")
		}
		return t("")
	case np == "permissions" || np == "permissions.*" || np == j+"permissions" || np == j+"permissions.*":
		return ex()
	case np == "env.*" || np == "env":
		return t("env")
	case np == "defaults.run.shell" || np == "defaults.run.working-directory":
		return t("")
	case np == "concurrency" || np == "concurrency.group" || np == "concurrency.cancel-in-progress":
		return t("concurrency")
	case !strings.HasPrefix(np, j):
		return vScalarSchema{}, false
	}
	r := strings.TrimPrefix(np, j)
	jk := "jobs.<job_id>."
	switch {
	case r == "name":
		return t(jk + "name")
	case r == "needs" || r == "needs[]":
		return t("")
	case r == "runs-on" || r == "runs-on[]" || r == "runs-on.group" || r == "runs-on.labels" || r == "runs-on.labels[]":
		return t(jk + "runs-on")
	case r == "environment" || r == "environment.name":
		return t(jk + "environment")
	case r == "environment.url":
		return t(jk + "environment.url")
	case r == "concurrency" || r == "concurrency.group" || r == "concurrency.cancel-in-progress":
		return t(jk + "concurrency")
	case r == "outputs.*":
		return t(jk + "outputs.<output_id>")
	case r == "env.*" || r == "env":
		return t(jk + "env")
	case r == "defaults.run.shell" || r == "defaults.run.working-directory":
		return t(jk + "defaults.run")
	case r == "if":
		return t(jk + "if")
	case r == "timeout-minutes":
		return t(jk + "timeout-minutes")
	case strings.HasPrefix(r, "strategy"):
		return t(jk + "strategy")
	case r == "continue-on-error":
		return t(jk + "continue-on-error")
	case r == "container" || r == "container.image":
		return t(jk + "container.image")
	case r == "container.credentials.username" || r == "container.credentials.password":
		return t(jk + "container.credentials")
	case r == "container.env.*" || r == "container.env":
		return t(jk + "container.env.<env_id>")
	case r == "container.ports[]" || r == "container.volumes[]" || r == "container.options":
		return t(jk + "container")
	case r == "services.*.credentials.username" || r == "services.*.credentials.password":
		return t(jk + "services.<service_id>.credentials")
	case r == "services.*.env.*" || r == "services.*.env":
		return t(jk + "services.<service_id>.env.<env_id>")
	case strings.HasPrefix(r, "services.*.") || r == "services":
		return t(jk + "services")
	case r == "uses":
		return t("")
	case r == "with.*":
		return t(jk + "with.<with_id>")
	case r == "secrets":
		return ex()
	case r == "secrets.*":
		return t(jk + "secrets.<secrets_id>")
	case r == "steps[].id" || r == "steps[].uses" || r == "steps[].shell":
		return t("")
	case r == "steps[].if":
		return t(jk + "steps.if")
	case r == "steps[].name":
		return t(jk + "steps.name")
	case r == "steps[].env.*" || r == "steps[].env":
		return t(jk + "steps.env")
	case r == "steps[].continue-on-error":
		return t(jk + "steps.continue-on-error")
	case r == "steps[].timeout-minutes":
		return t(jk + "steps.timeout-minutes")
	case r == "steps[].with.*":
		return t(jk + "steps.with")
	case r == "steps[].run":
		return t(jk + "steps.run")
	case r == "steps[].working-directory":
		return t(jk + "steps.working-directory")
	}
	return vScalarSchema{}, false
}

type vMappingSchema struct {
	Closed    bool
	CI        bool     // keys compared case-insensitively
	Mandatory []string // mandatory keys
	AtItem    bool     // violations are reported at the sequence item instead of the key (schedule)
	Free      bool     // free-form value (nested matrix values): no key set fixed by the syntax, not claimed by C13
	Keys      []string // key set of a closed mapping (documentation)
}

// vMappingSchemaOf describes the mapping at normalised path np ("" = top level).
func vMappingSchemaOf(np string, keys []string) (vMappingSchema, bool) {
	has := func(k string) bool {
		for _, x := range keys {
			if strings.EqualFold(x, k) {
				return true
			}
		}
		return false
	}
	closed := func(mand ...string) (vMappingSchema, bool) {
		return vMappingSchema{Closed: true, Mandatory: mand}, true
	}
	open := func() (vMappingSchema, bool) { return vMappingSchema{CI: true}, true }
	switch np {
	case "":
		return closed("on", "jobs")
	case "on":
		return vMappingSchema{}, true // event names: unknown names are webhook names (events rule), not claimed here
	case "on.<webhook>", "on.repository_dispatch":
		return closed()
	case "on.schedule[]":
		return vMappingSchema{Closed: true, Mandatory: []string{"cron"}, AtItem: true}, true
	case "on.workflow_dispatch", "on.workflow_call":
		return closed()
	case "on.workflow_dispatch.inputs", "on.workflow_call.inputs", "on.workflow_call.secrets", "on.workflow_call.outputs":
		return open()
	case "on.workflow_dispatch.inputs.*":
		return closed()
	case "on.workflow_call.inputs.*":
		return closed("type")
	case "on.workflow_call.secrets.*":
		return closed()
	case "on.workflow_call.outputs.*":
		return closed("value")
	case "permissions", "jobs.*.permissions":
		return open()
	case "env", "jobs.*.env", "jobs.*.steps[].env", "jobs.*.container.env", "jobs.*.services.*.env":
		return open()
	case "defaults", "jobs.*.defaults":
		return closed("run")
	case "defaults.run", "jobs.*.defaults.run":
		return closed()
	case "concurrency", "jobs.*.concurrency":
		return closed("group")
	case "jobs":
		return open()
	case "jobs.*":
		if has("uses") {
			return closed("uses")
		}
		return closed("runs-on", "steps")
	case "jobs.*.runs-on":
		return closed()
	case "jobs.*.environment":
		return closed("name")
	case "jobs.*.outputs", "jobs.*.with", "jobs.*.secrets", "jobs.*.steps[].with", "jobs.*.services":
		return open()
	case "jobs.*.strategy":
		return closed()
	case "jobs.*.strategy.matrix", "jobs.*.strategy.matrix.include[]", "jobs.*.strategy.matrix.exclude[]":
		return open()
	case "jobs.*.container", "jobs.*.services.*":
		return closed()
	case "jobs.*.strategy.matrix.*[]", "jobs.*.strategy.matrix.*[].k", "jobs.*.strategy.matrix.include[].*", "jobs.*.strategy.matrix.include[].*.x", "jobs.*.strategy.matrix.exclude[].*", "jobs.*.strategy.matrix.exclude[].*.x":
		return vMappingSchema{Free: true}, true // nested matrix values are free-form
	case "jobs.*.container.credentials", "jobs.*.services.*.credentials":
		return closed("username", "password")
	case "jobs.*.steps[]":
		if has("uses") {
			return closed("uses")
		}
		return closed("run")
	}
	return vMappingSchema{}, false
}

func vSortedUnique(ss []string) []string {
	m := map[string]bool{}
	for _, s := range ss {
		m[s] = true
	}
	out := make([]string, 0, len(m))
	for s := range m {
		out = append(out, s)
	}
	sort.Strings(out)
	return out
}

// c04SyntaxReCopy is the message class of expression syntax errors (lexer and parser), shared by
// the catalogue-driven checks (kept here so that each check compiles without c04.go).
func c04SyntaxReCopy() *regexp.Regexp {
	return regexp.MustCompile(`^(got unexpected |unexpected EOF while lexing|unexpected token |unexpected end of input while parsing|parser did not reach end of input|parsing invalid (integer|float) literal|scan error while lexing)`)
}

// vVariation is a seed in which one scalar was replaced by a value of another type / form; the
// scalars of Container (the other elements of that sequence / values of that mapping) are the
// positions to examine.
type vVariation struct {
	Cat       *vCatalogue
	Container string
}

// vContainerOf returns the path of the sequence / mapping that directly holds the scalar at path.
func vContainerOf(path string) string {
	if strings.HasSuffix(path, "]") {
		return path[:strings.LastIndex(path, "[")]
	}
	if i := strings.LastIndex(path, "."); i >= 0 {
		return path[:i]
	}
	return ""
}

// vDirectChild reports whether the scalar at path lies directly in container.
func vDirectChild(container, path string) bool {
	if !strings.HasPrefix(path, container) {
		return false
	}
	rest := strings.TrimPrefix(path, container)
	return strings.Count(rest, ".")+strings.Count(rest, "[") == 1
}

// vSiblingVariations produces, for every scalar position q of a maximal seed and each of a few
// replacement values of another type (number, bool, null, empty, an expression of type any / of
// type string), the seed with q replaced — kept when it still lints clean: whether and how a
// value is checked must not depend on the type or form of its neighbours.
func vSiblingVariations(cats []*vCatalogue, skipped *int) []vVariation {
	values := []string{"1", "true", "null", "''", "'${{ fromJSON(vars.X) }}'", "'${{ github.sha }}'"}
	var out []vVariation
	for _, c := range cats {
		for _, q := range c.Scalars {
			cont := vContainerOf(q.Path)
			sibs := 0
			for _, o := range c.Scalars {
				if o != q && vContainerOf(o.Path) == cont {
					sibs++
				}
			}
			if sibs == 0 || cont == "" {
				continue
			}
			for vi, v := range values {
				src := c.Replace(q, v)
				res := vLint(src, nil)
				if res.Panic != "" || res.Err != nil || len(res.Errs) > 0 {
					*skipped++
					continue
				}
				name := fmt.Sprintf("%s<%s=value%d>", c.Seed, q.Path, vi)
				dc, err := vBuildCatalogue(name, src)
				if err != nil {
					*skipped++
					continue
				}
				out = append(out, vVariation{Cat: dc, Container: cont})
			}
		}
	}
	return out
}

// vCorpusCatalogues returns lenient catalogues of the repository's own workflows (testdata/ok,
// examples, err) that parse as YAML; with cleanOnly only those that lint clean.
func vCorpusCatalogues(repo string, cleanOnly bool) []*vCatalogue {
	var out []*vCatalogue
	for _, g := range []string{"testdata/ok/*.yaml", "testdata/examples/*.yaml", "testdata/err/*.yaml"} {
		files, _ := filepath.Glob(filepath.Join(repo, g))
		sort.Strings(files)
		for _, f := range files {
			b, err := os.ReadFile(f)
			if err != nil || strings.Contains(string(b), "\t") || strings.Contains(string(b), "\r") {
				continue
			}
			src := string(b)
			res := vLint(src, nil)
			if res.Panic != "" || res.Err != nil {
				continue
			}
			broken := false
			for _, e := range res.Errs {
				if strings.HasPrefix(e.Message, "could not parse as YAML") {
					broken = true
				}
			}
			if broken || (cleanOnly && len(res.Errs) > 0) {
				continue
			}
			name := "corpus:" + filepath.Base(filepath.Dir(f)) + "/" + filepath.Base(f)
			c, err := vBuildCatalogueMode(name, src, true)
			if err != nil {
				continue
			}
			out = append(out, c)
		}
	}
	return out
}
