//go:build go1.23

package actionlint

// The project seed: a workflow that passes values to a local action and to typed and untyped inputs
// of a local reusable workflow, linted as a file of the repository that holds them.

import (
	"bytes"
	"fmt"
	"os"
	"path/filepath"
	"testing"
)

// vProjectFiles: the repository of the project seed. The caller passes values to typed and
// untyped inputs of the local reusable workflow and to inputs of the local action.
var vProjectFiles = map[string]string{
	".git/HEAD":                    "ref: refs/heads/main\n",
	"act/action.yml":               "name: act\ndescription: d\ninputs:\n  in1:\n    description: d\n    required: true\n  in2:\n    description: d\n    default: x\noutputs:\n  out1:\n    description: d\n    value: v\nruns:\n  using: composite\n  steps:\n    - run: echo\n      shell: bash\n",
	".github/workflows/callee.yml": "on:\n  workflow_call:\n    inputs:\n      cstr:\n        type: string\n      cnum:\n        type: number\n      cbool:\n        type: boolean\n      cany:\n        description: no type\n      args:\n        type: string\n      entrypoint:\n        type: string\n    secrets:\n      csec:\n        required: true\n    outputs:\n      cout:\n        value: v\njobs:\n  j:\n    runs-on: ubuntu-latest\n    steps:\n      - run: echo\n",
}

const vProjectCaller = "on: push\njobs:\n  a:\n    runs-on: ubuntu-latest\n    steps:\n      - uses: ./act\n        id: s\n        with:\n          in1: x\n          in2: y\n      - run: echo ${{ steps.s.outputs.out1 }}\n  b:\n    uses: ./.github/workflows/callee.yml\n    with:\n      cstr: x\n      cnum: 1\n      cbool: true\n      cany: z\n      args: a\n      Entrypoint: e\n    secrets:\n      csec: x\n  c:\n    needs: b\n    runs-on: ubuntu-latest\n    steps:\n      - run: echo ${{ needs.b.outputs.cout }}\n"

func vProjectLint(t *testing.T) func(src string) vLintResult {
	dir := vTempDir(t, "c03p-")
	vWriteFiles(t, dir, vProjectFiles)
	path := filepath.Join(dir, ".github/workflows/caller.yml")
	return func(src string) (res vLintResult) {
		defer func() {
			if p := recover(); p != nil {
				res.Panic = fmt.Sprintf("%v\n%s", p, vStack())
			}
		}()
		if err := os.WriteFile(path, []byte(src), 0o644); err != nil {
			res.Err = err
			return
		}
		var out bytes.Buffer
		l, err := NewLinter(&out, &LinterOptions{WorkingDir: dir})
		if err != nil {
			res.Err = err
			return
		}
		res.Errs, res.Err = l.LintFile(path, nil)
		return
	}
}
