//go:build go1.23

package actionlint

// C08 — names are matched case-insensitively everywhere.
//
// Seeds: a small project (workflow, local action, reusable workflow) in which every kind of name
// has marked definitions and uses («name»). Space: every single marked occurrence re-cased to
// UPPER and Capitalised, and every pair of occurrences re-cased together. Oracle (differential):
// the multiset of (file, line, column, kind, lower-cased message) equals that of the original.

import (
	"bytes"
	"fmt"
	"os"
	"path/filepath"
	"regexp"
	"sort"
	"strings"
	"testing"
)

var c08Files = map[string]string{
	".git/HEAD": "ref: refs/heads/main\n",
	"act/action.yml": `name: act
description: local action
inputs:
  «ain»:
    required: true
  «aopt»:
    default: x
  «args»:
    required: true
  «entrypoint»:
    required: true
outputs:
  «aout»:
    description: o
    value: v
runs:
  using: composite
  steps:
    - run: echo ${{ «inputs».«ain» }}
      shell: bash
`,
	".github/workflows/callee.yml": `on:
  workflow_call:
    inputs:
      «cin»:
        type: string
        required: true
      «cnum»:
        type: number
    secrets:
      «csec»:
        required: true
    outputs:
      «cout»:
        value: ${{ «jobs».«cj».«outputs».«cjo» }}
jobs:
  «cj»:
    runs-on: ubuntu-latest
    outputs:
      «cjo»: ${{ «steps».«cs».«outputs».v }}
    steps:
      - id: «cs»
        run: echo ${{ «inputs».«cin» }} ${{ «secrets».«csec» }}
`,
	// both triggers in one file, workflow_call written first: the default of a call input reads a
	// dispatch input (names of one event used while another is being checked)
	".github/workflows/dual.yml": `on:
  workflow_call:
    inputs:
      «dcin»:
        type: string
        default: ${{ «inputs».«ddin» }}
      «dcin2»:
        type: string
        default: ${{ «inputs».«dcin» }}
  workflow_dispatch:
    inputs:
      «ddin»:
        type: string
jobs:
  «dj»:
    runs-on: ubuntu-latest
    steps:
      - run: echo ${{ «inputs».«dcin» }} ${{ «inputs».«ddin» }} ${{ «github».«event».«inputs».«ddin» }}
`,
	".github/workflows/main.yml": `on:
  workflow_dispatch:
    inputs:
      «din»:
        type: string
  pull_request:
env:
  «wenv»: v
jobs:
  «prep»:
    runs-on: ubuntu-latest
    outputs:
      «pout»: ${{ «steps».«s1».«outputs».«aout» }}
    strategy:
      matrix:
        «os»: [a, b]
        «ver»: [{«maj»: 1}]
        include:
          - «os»: a
            «extra»: e
        exclude:
          - «os»: b
    services:
      «db»:
        image: pg
    env:
      «jenv»: v
    steps:
      - id: «s1»
        uses: ./act
        with:
          «ain»: x
          «aopt»: y
          «args»: a
          «entrypoint»: e
      - id: «s2»
        uses: actions/checkout@v4
        with:
          «ref»: main
          «fetch-depth»: 1
          «args»: a
          «entrypoint»: e
      - run: echo ${{ «steps».«s1».«outputs».«aout» }} ${{ «steps».«s2».«outputs».«ref» }} ${{ «steps»['«s1»'].«conclusion» }}
        env:
          «senv»: ${{ «matrix».«os» }} ${{ «matrix».«extra» }} ${{ «matrix».«ver».«maj» }} ${{ «matrix»['«os»'] }}
      - id: «sphinx_of_black_quartz_judge_my_vow»
        run: echo
      - run: echo ${{ «steps».«sphinx_of_black_quartz_judge_my_vow».«outcome» }} ${{ «steps»['«sphinx_of_black_quartz_judge_my_vow»'].«conclusion» }}
      - run: echo ${{ «env».«wenv» }} ${{ «env».«jenv» }} ${{ «inputs».«din» }} ${{ «github».«event».«inputs».«din» }} ${{ «job».«services».«db».«id» }}
      - run: echo ${{ «github».«sha» }} ${{ «github»['«ref_name»'] }} ${{ «runner».«os» }} ${{ «vars».«some_var» }} ${{ «strategy».«fail-fast» }}
      - run: echo ${{ «contains»(«github».«ref», 'x') }} ${{ «format»('{0}', «toJSON»(«github».«event»)) }} ${{ «fromJSON»('{"«jk»":1}').«jk» }} ${{ «fromJSON»('{"«dk»":{"x":1},"«dk»":{"y":2},"other":{"«dk»":[1]}}').«dk».y }} ${{ «startsWith»('a', 'b') && «hashFiles»('x') }}
        if: ${{ «always»() && «success»() }}
      - run: echo ${{ «contains»(«github».«event».«pull_request».«title», 'x') }} ${{ «startsWith»(«github».«head_ref», 'a') }} ${{ «endsWith»(«github».«event».«pull_request».«body», 'b') }}
  «caller»:
    needs: [«prep»]
    uses: ./.github/workflows/callee.yml
    with:
      «cin»: ${{ «needs».«prep».«outputs».«pout» }}
      «cnum»: 1
    secrets:
      «csec»: ${{ «secrets».«token» }}
  «last»:
    needs: [«prep», «caller»]
    runs-on: ubuntu-latest
    steps:
      - run: echo ${{ «needs».«caller».«outputs».«cout» }} ${{ «needs».«prep».«result» }} ${{ «needs»['«prep»'].«outputs»['«pout»'] }}
  «lbl»:
    strategy:
      matrix:
        «rl»: [ubuntu-latest]
        include:
          - «rl»: macos-latest
    runs-on: ${{ «matrix».«rl» }}
    steps:
      - run: echo
`,
}

// the noisy variant keeps a few genuine errors which must survive every re-casing
var c08Noise = map[string]string{
	"${{ «needs».«caller».«outputs».«cout» }}": "${{ «needs».«caller».«outputs».«cout» }} ${{ «needs».«caller».«outputs».nosuchout }} ${{ «steps».nosuchstep }}",
	"          «ref»: main\n":                  "          «ref»: main\n          nosuchinput: 1\n",
	"      «cin»: ${{":                         "      nosuchcin: 1\n      «cin»: ${{",
	// a job that needs itself: what `needs` holds there must not depend on the case of the id
	"  «last»:\n    needs: [«prep», «caller»]\n": "  «selfneed»:\n    needs: [«selfneed»]\n    runs-on: ubuntu-latest\n    steps:\n      - run: echo ${{ «needs».«selfneed».«result» }}\n  «last»:\n    needs: [«prep», «caller»]\n",
	// a JSON literal with a repeated key: which member the property names must not depend on the
	// letter case of the keys (here the first member's x is gone in every spelling)
	"').«dk».y }}": "').«dk».y }} ${{ «fromJSON»('{\"«dk»\":{\"x\":1},\"«dk»\":{\"y\":2}}').«dk».x }}",
	// a typed input of the callee is type-checked whatever the case of the key at the caller
	"      «cnum»: 1\n": "      «cnum»: ${{ 'abc' }}\n",
	// the script input of actions/github-script is recognised whatever the case of its name
	"      - id: «s2»\n        uses: actions/checkout@v4\n": "      - uses: actions/github-script@v7\n        with:\n          «script»: console.log(${{ «github».«event».«pull_request».«title» }})\n          «github-token»: t\n      - id: «s2»\n        uses: actions/checkout@v4\n",
	// untrusted inputs spelled with string indexes: reported in every letter case
	"      - run: echo ${{ «contains»(«github».«event».«pull_request».«title», 'x') }}": "      - run: echo ${{ «github».«event».«pull_request»['«title»'] }} ${{ «github»['«head_ref»'] }} ${{ «github»['«event»']['«comment»']['«body»'] }}\n      - run: echo ${{ «contains»(«github».«event».«pull_request».«title», 'x') }}",
}

func init() {
	// runner labels taken from the matrix (row and include element): unknown ones are reported
	// whatever the case of the matrix key at its three places
	c08Noise["        «rl»: [ubuntu-latest]\n"] = "        «rl»: [ubuntu-latest, nosuchrowlabel]\n"
	c08Noise["          - «rl»: macos-latest\n"] = "          - «rl»: nosuchincludelabel\n"
	// a step id defined three times in one job: the repetitions are reported whatever the letter case
	// of the earlier and of the later definitions
	c08Noise["  «lbl»:\n    strategy:\n"] = "  «dupjob»:\n    runs-on: ubuntu-latest\n    steps:\n      - id: «dupstep»\n        run: echo\n      - id: «dupstep»\n        run: echo\n      - id: «dupstep»\n        run: echo ${{ «steps».«dupstep».«outcome» }}\n  «lbl»:\n    strategy:\n"
}

type c08Occ struct {
	file      string
	line, col int
	text      string
	off       int // byte offset in the stripped text
}

// c08Strip removes the markers and returns the plain text and the occurrences.
func c08Strip(file, marked string) (string, []c08Occ) {
	var b strings.Builder
	var occs []c08Occ
	line, col := 1, 1
	rs := []rune(marked)
	for i := 0; i < len(rs); i++ {
		switch rs[i] {
		case '«':
			j := i + 1
			for rs[j] != '»' {
				j++
			}
			name := string(rs[i+1 : j])
			occs = append(occs, c08Occ{file, line, col, name, b.Len()})
			b.WriteString(name)
			col += len(name)
			i = j
		case '\n':
			b.WriteRune('\n')
			line++
			col = 1
		default:
			b.WriteRune(rs[i])
			col += len(string(rs[i]))
		}
	}
	return b.String(), occs
}

func c08Recase(s string, mode int) string {
	if mode == 0 {
		return strings.ToUpper(s)
	}
	return strings.ToUpper(s[:1]) + s[1:]
}

func c08Lint(root string, files map[string]string) ([]string, error) {
	for p, c := range files {
		full := filepath.Join(root, p)
		os.MkdirAll(filepath.Dir(full), 0o755)
		if err := os.WriteFile(full, []byte(c), 0o644); err != nil {
			return nil, err
		}
	}
	var all []string
	for _, wf := range []string{".github/workflows/main.yml", ".github/workflows/callee.yml", ".github/workflows/dual.yml"} {
		var out bytes.Buffer
		l, err := NewLinter(&out, &LinterOptions{WorkingDir: root})
		if err != nil {
			return nil, err
		}
		errs, err := l.LintFile(filepath.Join(root, wf), nil)
		if err != nil {
			return nil, err
		}
		for _, e := range errs {
			all = append(all, fmt.Sprintf("%s:%d:%d [%s] %s", filepath.Base(wf), e.Line, e.Column, e.Kind, c08NormMsg(e.Message)))
		}
	}
	sort.Strings(all)
	return all, nil
}

func TestVerifC08(t *testing.T) {
	r := vNewReport("C08")
	defer r.Write(t)
	r.Extra["rule"] = "project seed (workflow + local action + reusable workflow) with every name kind marked at its definitions and uses (contexts, properties, functions, step/job ids incl. needs lists, input/secret/output/matrix/env/with keys, action and reusable-workflow interfaces, fromJSON keys, ['name'] indices); clean and noisy variant; every single occurrence re-cased UPPER and Capitalised, every pair re-cased together (thorough: every subset of the occurrences of one name, first 12 occurrences for names that occur more often); oracle: multiset of (file, line, column, kind, lower-cased message) unchanged. class = (variant, kinds of the re-cased occurrences); non-trivial = all"
	r.Extra["assumptions"] = []string{"keywords true/false/null and string literal values are never re-cased", "string literals in index position are names (DESIGN section 7)"}
	root := vTempDir(t, "c08-")

	if raw := vReplayInput(); raw != nil {
		var rp struct {
			Files map[string]string `json:"files"`
			Base  []string          `json:"base"`
		}
		jsonUnmarshal(raw, &rp)
		for k := 0; k < 2; k++ {
			got, err := c08Lint(root, rp.Files)
			fmt.Printf("replay %d: err=%v\n got: %v\nbase: %v\n", k, err, got, rp.Base)
			if strings.Join(got, "\n") != strings.Join(rp.Base, "\n") {
				r.Violation("case-change-alters-diagnostics", "diagnostics differ from the original spelling", rp)
			}
		}
		r.Class("replay", true)
		return
	}

	var idx int64
	for _, variant := range []string{"clean", "noisy"} {
		plain := map[string]string{}
		var occs []c08Occ
		for _, f := range vSortedKeys(c08Files) {
			marked := c08Files[f]
			if variant == "noisy" {
				for old, nw := range c08Noise {
					marked = strings.Replace(marked, old, nw, 1)
				}
			}
			p, o := c08Strip(f, marked)
			plain[f] = p
			occs = append(occs, o...)
		}
		base, err := c08Lint(root, plain)
		if err != nil {
			r.HarnessError("C08 base lint failed: %v", err)
			return
		}
		if variant == "clean" && len(base) != 0 {
			r.HarnessError("C08 clean seed is not clean: %v", base)
			return
		}
		if variant == "noisy" && len(base) < 3 {
			r.HarnessError("C08 noisy seed has too few diagnostics: %v", base)
			return
		}
		r.Bounds["occurrences_"+variant] = len(occs)
		apply := func(sel []int, mode int) map[string]string {
			files := map[string]string{}
			for f, p := range plain {
				files[f] = p
			}
			for _, k := range sel {
				o := occs[k]
				p := files[o.file]
				files[o.file] = p[:o.off] + c08Recase(o.text, mode) + p[o.off+len(o.text):]
			}
			return files
		}
		check := func(sel []int, mode int) {
			idx++
			if !r.Mine(idx) {
				return
			}
			files := apply(sel, mode)
			changed := false
			for f := range files {
				if files[f] != plain[f] {
					changed = true
				}
			}
			if !changed {
				return
			}
			var names []string
			for _, k := range sel {
				names = append(names, fmt.Sprintf("%s@%s:%d:%d", occs[k].text, filepath.Base(occs[k].file), occs[k].line, occs[k].col))
			}
			r.Begin(func() string { return fmt.Sprintf("%s recase %v mode %d", variant, names, mode) })
			got, err := c08Lint(root, files)
			r.Evaluations++
			r.Transitions++
			r.Validated++
			if err != nil {
				r.Violation("fatal", fmt.Sprintf("%s: re-casing %v makes linting fail: %v", variant, names, err), map[string]any{"files": files, "base": base})
				return
			}
			if strings.Join(got, "\n") != strings.Join(base, "\n") {
				key := "case-change-alters-diagnostics:"
				var ks []string
				for _, k := range sel {
					ks = append(ks, strings.ToLower(occs[k].text))
				}
				sort.Strings(ks)
				extra, missing := c10Diff(got, base), c10Diff(base, got)
				r.Violation(key+strings.Join(ks, "+"), fmt.Sprintf("%s seed: re-casing %v changes the diagnostics; new: %s ; lost: %s", variant, names, strings.Join(extra, " || "), strings.Join(missing, " || ")), map[string]any{"files": files, "base": base})
			}
			r.Class(fmt.Sprintf("%s n=%d", variant, len(sel)), true)
			if idx%911 == 0 {
				r.Sample(map[string]any{"variant": variant, "recased": names, "mode": []string{"UPPER", "Capitalised"}[mode]})
			}
		}
		// singles are evaluated by every shard (cheap) so that pairs containing an occurrence
		// that already fails alone are not reported again under another key
		badSingle := map[int]bool{}
		for i := range occs {
			for mode := 0; mode <= 1; mode++ {
				files := apply([]int{i}, mode)
				got, err := c08Lint(root, files)
				if err != nil || strings.Join(got, "\n") != strings.Join(base, "\n") {
					badSingle[i] = true
				}
			}
		}
		for i := range occs {
			check([]int{i}, 0)
			check([]int{i}, 1)
		}
		for i := range occs {
			for j := i + 1; j < len(occs); j++ {
				if r.Expired() {
					return
				}
				if badSingle[i] || badSingle[j] {
					idx++
					continue
				}
				check([]int{i, j}, 0)
			}
		}
		if vThorough() {
			// every subset (of size >= 3) of the occurrences of one name, in both spellings:
			// definitions and uses of a name are the occurrences that have to agree
			groups := map[string][]int{}
			for i, o := range occs {
				if !badSingle[i] {
					groups[strings.ToLower(o.text)] = append(groups[strings.ToLower(o.text)], i)
				}
			}
			maxGroup := 0
			for _, name := range vSortedKeys(groups) {
				g := groups[name]
				if len(g) > maxGroup {
					maxGroup = len(g)
				}
				if len(g) < 3 {
					continue
				}
				if len(g) > 12 {
					g = g[:12] // names that occur very often (context names): their first 12 occurrences
				}
				for mask := 1; mask < 1<<len(g); mask++ {
					var sel []int
					for b := range g {
						if mask&(1<<b) != 0 {
							sel = append(sel, g[b])
						}
					}
					if len(sel) < 3 {
						continue
					}
					if r.Expired() {
						return
					}
					check(sel, 0)
					check(sel, 1)
				}
			}
			r.Bounds["largest_group_of_occurrences_of_one_name"] = maxGroup
			r.Bounds["subsets_per_name_capped_at_occurrences"] = 12
		}
	}
}

var c08QuotedRe = regexp.MustCompile(`"(?:[^"\\]|\\.)*"`)

// c08NormMsg lower-cases a message and makes it independent of the order in which names are
// listed inside it (lists of names are sorted by their spelling, which re-casing legitimately
// changes: "only the spelling echoed in messages" may differ).
func c08NormMsg(m string) string {
	m = strings.ToLower(m)
	qs := c08QuotedRe.FindAllString(m, -1)
	sort.Strings(qs)
	i := 0
	return c08QuotedRe.ReplaceAllStringFunc(m, func(string) string { i++; return qs[i-1] })
}
