//go:build go1.23

package actionlint

// C14 — calls are checked exactly against the callee's declared interface.
//
// (1) every entry of the bundled popular-actions data set (enumerated completely) x call sites
// {none, exactly the required, all, required minus each one, one extra, re-cased key} x output
// references {each declared, one undeclared}; (2) generated local actions (inputs <= 3 over
// {absent, optional, required, required+default, optional+default}, outputs <= 2) x call sites;
// (3) generated local reusable workflows (inputs <= 2 x type x required x default, secrets,
// outputs), interface taken from the file and from the AST (callee linted first in the same run),
// x call sites and typed values. Oracle: set arithmetic on the declared interface.

import (
	"bytes"
	"fmt"
	"os"
	"path/filepath"
	"regexp"
	"sort"
	"strings"
	"testing"

	"github.com/rhysd/actionlint/verifshim/vsched"
)

var c14MissingRe = regexp.MustCompile(`^missing input "([^"]+)" which is required by action`)
var c14ExtraRe = regexp.MustCompile(`^input "([^"]+)" is not defined in action`)
var c14WfMissingRe = regexp.MustCompile(`^input "([^"]+)" is required by `)
var c14WfExtraRe = regexp.MustCompile(`^input "([^"]+)" is not defined in `)
var c14SecMissingRe = regexp.MustCompile(`^secret "([^"]+)" is required by `)
var c14SecExtraRe = regexp.MustCompile(`^secret "([^"]+)" is not defined in `)
var c14TypeRe = regexp.MustCompile(`^input "([^"]+)" is typed as (\w+) by reusable workflow`)
var c14PropRe = regexp.MustCompile(`^property "([^"]+)" is not defined in object type`)

func c14Set(errs []*Error, re *regexp.Regexp) []string {
	var out []string
	for _, e := range errs {
		if m := re.FindStringSubmatch(e.Message); m != nil {
			out = append(out, strings.ToLower(m[1]))
		}
	}
	sort.Strings(out)
	return out
}

func c14Eq(a, b []string) bool {
	a, b = append([]string{}, a...), append([]string{}, b...)
	sort.Strings(a)
	sort.Strings(b)
	return strings.Join(a, ",") == strings.Join(b, ",")
}

func c14Compare(r *vReport, what, family, desc, src string, got, want []string, extra map[string]any) {
	if !c14Eq(got, want) {
		rp := map[string]any{"desc": desc, "src": src, "what": what, "family": family, "want": want}
		for k, v := range extra {
			rp[k] = v
		}
		r.Violation(family+":"+what, fmt.Sprintf("%s: %s reported %v, the declared interface implies %v\n%s", desc, what, got, want, vTrunc(src, 1200)), rp)
	}
}

// ---- (1) bundled popular actions

func c14Popular(r *vReport, idx *int64) {
	specs := vSortedKeys(PopularActions)
	r.Bounds["popular_action_specs"] = len(specs)
	for _, spec := range specs {
		meta := PopularActions[spec]
		var all, required []string
		for id, in := range meta.Inputs {
			all = append(all, id)
			if in.Required {
				required = append(required, id)
			}
		}
		sort.Strings(all)
		sort.Strings(required)
		type site struct {
			name string
			keys []string
		}
		sites := []site{{"none", nil}, {"required", required}, {"all", all}, {"extra", append(append([]string{}, required...), "zzextra")}}
		for i := range required {
			rest := append(append([]string{}, required[:i]...), required[i+1:]...)
			sites = append(sites, site{"required-minus-" + required[i], rest})
		}
		if len(all) > 0 {
			up := append([]string{}, required...)
			found := false
			for i := range up {
				up[i] = strings.ToUpper(up[i])
				found = true
			}
			if !found {
				up = []string{strings.ToUpper(all[0])}
			}
			sites = append(sites, site{"recased", up})
		}
		var outs []string
		for id := range meta.Outputs {
			outs = append(outs, id)
		}
		sort.Strings(outs)
		for _, st := range sites {
			*idx++
			if !r.Mine(*idx) {
				continue
			}
			var b strings.Builder
			b.WriteString("on: push\njobs:\n  a:\n    runs-on: ubuntu-latest\n    steps:\n      - uses: " + spec + "\n        id: s\n")
			if len(st.keys) > 0 {
				b.WriteString("        with:\n")
				for _, k := range st.keys {
					b.WriteString("          " + k + ": v\n")
				}
			}
			for _, o := range outs {
				b.WriteString("      - run: echo ${{ steps.s.outputs." + strings.ToUpper(o) + " }}\n")
			}
			b.WriteString("      - run: echo ${{ steps.s.outputs.zzundeclared }}\n")
			src := b.String()
			res := vLint(src, nil)
			r.Evaluations++
			r.Transitions++
			r.Validated++
			desc := fmt.Sprintf("action %s call site %s", spec, st.name)
			if res.Panic != "" || res.Err != nil {
				r.Violation("failure", fmt.Sprintf("%s: panic=%q err=%v", desc, vTrunc(res.Panic, 200), res.Err), map[string]any{"desc": desc, "src": src})
				continue
			}
			given := map[string]bool{}
			for _, k := range st.keys {
				given[strings.ToLower(k)] = true
			}
			var wantMissing, wantExtra []string
			for _, q := range required {
				if !given[q] {
					wantMissing = append(wantMissing, q)
				}
			}
			if !meta.SkipInputs {
				for k := range given {
					if _, ok := meta.Inputs[k]; !ok {
						wantExtra = append(wantExtra, k)
					}
				}
			}
			c14Compare(r, "missing-required-input", "popular", desc, src, c14Set(res.Errs, c14MissingRe), wantMissing, nil)
			c14Compare(r, "undeclared-input", "popular", desc, src, c14Set(res.Errs, c14ExtraRe), wantExtra, nil)
			var wantProp []string
			// outputs set dynamically: skip_outputs entries of the table, and actions/github-script
			// (core.setOutput in the user's script), which the property's anchors name explicitly
			if !meta.SkipOutputs && !strings.HasPrefix(spec, "actions/github-script@") {
				wantProp = []string{"zzundeclared"}
			}
			c14Compare(r, "undeclared-output", "popular", desc, src, c14Set(res.Errs, c14PropRe), wantProp, nil)
			r.Class(fmt.Sprintf("popular site=%s skipInputs=%v skipOutputs=%v", strings.SplitN(st.name, "-minus-", 2)[0], meta.SkipInputs, meta.SkipOutputs), len(wantMissing)+len(wantExtra)+len(wantProp) > 0)
			if *idx%151 == 0 {
				r.Sample(map[string]any{"action": spec, "site": st.name, "required": required, "missing_expected": wantMissing})
			}
		}
	}
}

// ---- (2) local actions

type c14In struct {
	name     string
	required bool
	def      bool
	defText  string // as written after "default: "
}

func c14LocalActions(t *testing.T, r *vReport, idx *int64, root string) {
	states := []struct {
		present, required, def bool
		defText                string
	}{{false, false, false, ""}, {true, false, false, ""}, {true, true, false, ""}, {true, true, true, "x"}, {true, false, true, "x"}, {true, true, true, "''"}, {true, true, true, "false"}}
	nst := len(states)
	// the second name set uses the two with: keys that the workflow parser stores apart from the
	// other inputs (args, entrypoint): for an action that declares inputs of these names they are
	// inputs like any other
	for _, names := range [][]string{{"alpha", "Beta", "gamma"}, {"args", "Entrypoint", "gamma"}} {
		for combo := 0; combo < nst*nst*nst; combo++ {
			var ins []c14In
			x := combo
			for i := 0; i < 3; i++ {
				st := states[x%nst]
				x /= nst
				if st.present {
					ins = append(ins, c14In{names[i], st.required, st.def, st.defText})
				}
			}
			for nout := 0; nout <= 2; nout++ {
				*idx++
				if !r.Mine(*idx) {
					continue
				}
				if r.Expired() {
					return
				}
				var a strings.Builder
				a.WriteString("name: act\ndescription: d\n")
				if len(ins) > 0 {
					a.WriteString("inputs:\n")
					for _, in := range ins {
						a.WriteString("  " + in.name + ":\n    description: d\n")
						if names[0] == "args" {
							// keys of an input that say nothing about whether it must be given
							a.WriteString("    deprecationMessage: use something else\n")
						}
						if in.required {
							a.WriteString("    required: true\n")
						}
						if in.def {
							a.WriteString("    default: " + in.defText + "\n")
						}
					}
				}
				outNames := []string{"OutOne", "outtwo"}[:nout]
				if nout > 0 {
					a.WriteString("outputs:\n")
					for _, o := range outNames {
						a.WriteString("  " + o + ":\n    description: d\n    value: v\n")
					}
				}
				a.WriteString("runs:\n  using: composite\n  steps:\n    - run: echo\n      shell: bash\n")
				dir := filepath.Join(root, fmt.Sprintf("la%d", *idx))
				// the same action at three places of the repository: a directory, the root, a nested directory
				vWriteFiles(t, dir, map[string]string{".git/HEAD": "x\n", "act/action.yml": a.String(), "action.yml": a.String(), "deep/er/act/action.yaml": a.String(), ".github/workflows/.keep": ""})
				// call sites: every subset of declared names, plus one extra, plus all names re-cased
				var sites [][]string
				for m := 0; m < 1<<len(ins); m++ {
					var ks []string
					for i, in := range ins {
						if m&(1<<i) != 0 {
							ks = append(ks, in.name)
						}
					}
					sites = append(sites, ks)
				}
				var allUp []string
				for _, in := range ins {
					allUp = append(allUp, strings.ToUpper(in.name))
				}
				sites = append(sites, append(append([]string{}, allUp...), "zzextra"))
				specs := []string{"./act", "./act/", "./", "./deep/er/act", "./deep/../act", ".//"}
				for sj := 0; sj < len(sites)*len(specs); sj++ {
					si, keys, spec := sj/len(specs), sites[sj/len(specs)], specs[sj%len(specs)]
					var b strings.Builder
					b.WriteString("on: push\njobs:\n  a:\n    runs-on: ubuntu-latest\n    steps:\n      - uses: " + spec + "\n        id: s\n")
					if len(keys) > 0 {
						b.WriteString("        with:\n")
						for _, k := range keys {
							b.WriteString("          " + k + ": v\n")
						}
					}
					for _, o := range outNames {
						b.WriteString("      - run: echo ${{ steps.s.outputs." + strings.ToLower(o) + " }}\n")
					}
					b.WriteString("      - run: echo ${{ steps.s.outputs.zzundeclared }}\n")
					src := b.String()
					wf := filepath.Join(dir, ".github/workflows/w.yml")
					os.WriteFile(wf, []byte(src), 0o644)
					res := c01LintFileCopy(dir, wf)
					r.Evaluations++
					r.Transitions++
					r.Validated++
					desc := fmt.Sprintf("local action inputs=%+v outputs=%v uses: %s call site %d %v", ins, outNames, spec, si, keys)
					rp := map[string]any{"action_yml": a.String()}
					if res.Panic != "" || res.Err != nil {
						r.Violation("failure", fmt.Sprintf("%s: panic=%q err=%v", desc, vTrunc(res.Panic, 200), res.Err), map[string]any{"desc": desc, "src": src, "action_yml": a.String()})
						continue
					}
					given := map[string]bool{}
					for _, k := range keys {
						given[strings.ToLower(k)] = true
					}
					var wantMissing, wantExtra []string
					for _, in := range ins {
						if in.required && !in.def && !given[strings.ToLower(in.name)] {
							wantMissing = append(wantMissing, strings.ToLower(in.name))
						}
					}
					for k := range given {
						ok := false
						for _, in := range ins {
							if strings.ToLower(in.name) == k {
								ok = true
							}
						}
						if !ok {
							wantExtra = append(wantExtra, k)
						}
					}
					c14Compare(r, "missing-required-input", "local-action", desc, src, c14Set(res.Errs, c14MissingRe), wantMissing, rp)
					c14Compare(r, "undeclared-input", "local-action", desc, src, c14Set(res.Errs, c14ExtraRe), wantExtra, rp)
					c14Compare(r, "undeclared-output", "local-action", desc, src, c14Set(res.Errs, c14PropRe), []string{"zzundeclared"}, rp)
					r.Class(fmt.Sprintf("local-action inputs=%d missing=%d extra=%d", len(ins), len(wantMissing), len(wantExtra)), len(wantMissing)+len(wantExtra) > 0)
				}
				os.RemoveAll(dir)
			}
		}
	}
}

func c01LintFileCopy(dir, path string) (res vLintResult) {
	defer func() {
		if p := recover(); p != nil {
			res.Panic = fmt.Sprintf("%v\n%s", p, vStack())
		}
	}()
	var out bytes.Buffer
	l, err := NewLinter(&out, &LinterOptions{WorkingDir: dir})
	if err != nil {
		res.Err = err
		return
	}
	res.Errs, res.Err = l.LintFile(path, nil)
	return
}

// ---- (3) local reusable workflows

type c14WfIn struct {
	name, typ     string
	required, def bool
	defText       string
}

// c14YAMLNumberRe: integers and floats of the YAML 1.2 core schema (decimal, 0o, 0x, fractions,
// exponents, .inf, .nan).
var c14YAMLNumberRe = regexp.MustCompile(`^([-+]?[0-9]+|0o[0-7]+|0x[0-9a-fA-F]+|[-+]?(\.[0-9]+|[0-9]+(\.[0-9]*)?)([eE][-+]?[0-9]+)?|[-+]?\.(inf|Inf|INF)|\.(nan|NaN|NAN))$`)

func c14Assignable(typ, value string) bool {
	// value type by the documented rule: literal null / bool / number / string, or expression type
	vt := "string"
	switch value {
	case "null":
		vt = "null"
	case "true", "false", "${{ true }}":
		vt = "bool"
	case "42", "${{ 1 }}":
		vt = "number"
	case "${{ github.sha }}", "${{ 'a' }}", "abc":
		vt = "string"
	case "${{ fromJSON('1') }}", "${{ github.event.x }}":
		vt = "any"
	case "${{ null }}":
		vt = "null"
	case "pre ${{ 1 }} post":
		vt = "string"
	case "True", "TRUE", "False", "FALSE":
		vt = "bool" // the other spellings of the YAML core schema
	case "~", "Null", "NULL":
		vt = "null"
	default:
		// other plain scalars: a number iff the YAML core schema reads them as one; a quoted scalar
		// is a string whatever it holds
		if c14YAMLNumberRe.MatchString(value) {
			vt = "number"
		}
	}
	if vt == "any" {
		return true
	}
	switch typ {
	case "string":
		return vt == "string" || vt == "number"
	case "number":
		return vt == "number"
	case "boolean":
		return true
	}
	return true
}

// c14LintBoth lints the caller with the callee's interface read from its file and, in a second run,
// derived from the callee's AST (callee linted first).
func c14LintBoth(dir, callee, caller string) (fileErrs, astErrs []*Error, err error) {
	calleeP := filepath.Join(dir, ".github/workflows/callee.yml")
	callerP := filepath.Join(dir, ".github/workflows/caller.yml")
	os.WriteFile(calleeP, []byte(callee), 0o644)
	os.WriteFile(callerP, []byte(caller), 0o644)
	res := c01LintFileCopy(dir, callerP)
	if res.Err != nil || res.Panic != "" {
		return nil, nil, fmt.Errorf("%v %s", res.Err, vTrunc(res.Panic, 200))
	}
	fileErrs = res.Errs
	// AST-derived interface: callee linted first in the same run (default schedule of the
	// controlled scheduler runs the files in argument order)
	var all []*Error
	var lerr error
	vsched.Replay(vsched.Config{NumCPU: 1}, nil, func(x *vsched.Exec) string {
		var out bytes.Buffer
		l, e := NewLinter(&out, &LinterOptions{WorkingDir: dir})
		if e != nil {
			lerr = e
			return ""
		}
		all, lerr = l.LintFiles([]string{calleeP, callerP}, nil)
		return ""
	})
	if lerr != nil {
		return nil, nil, lerr
	}
	for _, e := range all {
		if strings.HasSuffix(e.Filepath, "caller.yml") {
			astErrs = append(astErrs, e)
		}
	}
	return
}

// c14CaseTwins: two DIFFERENT local actions whose directory names differ in letter case only (a
// case-sensitive file system holds both), with different interfaces; each call is checked against
// the action it names, in both step orders and from two files of one run.
func c14CaseTwins(t *testing.T, r *vReport, idx *int64, root string) {
	type act struct{ dir, in, out string }
	pairs := [][2]act{{{"Build", "alpha", "oa"}, {"build", "beta", "ob"}}, {{"tools/Pack", "alpha", "oa"}, {"tools/pack", "beta", "ob"}}, {{"x/Act", "alpha", "oa"}, {"X/act", "beta", "ob"}}}
	for pi, pr := range pairs {
		dir := filepath.Join(root, fmt.Sprintf("twins%d", pi))
		files := map[string]string{".git/HEAD": "x\n"}
		for _, a := range pr {
			files[a.dir+"/action.yml"] = "name: n\ndescription: d\ninputs:\n  " + a.in + ":\n    description: d\n    required: true\noutputs:\n  " + a.out + ":\n    description: d\n    value: v\nruns:\n  using: composite\n  steps:\n    - run: echo\n      shell: bash\n"
		}
		for order := 0; order < 2; order++ {
			for swapped := 0; swapped < 2; swapped++ {
				*idx++
				if !r.Mine(*idx) {
					continue
				}
				first, second := pr[order], pr[1-order]
				// with swapped inputs / outputs every step names the OTHER action's interface
				in := func(a, other act) act {
					if swapped == 1 {
						return other
					}
					return a
				}
				w := "on: push\njobs:\n  j:\n    runs-on: ubuntu-latest\n    steps:\n" +
					"      - uses: ./" + first.dir + "\n        id: s1\n        with:\n          " + in(first, second).in + ": v\n" +
					"      - uses: ./" + second.dir + "\n        id: s2\n        with:\n          " + in(second, first).in + ": v\n" +
					"      - run: echo ${{ steps.s1.outputs." + in(first, second).out + " }} ${{ steps.s2.outputs." + in(second, first).out + " }}\n"
				files[".github/workflows/w.yml"] = w
				os.RemoveAll(dir)
				vWriteFiles(t, dir, files)
				res := c01LintFileCopy(dir, filepath.Join(dir, ".github/workflows/w.yml"))
				r.Evaluations++
				r.Transitions++
				r.Validated++
				desc := fmt.Sprintf("local actions ./%s and ./%s (names differ in letter case only) order=%d swapped-interfaces=%d", pr[0].dir, pr[1].dir, order, swapped)
				extra := map[string]any{"files": files}
				if res.Err != nil || res.Panic != "" {
					r.Violation("failure", fmt.Sprintf("%s: %v %s", desc, res.Err, vTrunc(res.Panic, 200)), map[string]any{"desc": desc, "src": w, "files": files})
					continue
				}
				var wantMissing, wantExtra, wantProp []string
				if swapped == 1 {
					wantMissing = []string{"alpha", "beta"}
					wantExtra = []string{"alpha", "beta"}
					wantProp = []string{"oa", "ob"}
				}
				c14Compare(r, "missing-required-input", "case-twins", desc, w, c14Set(res.Errs, c14MissingRe), wantMissing, extra)
				c14Compare(r, "undeclared-input", "case-twins", desc, w, c14Set(res.Errs, c14ExtraRe), wantExtra, extra)
				c14Compare(r, "undeclared-output", "case-twins", desc, w, c14Set(res.Errs, c14PropRe), wantProp, extra)
				r.Class(fmt.Sprintf("case-twins swapped=%d", swapped), swapped == 1)
			}
		}
	}
}

// c14DuplicatedNames: a callee that declares a name twice in different letter cases (the workflow
// parser reports the repetition and keeps the FIRST declaration): the interface read from the file
// must be the same one, otherwise what the caller is told depends on which route filled the cache.
func c14DuplicatedNames(t *testing.T, r *vReport, idx *int64, root string) {
	dir := filepath.Join(root, "dupnames")
	vWriteFiles(t, dir, map[string]string{".git/HEAD": "x\n", ".github/workflows/.keep": ""})
	caller := "on: push\njobs:\n  c:\n    uses: ./.github/workflows/callee.yml\n  d:\n    needs: c\n    runs-on: ubuntu-latest\n    steps:\n      - run: echo ${{ needs.c.outputs.out }} ${{ needs.c.outputs.OUT }}\n"
	for _, firstRequired := range []bool{true, false} {
		for _, section := range []string{"inputs", "secrets", "outputs"} {
			*idx++
			if !r.Mine(*idx) {
				continue
			}
			req := func(b bool) string {
				if b {
					return "true"
				}
				return "false"
			}
			var body string
			switch section {
			case "inputs":
				body = "    inputs:\n      foo:\n        type: string\n        required: " + req(firstRequired) + "\n      FOO:\n        type: number\n        required: " + req(!firstRequired) + "\n"
			case "secrets":
				body = "    secrets:\n      tok:\n        required: " + req(firstRequired) + "\n      TOK:\n        required: " + req(!firstRequired) + "\n"
			case "outputs":
				body = "    outputs:\n      out:\n        value: a\n      OUT:\n        value: b\n"
			}
			callee := "on:\n  workflow_call:\n" + body + "jobs:\n  j:\n    runs-on: ubuntu-latest\n    steps:\n      - run: echo\n"
			fe, ae, err := c14LintBoth(dir, callee, caller)
			r.Evaluations++
			r.Transitions += 2
			r.Validated += 2
			desc := fmt.Sprintf("callee declaring a name of %s twice (first required=%v)", section, firstRequired)
			if err != nil {
				r.Violation("failure", fmt.Sprintf("%s: %v", desc, err), map[string]any{"desc": desc, "src": caller, "callee": callee})
				continue
			}
			if c14ErrKey(fe) != c14ErrKey(ae) {
				r.Violation("derivation-disagreement:duplicated-name:"+section, fmt.Sprintf("%s: the caller's diagnostics depend on whether the callee's interface comes from its file or from its AST\n from file: %q\n from AST:  %q\ncallee:\n%s", desc, c14ErrKey(fe), c14ErrKey(ae), callee), map[string]any{"desc": "callee events", "what": "callee-events", "family": "duplicated-name", "src": caller, "callee": callee, "callee_base": callee})
			}
			r.Class("duplicated name in callee "+section, len(fe) > 0)
		}
	}
}

func c14ErrKey(errs []*Error) string {
	var l []string
	for _, e := range errs {
		l = append(l, fmt.Sprintf("%d:%d:%s", e.Line, e.Column, e.Message))
	}
	return strings.Join(l, "\n")
}

func c14Workflows(t *testing.T, r *vReport, idx *int64, root string) {
	// input states: absent or type x required x default
	type ist struct {
		present       bool
		typ           string
		required, def bool
		defText       string
	}
	ists := []ist{{}}
	defaults := map[string]string{"string": "x", "number": "1", "boolean": "true"}
	for _, ty := range []string{"string", "number", "boolean"} {
		for _, rq := range []bool{false, true} {
			ists = append(ists, ist{true, ty, rq, false, ""}, ist{true, ty, rq, true, defaults[ty]})
		}
	}
	// falsy / empty defaults still are defaults
	ists = append(ists, ist{true, "string", true, true, "''"}, ist{true, "number", true, true, "0"}, ist{true, "boolean", true, true, "false"})
	// form: 0 = explicit "required: <bool>", 1 = description only (no required key), 2 = empty body
	secretSets := [][]struct {
		name     string
		required bool
		form     int
	}{nil, {{"SecOne", true, 0}}, {{"SecOne", false, 0}, {"sectwo", true, 0}},
		// declaration order and absent keys: a required secret before / after one without the key
		{{"SecOne", true, 0}, {"sectwo", false, 1}}, {{"SecOne", true, 0}, {"sectwo", false, 2}}, {{"SecOne", false, 1}, {"sectwo", true, 0}},
		{{"SecOne", true, 0}, {"sectwo", false, 0}, {"secthree", false, 1}}}
	lintBoth0 := c14LintBoth
	// the callee's interface is what its workflow_call section declares, whatever other events
	// stand before or after that section: every case is linted with 4 forms of the callee's `on:`
	// (workflow_call alone; after push; after a workflow_dispatch with inputs of its own; before
	// pull_request) and the caller's diagnostics must be the same
	lintBoth := func(dir, callee, caller string) (fileErrs, astErrs []*Error, err error) {
		fileErrs, astErrs, err = lintBoth0(dir, callee, caller)
		if err != nil || !strings.HasPrefix(callee, "on:\n  workflow_call:\n") || !strings.Contains(callee, "\njobs:\n") {
			return
		}
		key := c14ErrKey
		forms := []string{
			strings.Replace(callee, "on:\n  workflow_call:\n", "on:\n  push:\n  workflow_call:\n", 1),
			strings.Replace(callee, "on:\n  workflow_call:\n", "on:\n  workflow_dispatch:\n    inputs:\n      dispatchonly:\n        type: boolean\n        required: true\n  workflow_call:\n", 1),
			strings.Replace(callee, "\njobs:\n", "\n  pull_request:\njobs:\n", 1),
		}
		for fi, alt := range forms {
			fe, ae, e := lintBoth0(dir, alt, caller)
			r.Evaluations++
			r.Transitions += 2
			r.Validated += 2
			if e != nil {
				return nil, nil, fmt.Errorf("callee form %d: %v", fi+1, e)
			}
			if key(fe) != key(fileErrs) || key(ae) != key(astErrs) {
				r.Violation(fmt.Sprintf("callee-events-change-interface:form%d", fi+1), fmt.Sprintf("the caller's diagnostics change when the callee's `on:` holds further events around workflow_call\n workflow_call alone: file route %q, AST route %q\n this form:          file route %q, AST route %q\ncallee:\n%s\ncaller:\n%s", key(fileErrs), key(astErrs), key(fe), key(ae), alt, caller), map[string]any{"desc": "callee events", "what": "callee-events", "family": fmt.Sprintf("form%d", fi+1), "src": caller, "callee": alt, "callee_base": callee})
			}
		}
		return
	}
	dir := filepath.Join(root, "wf")
	vWriteFiles(t, dir, map[string]string{".git/HEAD": "x\n", ".github/workflows/.keep": ""})
	for a := range ists {
		for b := range ists {
			for si, secs := range secretSets {
				for nout := 0; nout <= 1; nout++ {
					*idx++
					if !r.Mine(*idx) {
						continue
					}
					if r.Expired() {
						return
					}
					var ins []c14WfIn
					for k, st := range []ist{ists[a], ists[b]} {
						if st.present {
							ins = append(ins, c14WfIn{[]string{"InOne", "intwo"}[k], st.typ, st.required, st.def, st.defText})
						}
					}
					var c strings.Builder
					c.WriteString("on:\n  workflow_call:\n")
					if len(ins) > 0 {
						c.WriteString("    inputs:\n")
						for _, in := range ins {
							c.WriteString("      " + in.name + ":\n        type: " + in.typ + "\n")
							if in.required {
								c.WriteString("        required: true\n")
							}
							if in.def {
								c.WriteString("        default: " + in.defText + "\n")
							}
						}
					}
					if len(secs) > 0 {
						c.WriteString("    secrets:\n")
						for _, s := range secs {
							switch s.form {
							case 0:
								c.WriteString("      " + s.name + ":\n        required: " + fmt.Sprint(s.required) + "\n")
							case 1:
								c.WriteString("      " + s.name + ":\n        description: d\n")
							default:
								c.WriteString("      " + s.name + ":\n")
							}
						}
					}
					if nout == 1 {
						c.WriteString("    outputs:\n      OutOne:\n        value: x\n")
					}
					c.WriteString("jobs:\n  j:\n    runs-on: ubuntu-latest\n    steps:\n      - run: echo\n")
					callee := c.String()
					okVal := map[string]string{"string": "abc", "number": "42", "boolean": "true"}
					// call sites
					type site struct {
						name    string
						with    []string
						secrets []string
						inherit bool
					}
					var req, allIn, reqSec, allSec []string
					for _, in := range ins {
						allIn = append(allIn, in.name)
						if in.required && !in.def {
							req = append(req, in.name)
						}
					}
					for _, s := range secs {
						allSec = append(allSec, s.name)
						if s.required {
							reqSec = append(reqSec, s.name)
						}
					}
					sites := []site{
						{"none", nil, nil, false}, {"required", req, reqSec, false}, {"all-recased", upperAll(allIn), upperAll(allSec), false},
						{"extra-input", append(append([]string{}, req...), "zzin"), reqSec, false}, {"extra-secret", req, append(append([]string{}, reqSec...), "zzsec"), false},
						{"inherit", req, nil, true},
						// secrets: inherit waives secrets only; an undeclared input's value is still an
						// expression position
						{"inherit-no-inputs", nil, nil, true}, {"extra-input-expr", append(append([]string{}, req...), "zzexpr"), reqSec, false},
					}
					for i := range req {
						sites = append(sites, site{"minus-input", append(append([]string{}, req[:i]...), req[i+1:]...), reqSec, false})
					}
					for i := range reqSec {
						sites = append(sites, site{"minus-secret", req, append(append([]string{}, reqSec[:i]...), reqSec[i+1:]...), false})
					}
					typeOf := map[string]string{}
					for _, in := range ins {
						typeOf[strings.ToLower(in.name)] = in.typ
					}
					for _, st := range sites {
						var w strings.Builder
						w.WriteString("on: push\njobs:\n  c:\n    uses: ./.github/workflows/callee.yml\n")
						if len(st.with) > 0 {
							w.WriteString("    with:\n")
							for _, k := range st.with {
								v := "abc"
								if ty, ok := typeOf[strings.ToLower(k)]; ok {
									v = okVal[ty]
								}
								if k == "zzexpr" {
									v = "${{ env.NOT_ALLOWED_HERE }}"
								}
								w.WriteString("      " + k + ": " + v + "\n")
							}
						}
						if st.inherit {
							w.WriteString("    secrets: inherit\n")
						} else if len(st.secrets) > 0 {
							w.WriteString("    secrets:\n")
							for _, k := range st.secrets {
								w.WriteString("      " + k + ": ${{ secrets.X }}\n")
							}
						}
						w.WriteString("  d:\n    needs: c\n    runs-on: ubuntu-latest\n    steps:\n      - run: echo ${{ needs.c.outputs.outone }} ${{ needs.c.outputs.zzundeclared }}\n")
						caller := w.String()
						desc := fmt.Sprintf("reusable workflow inputs=%+v secrets=%d outputs=%d call site %s", ins, si, nout, st.name)
						fe, ae, err := lintBoth(dir, callee, caller)
						r.Evaluations++
						r.Transitions += 2
						r.Validated += 2
						rp := map[string]any{"callee": callee}
						if err != nil {
							r.Violation("failure", fmt.Sprintf("%s: %v", desc, err), map[string]any{"desc": desc, "src": caller, "callee": callee})
							continue
						}
						givenIn, givenSec := map[string]bool{}, map[string]bool{}
						for _, k := range st.with {
							givenIn[strings.ToLower(k)] = true
						}
						for _, k := range st.secrets {
							givenSec[strings.ToLower(k)] = true
						}
						var wMissIn, wExtraIn, wMissSec, wExtraSec, wProp []string
						for _, q := range req {
							if !givenIn[strings.ToLower(q)] {
								wMissIn = append(wMissIn, strings.ToLower(q))
							}
						}
						for k := range givenIn {
							if _, ok := typeOf[k]; !ok {
								wExtraIn = append(wExtraIn, k)
							}
						}
						if !st.inherit {
							for _, q := range reqSec {
								if !givenSec[strings.ToLower(q)] {
									wMissSec = append(wMissSec, strings.ToLower(q))
								}
							}
							for k := range givenSec {
								ok := false
								for _, s := range secs {
									if strings.ToLower(s.name) == k {
										ok = true
									}
								}
								if !ok {
									wExtraSec = append(wExtraSec, k)
								}
							}
						}
						wProp = []string{"zzundeclared"}
						if nout == 0 {
							wProp = append(wProp, "outone")
						}
						for mode, errs := range map[string][]*Error{"file": fe, "ast": ae} {
							fam := "reusable-workflow-" + mode
							c14Compare(r, "missing-required-input", fam, desc, caller, c14Set(errs, c14WfMissingRe), wMissIn, rp)
							c14Compare(r, "undeclared-input", fam, desc, caller, c14Set(errs, c14WfExtraRe), wExtraIn, rp)
							c14Compare(r, "missing-required-secret", fam, desc, caller, c14Set(errs, c14SecMissingRe), wMissSec, rp)
							c14Compare(r, "undeclared-secret", fam, desc, caller, c14Set(errs, c14SecExtraRe), wExtraSec, rp)
							c14Compare(r, "undeclared-output", fam, desc, caller, c14Set(errs, c14PropRe), wProp, rp)
							c14Compare(r, "type-error", fam, desc, caller, c14Set(errs, c14TypeRe), nil, rp)
							if st.name == "extra-input-expr" {
								found := false
								for _, e := range errs {
									if strings.HasPrefix(e.Message, `context "env" is not allowed here`) {
										found = true
									}
								}
								if !found {
									r.Violation(fam+":undeclared-input-value-unchecked", fmt.Sprintf("%s: the value of the undeclared input zzexpr (${{ env.NOT_ALLOWED_HERE }}) is not checked: no 'context \"env\" is not allowed here'; diagnostics: %v", desc, vDiagStrings(errs)), map[string]any{"desc": desc, "src": caller, "callee": callee})
								}
							}
						}
						r.Class(fmt.Sprintf("reusable-workflow site=%s missing=%d extra=%d", st.name, len(wMissIn)+len(wMissSec), len(wExtraIn)+len(wExtraSec)), len(wMissIn)+len(wMissSec)+len(wExtraIn)+len(wExtraSec) > 0)
					}
				}
			}
		}
	}
	// derivation agreement: the interface taken from the callee's file and from its AST must lead
	// to the same diagnostics of the caller for every spelling of the attribute values that the
	// workflow parser accepts (callee alone lints clean)
	reqSpell := []string{"", "true", "false", "${{ true }}", "${{ false }}", "${{ github.event_name == 'push' }}", "True", "TRUE", "False"}
	defSpell := []string{"", "x", "''", "1", "true", "${{ github.sha }}", "null", "~", "Null", "<empty>", "'null'"}
	for _, ty := range []string{"string", "number", "boolean"} {
		for _, rq := range reqSpell {
			for _, df := range defSpell {
				for _, srq := range []string{"", "true", "${{ true }}"} {
					*idx++
					if !r.Mine(*idx) {
						continue
					}
					var c strings.Builder
					c.WriteString("on:\n  workflow_call:\n    inputs:\n      din:\n        type: " + ty + "\n")
					if rq != "" {
						c.WriteString("        required: " + rq + "\n")
					}
					if df == "<empty>" {
						c.WriteString("        default:\n")
					} else if df != "" {
						c.WriteString("        default: " + df + "\n")
					}
					c.WriteString("    secrets:\n      dsec:\n")
					if srq != "" {
						c.WriteString("        required: " + srq + "\n")
					} else {
						c.WriteString("        description: d\n")
					}
					c.WriteString("jobs:\n  j:\n    runs-on: ubuntu-latest\n    steps:\n      - run: echo\n")
					callee := c.String()
					// the callee must be accepted by the workflow parser; remarks of other rules about it
					// (a default that can never be used, ...) do not make its interface ill-formed
					if res := vLint(callee, nil); res.Err != nil || res.Panic != "" || c14HasKind(res.Errs, "syntax-check", "expression") {
						r.Class("derivation: callee not accepted by the parser (skipped)", false)
						continue
					}
					for _, site := range []string{"", "    with:\n      din: " + map[string]string{"string": "abc", "number": "42", "boolean": "true"}[ty] + "\n    secrets:\n      dsec: x\n"} {
						caller := "on: push\njobs:\n  c:\n    uses: ./.github/workflows/callee.yml\n" + site
						fe, ae, err := lintBoth(dir, callee, caller)
						r.Evaluations++
						r.Transitions += 2
						r.Validated += 2
						desc := fmt.Sprintf("callee input type=%s required=%q default=%q secret required=%q, call site with inputs=%v", ty, rq, df, srq, site != "")
						rp := map[string]any{"desc": desc, "src": caller, "callee": callee}
						if err != nil {
							r.Violation("failure", fmt.Sprintf("%s: %v", desc, err), rp)
							continue
						}
						sk := func(errs []*Error) []string {
							var out []string
							for _, e := range errs {
								out = append(out, fmt.Sprintf("%d:%d %s", e.Line, e.Column, vTrunc(e.Message, 120)))
							}
							sort.Strings(out)
							return out
						}
						f, a := sk(fe), sk(ae)
						if strings.Join(f, "\n") != strings.Join(a, "\n") {
							key := "derivations-disagree"
							if strings.Contains(strings.Join(f, " "), "error while parsing reusable workflow") {
								key += ":file-route-cannot-parse"
							}
							r.Violation(key, fmt.Sprintf("%s: the caller's diagnostics depend on whether the callee's interface comes from its file or from its AST\n from file: %v\n from AST:  %v\ncallee:\n%s", desc, f, a, callee), rp)
						}
						r.Class("derivation agreement", len(f) > 0)
					}
				}
			}
		}
	}
	// typed values
	values := []string{"abc", "42", "true", "null", "${{ 1 }}", "${{ 'a' }}", "${{ true }}", "${{ github.sha }}", "${{ fromJSON('1') }}", "${{ null }}", "pre ${{ 1 }} post", "${{ github.event.x }}",
		// plain scalars that look like numbers to one reader or another (left out as implementation-
		// defined: 0b11 and 1_000, which the YAML library still reads the YAML 1.1 way, and 1e400,
		// whose value is out of range)
		"nan", "inf", "Infinity", "-inf", "NaN", ".inf", "-.INF", ".nan", ".NaN", "0x10", "0o17", "1e3", "-1.5", "1.", ".5", "+7", "1e", "0x", "12abc", "1 2",
		// the other spellings of booleans and null; quoted scalars (strings, whatever they hold)
		"True", "TRUE", "False", "FALSE", "~", "Null", "NULL", "\"3\"", "'3'", "\"true\"", "'null'", "\"0x10\"", "'~'",
		// block scalars whose text is no YAML value when read on its own (a comment, a document
		// marker): strings like every block scalar (block scalars holding a numeral, a boolean or null
		// are left out: the AST does not record the style)
		// one placeholder followed by text that ends in }}: a string, not a single expression
		"${{ 1 }} }}", "${{ true }} x }}", "${{ 1 }}}}",
		"|\n        # TODO", "|-\n        # TODO", ">-\n        # a\n        # b", "|-\n        ---", "|\n        ...", "|-\n        a # b"}
	for _, ty := range []string{"string", "number", "boolean"} {
		for _, v := range values {
			*idx++
			if !r.Mine(*idx) {
				continue
			}
			callee := "on:\n  workflow_call:\n    inputs:\n      tin:\n        type: " + ty + "\njobs:\n  j:\n    runs-on: ubuntu-latest\n    steps:\n      - run: echo\n"
			caller := "on: push\njobs:\n  c:\n    uses: ./.github/workflows/callee.yml\n    with:\n      TIN: " + v + "\n"
			fe, ae, err := lintBoth(dir, callee, caller)
			r.Evaluations++
			r.Transitions += 2
			r.Validated += 2
			desc := fmt.Sprintf("input typed %s given %s", ty, v)
			if err != nil {
				r.Violation("failure", fmt.Sprintf("%s: %v", desc, err), map[string]any{"desc": desc, "src": caller, "callee": callee})
				continue
			}
			var want []string
			if !c14Assignable(ty, v) {
				want = []string{"tin"}
			}
			for mode, errs := range map[string][]*Error{"file": fe, "ast": ae} {
				c14Compare(r, "type-error", "reusable-workflow-"+mode, desc, caller, c14Set(errs, c14TypeRe), want, map[string]any{"callee": callee})
			}
			r.Class(fmt.Sprintf("typed-value %s assignable=%v", ty, len(want) == 0), len(want) > 0)
		}
	}
}

func upperAll(ss []string) []string {
	out := make([]string, len(ss))
	for i, s := range ss {
		out[i] = strings.ToUpper(s)
	}
	return out
}

func c14HasKind(errs []*Error, kinds ...string) bool {
	for _, e := range errs {
		for _, k := range kinds {
			if e.Kind == k {
				return true
			}
		}
	}
	return false
}

func TestVerifC14(t *testing.T) {
	r := vNewReport("C14")
	defer r.Write(t)
	r.Extra["rule"] = "every spec of the bundled popular-actions table x call sites {none, required, all, required minus each, one extra, re-cased} with references to every declared and one undeclared output; 343 local action interfaces (3 inputs - in the second name set every one with a deprecationMessage - over absent/optional/required/required+default/optional+default/required+empty default/required+falsy default) x 0-2 outputs x every subset of declared inputs + extra + re-cased; 256 reusable-workflow input interfaces (2 inputs over absent | type x required x default incl. empty and falsy defaults) x 7 secret sets (explicit / absent required key, empty body, both declaration orders) x 0-1 outputs x 8+ call sites (none, required, all re-cased, extra input, extra secret, inherit, inherit without inputs, undeclared input holding an expression, minus each), interface derived from the file and from the AST (callee linted first in the same run), every case with 4 forms of the callee's `on:` (other events before / after workflow_call); 3 types x 54 typed values (literals in every spelling of the YAML core schema, plain and quoted; expressions); derivation agreement over 3 types x 6 spellings of required x 7 of default x 3 of a secret's required (literal and expression values) x 2 call sites. two local actions whose directory names differ in letter case only (3 pairs x step order x own / swapped interface); oracle = set arithmetic on the declared interface. class = (family, call site, expected report counts); non-trivial = something must be reported"
	r.Extra["assumptions"] = []string{"for bundled actions the table itself is the declaration (its content is not frozen)", "assignability per docs/checks.md: string <- string|number, number <- number, boolean <- anything, anything <- any"}
	root := vTempDir(t, "c14-")
	if raw := vReplayInput(); raw != nil {
		var rp struct {
			Desc, Src, Callee, What, Family string
			ActionYml                       string `json:"action_yml"`
			CalleeBase                      string `json:"callee_base"`
			Files                           map[string]string
			Want                            []string
		}
		jsonUnmarshal(raw, &rp)
		if rp.What == "callee-events" {
			dir := filepath.Join(root, "replay-ce")
			vWriteFiles(t, dir, map[string]string{".git/HEAD": "x\n", ".github/workflows/.keep": ""})
			for k := 0; k < 2; k++ {
				f0, a0, e0 := c14LintBoth(dir, rp.CalleeBase, rp.Src)
				f1, a1, e1 := c14LintBoth(dir, rp.Callee, rp.Src)
				fmt.Printf("replay %d: caller\n%s\ncallee (workflow_call alone)\n%s\ncallee (this form)\n%s\nerrors %v %v\nfile route: %q vs %q\nAST route: %q vs %q\n", k, rp.Src, rp.CalleeBase, rp.Callee, e0, e1, c14ErrKey(f0), c14ErrKey(f1), c14ErrKey(a0), c14ErrKey(a1))
				if e0 != nil || e1 != nil || c14ErrKey(f0) != c14ErrKey(f1) || c14ErrKey(a0) != c14ErrKey(a1) {
					r.Violation("callee-events-change-interface:"+rp.Family, "the caller's diagnostics change when the callee's `on:` holds further events around workflow_call", rp)
				}
			}
			r.Class("replay", true)
			return
		}
		res := map[string]*regexp.Regexp{"missing-required-input": c14MissingRe, "undeclared-input": c14ExtraRe, "undeclared-output": c14PropRe,
			"missing-required-secret": c14SecMissingRe, "undeclared-secret": c14SecExtraRe, "type-error": c14TypeRe}
		if strings.HasPrefix(rp.Family, "reusable-workflow") {
			res["missing-required-input"], res["undeclared-input"] = c14WfMissingRe, c14WfExtraRe
		}
		for k := 0; k < 2; k++ {
			var errs []*Error
			switch {
			case rp.Files != nil:
				dir := filepath.Join(root, "replay-files")
				os.RemoveAll(dir)
				vWriteFiles(t, dir, rp.Files)
				errs = c01LintFileCopy(dir, filepath.Join(dir, ".github/workflows/w.yml")).Errs
			case rp.ActionYml != "":
				dir := filepath.Join(root, "replay-la")
				vWriteFiles(t, dir, map[string]string{".git/HEAD": "x\n", "act/action.yml": rp.ActionYml, ".github/workflows/w.yml": rp.Src})
				errs = c01LintFileCopy(dir, filepath.Join(dir, ".github/workflows/w.yml")).Errs
			case rp.Callee != "":
				dir := filepath.Join(root, "replay-wf")
				vWriteFiles(t, dir, map[string]string{".git/HEAD": "x\n", ".github/workflows/callee.yml": rp.Callee, ".github/workflows/caller.yml": rp.Src})
				if strings.HasSuffix(rp.Family, "-ast") {
					var all []*Error
					vsched.Replay(vsched.Config{NumCPU: 1}, nil, func(x *vsched.Exec) string {
						var out bytes.Buffer
						l, _ := NewLinter(&out, &LinterOptions{WorkingDir: dir})
						all, _ = l.LintFiles([]string{filepath.Join(dir, ".github/workflows/callee.yml"), filepath.Join(dir, ".github/workflows/caller.yml")}, nil)
						return ""
					})
					for _, e := range all {
						if strings.HasSuffix(e.Filepath, "caller.yml") {
							errs = append(errs, e)
						}
					}
				} else {
					errs = c01LintFileCopy(dir, filepath.Join(dir, ".github/workflows/caller.yml")).Errs
				}
			default:
				errs = vLint(rp.Src, nil).Errs
			}
			fmt.Printf("replay %d: %s\n%s\ncallee/action:\n%s%s\ndiagnostics: %v\n", k, rp.Desc, rp.Src, rp.Callee, rp.ActionYml, vDiagStrings(errs))
			if re, ok := res[rp.What]; ok {
				c14Compare(r, rp.What, rp.Family, rp.Desc, rp.Src, c14Set(errs, re), rp.Want, map[string]any{"callee": rp.Callee, "action_yml": rp.ActionYml})
			}
		}
		r.Class("replay", true)
		return
	}
	var idx int64
	c14Popular(r, &idx)
	c14LocalActions(t, r, &idx, root)
	c14Workflows(t, r, &idx, root)
	c14CaseTwins(t, r, &idx, root)
	c14DuplicatedNames(t, r, &idx, root)
}
