//go:build go1.23

package actionlint

// C20 — shellcheck/pyflakes integration loses nothing and bounds concurrency.
//
// Engine A: the real concurrentProcess / externalCommand / rule callbacks / Linter.Lint* run under
// the controlled scheduler over a scripted os/exec (vexec). Explored per scenario: all
// interleavings up to the preemption bound x all tool outcomes per invocation with at most F
// non-default answers. Separately (Engine B): sanitizeExpressionsInScript on all short strings.

import (
	"bytes"
	"errors"
	"fmt"
	"os"
	"path/filepath"
	"runtime"
	"sort"
	"strconv"
	"strings"
	"sync"
	"testing"
	"time"

	"github.com/rhysd/actionlint/verifshim/vexec"
	"github.com/rhysd/actionlint/verifshim/vsched"
)

type c20Step struct {
	Shell  string // "" = none
	Script string // without the unique marker
	Plain  bool   // no unique marker: the script is used as it is (equal scripts in several steps)
}

type c20Job struct {
	RunsOn       string
	DefaultShell string
	Steps        []c20Step
	// DefaultsWithoutShell: the job has a defaults.run section that sets no shell (only a working
	// directory): the default shell of the workflow still applies
	DefaultsWithoutShell bool
}

type c20File struct {
	DefaultShell string
	Jobs         []c20Job
}

type c20Scenario struct {
	Name  string
	Files []c20File
	CPUs  int
	API   string // LintFiles | LintFile | Lint
	// BrokenLastRepo: the last file lives in a repository of its own whose actionlint.yaml cannot
	// be parsed: the run must end with a fatal error, after everything started for the earlier
	// files has finished
	BrokenLastRepo bool
	// AllFail: every tool process exits with status 2 and prints nothing (a fixed answer, not a
	// choice): several invocations fail in one run (every one of them collected, the run fatal; that the error named does not depend on the schedule is C02's business)
	AllFail bool
	// MaxProcs: what runtime.GOMAXPROCS(0) answers (0 = the number of CPUs). The bound on tool
	// processes is the number of CPUs of the machine, whatever GOMAXPROCS has been raised to
	MaxProcs int
}

type c20Expect struct {
	tool   string // shellcheck | pyflakes
	shell  string // --shell argument for shellcheck
	stdin  string
	file   int
	line   int
	col    int
	script string
}

// c20EffectiveShell is the reference: step, job default, workflow default, runner default.
func c20EffectiveShell(f *c20File, j *c20Job, s *c20Step) string {
	switch {
	case s.Shell != "":
		return s.Shell
	case j.DefaultShell != "":
		return j.DefaultShell
	case f.DefaultShell != "":
		return f.DefaultShell
	}
	l := strings.ToLower(j.RunsOn)
	if l == "windows" || strings.HasPrefix(l, "windows-") {
		return "pwsh"
	}
	return "bash"
}

// c20Sanitize is the reference for placeholder replacement: each ${{ ... }} (up to the first }}
// after it) becomes underscores of the same length.
var c20SanitizeDontCare bool

func c20Sanitize(s string) string {
	var b strings.Builder
	for {
		i := strings.Index(s, "${{")
		if i < 0 {
			break
		}
		// the placeholder ends at the first }} that does not stand inside a string literal of the
		// expression ('...', with '' for a quote)
		j, quoted := -1, false
		for k := i + 3; k < len(s); k++ {
			if s[k] == '\'' {
				quoted = !quoted
			} else if !quoted && s[k] == '}' && k+1 < len(s) && s[k+1] == '}' {
				j = k - i
				break
			}
		}
		if j < 0 {
			if strings.Contains(s[i:], "}}") {
				// a }} follows but only inside an unterminated string literal: the expression is
				// malformed (and reported as such); what the tool gets then is not claimed
				c20SanitizeDontCare = true
			}
			break
		}
		b.WriteString(s[:i])
		b.WriteString(strings.Repeat("_", j+2))
		s = s[i+j+2:]
	}
	b.WriteString(s)
	return b.String()
}

// render generates the YAML of every file and the expected invocations.
func (sc *c20Scenario) render() (texts []string, exp []c20Expect) {
	for fi := range sc.Files {
		f := &sc.Files[fi]
		var b strings.Builder
		line := 1
		w := func(s string) { b.WriteString(s + "\n"); line++ }
		w("on: push")
		if f.DefaultShell != "" {
			w("defaults:")
			w("  run:")
			w("    shell: " + f.DefaultShell)
		}
		w("jobs:")
		for ji := range f.Jobs {
			j := &f.Jobs[ji]
			w(fmt.Sprintf("  j%d:", ji))
			w("    runs-on: " + j.RunsOn)
			if j.DefaultsWithoutShell && j.DefaultShell == "" {
				w("    defaults:")
				w("      run:")
				w("        working-directory: sub")
			}
			if j.DefaultShell != "" {
				w("    defaults:")
				w("      run:")
				w("        shell: " + j.DefaultShell)
			}
			w("    steps:")
			for si := range j.Steps {
				s := &j.Steps[si]
				script := fmt.Sprintf("echo m%d%d%d %s", fi, ji, si, s.Script)
				if s.Plain {
					script = s.Script
				}
				runLine := line
				w("      - run: " + script)
				if s.Shell != "" {
					w("        shell: " + s.Shell)
				}
				eff := c20EffectiveShell(f, j, s)
				e := c20Expect{file: fi, line: runLine, col: 9, script: script}
				switch {
				case eff == "bash" || strings.HasPrefix(eff, "bash "):
					e.tool, e.shell = "shellcheck", "bash"
					e.stdin = "set -eo pipefail\n" + c20Sanitize(script) + "\n"
				case eff == "sh" || strings.HasPrefix(eff, "sh "):
					e.tool, e.shell = "shellcheck", "sh"
					e.stdin = "set -e\n" + c20Sanitize(script) + "\n"
				case eff == "python" || strings.HasPrefix(eff, "python "):
					e.tool = "pyflakes"
					e.stdin = c20Sanitize(script)
				default:
					continue
				}
				exp = append(exp, e)
			}
		}
		texts = append(texts, b.String())
	}
	return
}

type c20Outcome struct {
	name   string
	fault  bool
	issues int
	out    vexec.Outcome
}

var c20Menus = map[string][]c20Outcome{
	"shellcheck": {
		{"1issue", false, 1, vexec.Outcome{Stdout: []byte(`[{"line":2,"column":1,"level":"warning","code":2086,"message":"Double quote."}]`), ExitCode: 1}},
		{"clean", false, 0, vexec.Outcome{Stdout: []byte(`[]`)}},
		// an issue located on the first line of the tool's input (the set-up line actionlint prepends) or before it
		{"issues-on-lines-1-and-0", false, 2, vexec.Outcome{Stdout: []byte(`[{"line":1,"column":1,"level":"warning","code":2148,"message":"Tips."},{"line":0,"column":0,"level":"error","code":1000,"message":"Whole file."}]`), ExitCode: 1}},
		{"2issues", false, 2, vexec.Outcome{Stdout: []byte(`[{"line":2,"column":1,"level":"warning","code":2086,"message":"Double quote."},{"line":2,"column":3,"level":"info","code":2016,"message":"Other."}]`), ExitCode: 1}},
		{"exit-nonzero-empty-stdout", true, 0, vexec.Outcome{ExitCode: 2, Stderr: []byte("boom")}},
		{"killed-by-signal", true, 0, vexec.Outcome{ExitCode: -1}},
		{"killed-after-json-output", true, 0, vexec.Outcome{ExitCode: -1, Stdout: []byte(`[]`)}},
		{"killed-after-partial-issues", true, 0, vexec.Outcome{ExitCode: -1, Stdout: []byte(`[{"line":2,"column":1,"level":"warning","code":2086,"message":"Double quote."}]`)}},
		{"start-failure", true, 0, vexec.Outcome{StartErr: errors.New("fork/exec /fake/shellcheck: exec format error")}},
		{"stdin-pipe-error", true, 0, vexec.Outcome{PipeErr: errors.New("pipe: too many open files")}},
		{"stdin-write-error", true, 0, vexec.Outcome{WriteErr: errors.New("write |1: broken pipe")}},
		{"non-json-stdout", true, 0, vexec.Outcome{Stdout: []byte("shellcheck: internal error")}},
		{"json-then-garbage", true, 0, vexec.Outcome{Stdout: []byte("[]\nshellcheck: internal error")}},
		{"two-issue-lists", true, 0, vexec.Outcome{Stdout: []byte(`[{"line":2,"column":1,"level":"warning","code":2086,"message":"Double quote."}]` + "\n" + `[{"line":2,"column":3,"level":"info","code":2016,"message":"Other."}]`), ExitCode: 1}},
	},
	"pyflakes": {
		{"1issue", false, 1, vexec.Outcome{Stdout: []byte("<stdin>:1:1: 'os' imported but unused\n"), ExitCode: 1}},
		{"clean", false, 0, vexec.Outcome{}},
		{"2issues", false, 2, vexec.Outcome{Stdout: []byte("<stdin>:1:1: 'os' imported but unused\n<stdin>:2:1: undefined name 'x'\n"), ExitCode: 1}},
		{"exit-nonzero-empty-stdout", true, 0, vexec.Outcome{ExitCode: 1}},
		{"killed-by-signal", true, 0, vexec.Outcome{ExitCode: -1}},
		{"killed-after-partial-output", true, 0, vexec.Outcome{ExitCode: -1, Stdout: []byte("<stdin>:1:1: 'os' imported but unused\n")}},
		// one issue (a syntax error) whose echoed source line holds the marker of an issue line
		{"1issue-echoing-the-marker", false, 1, vexec.Outcome{Stdout: []byte("<stdin>:1:30: unexpected EOF while parsing\nprint(\"see <stdin>:1:1: foo\", (\n                             ^\n"), ExitCode: 1}},
		// the stream handed to the rule is stdout+stderr combined: a crash writes only to stderr
		{"crash-traceback-on-stderr", true, 0, vexec.Outcome{ExitCode: 1, Stdout: []byte("Traceback (most recent call last):\n  File \"<frozen runpy>\", line 198, in _run_module_as_main\n/usr/bin/python3: No module named pyflakes\n")}},
		// a failure message that mentions <stdin>: in the middle of a line: no issue line at all
		{"fatal-message-mentioning-stdin", true, 0, vexec.Outcome{ExitCode: 1, Stdout: []byte("pyflakes: fatal: cannot read <stdin>: broken\n")}},
		{"start-failure", true, 0, vexec.Outcome{StartErr: errors.New("fork/exec /fake/pyflakes: exec format error")}},
		{"stdin-pipe-error", true, 0, vexec.Outcome{PipeErr: errors.New("pipe: too many open files")}},
		{"stdin-write-error", true, 0, vexec.Outcome{WriteErr: errors.New("write |1: broken pipe")}},
	},
}

type c20Decision struct {
	tool string
	idx  int
}

type c20Run struct {
	decisions  []c20Decision
	finished   []vexec.Invocation
	finOut     []vexec.Outcome
	errs       []*Error
	err        error
	running    int // processes still running when Lint* returned
	unfinished int
	out        string
}

var c20Cur *c20Run
var c20AllFail bool

func c20Install() {
	vexec.LookPathFn = func(file string) (string, error) {
		switch file {
		case "shellcheck", "pyflakes":
			return "/fake/" + file, nil
		}
		return "", &vexec.Error{Name: file, Err: vexec.ErrNotFound}
	}
	vexec.Handler = func(name string, args []string) vexec.Outcome {
		tool := filepath.Base(name)
		menu := c20Menus[tool]
		if c20AllFail {
			for i, o := range menu {
				if o.name == "exit-nonzero-empty-stdout" {
					c20Cur.decisions = append(c20Cur.decisions, c20Decision{tool, i})
					return o.out
				}
			}
		}
		c := 0
		if x := vsched.Cur(); x != nil {
			c = x.Choose(len(menu), tool)
		}
		c20Cur.decisions = append(c20Cur.decisions, c20Decision{tool, c})
		return menu[c].out
	}
	vexec.Finished = func(inv vexec.Invocation, out vexec.Outcome) {
		c20Cur.finished = append(c20Cur.finished, inv)
		c20Cur.finOut = append(c20Cur.finOut, out)
	}
}

func c20Uninstall() {
	vexec.Handler, vexec.Finished, vexec.LookPathFn = nil, nil, nil
}

// c20Judge is the oracle for one finished execution.
func c20Judge(sc *c20Scenario, exp []c20Expect, x *vsched.Exec, run *c20Run) string {
	faults := []string{}
	for _, d := range run.decisions {
		if o := c20Menus[d.tool][d.idx]; o.fault {
			faults = append(faults, d.tool+":"+o.name)
		}
	}
	if x.ExecRunningMax > sc.CPUs {
		return fmt.Sprintf("too-many-processes\x00%d tool processes ran at once, the machine has %d CPUs", x.ExecRunningMax, sc.CPUs)
	}
	if run.running > 0 {
		return fmt.Sprintf("returned-while-process-running\x00%s returned (err=%v) while %d tool process(es) were still running", sc.API, run.err, run.running)
	}
	if run.unfinished > 0 {
		return fmt.Sprintf("returned-before-collected\x00%s returned (err=%v) while %d goroutine(s) of tool invocations had not finished", sc.API, run.err, run.unfinished)
	}
	if sc.BrokenLastRepo {
		if run.err == nil {
			return "broken-config-not-fatal\x00the configuration of the last file's repository cannot be parsed but no fatal error was returned"
		}
		return ""
	}
	if len(faults) > 0 {
		if run.err == nil {
			return fmt.Sprintf("fault-not-fatal:%s\x00tool failure %v did not yield a fatal error; %d diagnostics returned", faults[0], faults, len(run.errs))
		}
		return ""
	}
	if run.err != nil {
		return fmt.Sprintf("unexpected-fatal\x00no tool failed but %s returned error %v", sc.API, run.err)
	}
	// every expected invocation exactly once
	want := []string{}
	for _, e := range exp {
		want = append(want, fmt.Sprintf("%s|%s|%q", e.tool, e.shell, e.stdin))
	}
	got := []string{}
	issuesByStdin := map[string]int{}
	issueList := map[string][]int{} // per (tool, stdin): the issue counts of its invocations
	for i, inv := range run.finished {
		tool := filepath.Base(inv.Name)
		shell := ""
		for k, a := range inv.Args {
			if a == "--shell" && k+1 < len(inv.Args) {
				shell = inv.Args[k+1]
			}
		}
		got = append(got, fmt.Sprintf("%s|%s|%q", tool, shell, inv.Stdin))
		n := 0
		for _, o := range c20Menus[tool] {
			if bytes.Equal(o.out.Stdout, run.finOut[i].Stdout) && o.out.ExitCode == run.finOut[i].ExitCode && !o.fault {
				n = o.issues
			}
		}
		issuesByStdin[tool+"|"+inv.Stdin] += n
		issueList[tool+"|"+inv.Stdin] = append(issueList[tool+"|"+inv.Stdin], n)
	}
	sort.Strings(want)
	sort.Strings(got)
	if strings.Join(want, "\n") != strings.Join(got, "\n") {
		return fmt.Sprintf("invocations\x00tool invocations differ from the expected ones:\n got  %v\n want %v", got, want)
	}
	// one diagnostic per issue at the step's run: key
	wantD := map[string]int{}
	shared := map[string][]string{} // (tool, stdin) handed over by several steps -> their positions
	for _, e := range exp {
		k := e.tool + "|" + e.stdin
		pos := fmt.Sprintf("f%d:%d:%d:%s", e.file, e.line, e.col, e.tool)
		if len(issueList[k]) > 1 {
			shared[k] = append(shared[k], pos)
			continue
		}
		if n := issuesByStdin[k]; n > 0 {
			wantD[pos] += n
		}
	}
	gotD := map[string]int{}
	for _, e := range run.errs {
		fi := 0
		fmt.Sscanf(filepath.Base(e.Filepath), "w%d.yml", &fi)
		if e.Kind != "shellcheck" && e.Kind != "pyflakes" {
			return fmt.Sprintf("foreign-diagnostic\x00unexpected diagnostic %s:%d:%d [%s] %s", e.Filepath, e.Line, e.Column, e.Kind, e.Message)
		}
		if !strings.HasPrefix(e.Message, e.Kind+" reported issue in this script: ") {
			return fmt.Sprintf("diag-message\x00unexpected message %q", e.Message)
		}
		gotD[fmt.Sprintf("f%d:%d:%d:%s", fi, e.Line, e.Column, e.Kind)]++
	}
	// steps whose scripts are equal after sanitising: which invocation belongs to which step cannot
	// be told, so the issue counts of the invocations and the diagnostic counts of the steps are
	// compared as multisets
	for k, poss := range shared {
		var a, b []int
		for _, p := range poss {
			a = append(a, gotD[p])
			delete(gotD, p)
		}
		b = append(b, issueList[k]...)
		sort.Ints(a)
		sort.Ints(b)
		if fmt.Sprint(a) != fmt.Sprint(b) {
			return fmt.Sprintf("diagnostics\x00steps %v share one script: diagnostics per step %v, issues per invocation %v", poss, a, b)
		}
	}
	if fmt.Sprint(wantD) != fmt.Sprint(gotD) {
		return fmt.Sprintf("diagnostics\x00diagnostics per run: key differ: got %v want %v", gotD, wantD)
	}
	return ""
}

func c20Scenarios() []*c20Scenario {
	var scs []*c20Scenario
	ph := "${{ github.sha }}"
	two := "${{ github.sha }} x ${{ github.ref }}"
	one := func(name string, f c20File, cpus int, api string) {
		scs = append(scs, &c20Scenario{Name: name, Files: []c20File{f}, CPUs: cpus, API: api})
	}
	job := func(runsOn, def string, steps ...c20Step) c20Job {
		return c20Job{RunsOn: runsOn, DefaultShell: def, Steps: steps}
	}
	// shell sources, one run step each (single file: LintFile and Lint paths)
	for _, api := range []string{"LintFile", "Lint"} {
		one("step-bash/"+api, c20File{Jobs: []c20Job{job("ubuntu-latest", "", c20Step{Shell: "bash", Script: ph})}}, 2, api)
		one("runner-default/"+api, c20File{Jobs: []c20Job{job("ubuntu-latest", "", c20Step{Shell: "", Script: two})}}, 2, api)
	}
	one("step-sh", c20File{Jobs: []c20Job{job("ubuntu-latest", "", c20Step{Shell: "sh", Script: ph})}}, 2, "LintFile")
	one("step-python", c20File{Jobs: []c20Job{job("ubuntu-latest", "", c20Step{Shell: "python", Script: ph})}}, 2, "LintFile")
	one("step-custom-bash", c20File{Jobs: []c20Job{job("ubuntu-latest", "", c20Step{Shell: "bash -e {0}", Script: ph})}}, 2, "LintFile")
	one("step-custom-python", c20File{Jobs: []c20Job{job("ubuntu-latest", "", c20Step{Shell: "python {0}", Script: "x"})}}, 2, "LintFile")
	one("step-pwsh-unchecked", c20File{Jobs: []c20Job{job("ubuntu-latest", "", c20Step{Shell: "pwsh", Script: ph}, c20Step{Shell: "", Script: "y"})}}, 2, "LintFile")
	one("job-default-python", c20File{Jobs: []c20Job{job("ubuntu-latest", "python", c20Step{Shell: "", Script: ph}, c20Step{Shell: "bash", Script: "x"})}}, 2, "LintFile")
	one("job-default-sh", c20File{Jobs: []c20Job{job("ubuntu-latest", "sh", c20Step{Shell: "", Script: ph})}}, 1, "LintFile")
	one("workflow-default-python", c20File{DefaultShell: "python", Jobs: []c20Job{job("ubuntu-latest", "", c20Step{Shell: "", Script: ph}), job("ubuntu-latest", "bash", c20Step{Shell: "", Script: "x"})}}, 2, "LintFile")
	// a job whose defaults.run sets no shell keeps the workflow's default shell (both tools)
	one("workflow-default-python-job-defaults-without-shell", c20File{DefaultShell: "python", Jobs: []c20Job{{RunsOn: "ubuntu-latest", Steps: []c20Step{{Shell: "", Script: ph}}, DefaultsWithoutShell: true}, {RunsOn: "ubuntu-latest", Steps: []c20Step{{Shell: "", Script: "x"}}}}}, 2, "LintFile")
	one("workflow-default-bash-job-defaults-without-shell", c20File{DefaultShell: "bash", Jobs: []c20Job{{RunsOn: "ubuntu-latest", Steps: []c20Step{{Shell: "", Script: "y"}}}, {RunsOn: "windows-latest", Steps: []c20Step{{Shell: "", Script: ph}}, DefaultsWithoutShell: true}}}, 2, "Lint")
	one("workflow-default-bash-job-python", c20File{DefaultShell: "bash", Jobs: []c20Job{job("ubuntu-latest", "python", c20Step{Shell: "", Script: ph})}}, 2, "LintFile")
	one("windows-runner", c20File{Jobs: []c20Job{job("windows-latest", "", c20Step{Shell: "", Script: ph}, c20Step{Shell: "bash", Script: "x"}), job("ubuntu-latest", "", c20Step{Shell: "", Script: "z"})}}, 2, "LintFile")
	one("windows-runner-job-default-bash", c20File{Jobs: []c20Job{job("Windows-2022", "bash", c20Step{Shell: "", Script: ph})}}, 2, "LintFile")
	// semaphore smaller than the number of invocations
	one("three-steps-cpu1", c20File{Jobs: []c20Job{job("ubuntu-latest", "", c20Step{Shell: "", Script: ph}, c20Step{Shell: "python", Script: "x"}, c20Step{Shell: "sh", Script: "y"})}}, 1, "LintFile")
	one("three-steps-cpu2", c20File{Jobs: []c20Job{job("ubuntu-latest", "", c20Step{Shell: "", Script: ph}, c20Step{Shell: "python", Script: "x"}, c20Step{Shell: "sh", Script: "y"})}}, 2, "LintFile")
	one("two-jobs-cpu1", c20File{Jobs: []c20Job{job("ubuntu-latest", "", c20Step{Shell: "", Script: ph}), job("ubuntu-latest", "python", c20Step{Shell: "", Script: two})}}, 1, "Lint")
	// equal scripts: every step is handed to the tool, also when the text (after sanitising) was seen before
	same := c20Step{Shell: "", Script: "echo same $FOO", Plain: true}
	one("same-script-two-steps", c20File{Jobs: []c20Job{job("ubuntu-latest", "", same, same)}}, 2, "LintFile")
	one("same-script-two-jobs", c20File{Jobs: []c20Job{job("ubuntu-latest", "", same), job("ubuntu-latest", "", same, c20Step{Shell: "sh", Script: "echo same $FOO", Plain: true})}}, 2, "Lint")
	one("placeholder-only-difference", c20File{Jobs: []c20Job{job("ubuntu-latest", "", c20Step{"", "echo ${{ github.sha }} $FOO", true}, c20Step{"", "echo ${{ github.ref }} $FOO", true})}}, 1, "LintFile")
	one("placeholder-with-braces-in-a-string", c20File{Jobs: []c20Job{job("ubuntu-latest", "", c20Step{Shell: "", Script: "echo ${{ format('{0}}}', github.sha) }} end"}, c20Step{Shell: "python", Script: "print(${{ '}}' }})"})}}, 2, "LintFile")
	one("same-python-script", c20File{DefaultShell: "python", Jobs: []c20Job{job("ubuntu-latest", "", c20Step{Shell: "", Script: "import os", Plain: true}), job("ubuntu-latest", "", c20Step{Shell: "", Script: "import os", Plain: true})}}, 2, "LintFile")
	// multi-file runs
	two2 := func(name string, a, b c20File, cpus int) {
		scs = append(scs, &c20Scenario{Name: name, Files: []c20File{a, b}, CPUs: cpus, API: "LintFiles"})
	}
	fb := c20File{Jobs: []c20Job{job("ubuntu-latest", "", c20Step{Shell: "", Script: ph})}}
	fp := c20File{Jobs: []c20Job{job("ubuntu-latest", "", c20Step{Shell: "python", Script: "x"})}}
	fbp := c20File{Jobs: []c20Job{job("ubuntu-latest", "", c20Step{Shell: "", Script: ph}, c20Step{Shell: "python", Script: "x"})}}
	two2("files-bash+python-cpu1", fb, fp, 1)
	two2("files-bash+python-cpu2", fb, fp, 2)
	two2("files-bash+bash-cpu1", fb, fb, 1)
	two2("files-mixed+python-cpu2", fbp, fp, 2)
	for _, cpus := range []int{1, 2} {
		scs = append(scs, &c20Scenario{Name: fmt.Sprintf("files-mixed+broken-repository-cpu%d", cpus), Files: []c20File{fbp, fp}, CPUs: cpus, API: "LintFiles", BrokenLastRepo: true})
	}
	// every tool process fails
	for _, cpus := range []int{1, 2} {
		for _, api := range []string{"LintFile", "Lint"} {
			scs = append(scs, &c20Scenario{Name: fmt.Sprintf("all-fail-three-steps-cpu%d/%s", cpus, api), CPUs: cpus, API: api, AllFail: true,
				Files: []c20File{{Jobs: []c20Job{job("ubuntu-latest", "", c20Step{Shell: "", Script: "a"}, c20Step{Shell: "python", Script: "x"}, c20Step{Shell: "sh", Script: "b"}, c20Step{Shell: "python", Script: "y"})}}}})
		}
		scs = append(scs, &c20Scenario{Name: fmt.Sprintf("all-fail-two-files-cpu%d", cpus), CPUs: cpus, API: "LintFiles", AllFail: true,
			Files: []c20File{{Jobs: []c20Job{job("ubuntu-latest", "", c20Step{Shell: "", Script: "a"}, c20Step{Shell: "", Script: "b"})}}, {Jobs: []c20Job{job("ubuntu-latest", "", c20Step{Shell: "python", Script: "x"}, c20Step{Shell: "", Script: "c"})}}}})
	}
	// GOMAXPROCS raised above the number of CPUs (GOMAXPROCS=n in the environment)
	scs = append(scs, &c20Scenario{Name: "three-steps-cpu1-gomaxprocs3", CPUs: 1, MaxProcs: 3, API: "LintFile",
		Files: []c20File{{Jobs: []c20Job{job("ubuntu-latest", "", c20Step{Shell: "", Script: ph}, c20Step{Shell: "python", Script: "x"}, c20Step{Shell: "sh", Script: "y"})}}}})
	scs = append(scs, &c20Scenario{Name: "two-jobs-cpu1-gomaxprocs2", CPUs: 1, MaxProcs: 2, API: "Lint",
		Files: []c20File{{Jobs: []c20Job{job("ubuntu-latest", "", c20Step{Shell: "", Script: ph}), job("ubuntu-latest", "python", c20Step{Shell: "", Script: two})}}}})
	scs = append(scs, &c20Scenario{Name: "files-bash+python-cpu1-gomaxprocs4", CPUs: 1, MaxProcs: 4, API: "LintFiles", Files: []c20File{fb, fp}})
	two2("files-none+bash-cpu1", c20File{Jobs: []c20Job{job("ubuntu-latest", "", c20Step{Shell: "pwsh", Script: "x"})}}, fb, 1)
	return scs
}

func c20RunScenario(t *testing.T, r *vReport, sc *c20Scenario, maxPreempt, maxFault int, replay []int) {
	texts, exp := sc.render()
	dir := vTempDir(t, "c20-")
	files := map[string]string{".git/HEAD": "ref: refs/heads/main\n"}
	var paths []string
	for i, tx := range texts {
		p := fmt.Sprintf(".github/workflows/w%d.yml", i)
		if sc.BrokenLastRepo && i == len(texts)-1 {
			files["other/.git/HEAD"] = "ref: refs/heads/main\n"
			files["other/.github/actionlint.yaml"] = "paths: [\n"
			p = "other/" + p
		}
		files[p] = tx
		paths = append(paths, filepath.Join(dir, p))
	}
	vWriteFiles(t, dir, files)
	c20Install()
	defer c20Uninstall()
	c20AllFail = sc.AllFail
	defer func() { c20AllFail = false }()
	body := func(x *vsched.Exec) string {
		run := &c20Run{}
		c20Cur = run
		var out bytes.Buffer
		l, err := NewLinter(&out, &LinterOptions{Shellcheck: "shellcheck", Pyflakes: "pyflakes", WorkingDir: dir})
		if err != nil {
			panic(err)
		}
		switch sc.API {
		case "LintFiles":
			run.errs, run.err = l.LintFiles(paths, nil)
		case "LintFile":
			run.errs, run.err = l.LintFile(paths[0], nil)
		case "Lint":
			run.errs, run.err = l.Lint(paths[0], []byte(texts[0]), nil)
		}
		run.running = x.ExecRunning
		run.unfinished = x.Unfinished()
		run.out = out.String()
		var ds []string
		for _, e := range run.errs {
			ds = append(ds, fmt.Sprintf("%s:%d:%d:%s", filepath.Base(e.Filepath), e.Line, e.Column, e.Kind))
		}
		var dec []string
		for _, d := range run.decisions {
			dec = append(dec, d.tool+"="+c20Menus[d.tool][d.idx].name)
		}
		sort.Strings(dec)
		errS := ""
		if run.err != nil {
			errS = "fatal"
		}
		return fmt.Sprintf("err=%s diags=%v decisions=%v output_lines=%d", errS, ds, dec, strings.Count(run.out, "\n"))
	}
	cfg := vsched.Config{MaxPreempt: maxPreempt, MaxFault: maxFault, MaxDev: 0, DevSites: map[int]bool{}, NumCPU: sc.CPUs, MaxProcs: sc.MaxProcs}
	if replay != nil {
		for k := 0; k < 2; k++ {
			x, obs := vsched.Replay(cfg, replay, body)
			v := c20Judge(sc, exp, x, c20Cur)
			fmt.Printf("replay %d: obs=%s\n verdict=%q\n trace:\n  %s\n", k, obs, strings.ReplaceAll(v, "\x00", ": "), strings.Join(x.Trace(), "\n  "))
			if v != "" {
				parts := strings.SplitN(v, "\x00", 2)
				r.Violation(parts[0], parts[1], map[string]any{"scenario": sc.Name, "choices": replay})
			}
		}
		r.Class("replay", true)
		return
	}
	if len(exp) == 0 {
		r.HarnessError("scenario %s expects no invocation", sc.Name)
	}
	res := vExplore(r, &vScenario{
		Name: sc.Name, Cfg: cfg, Body: body, MinOutcomes: 2,
		Check: func(x *vsched.Exec, obs string) string { return c20Judge(sc, exp, x, c20Cur) },
	})
	for o, n := range res.Outcomes {
		_ = n
		// class: scenario-independent outcome shape
		shape := o
		if i := strings.Index(o, " output_lines"); i >= 0 {
			shape = o[:i]
		}
		r.Class(vTrunc(sc.API+" "+shape, 200), strings.Contains(o, "fatal") || strings.Contains(o, "issue"))
	}
	r.Sample(map[string]any{"scenario": sc.Name, "files": texts, "expected_invocations": len(exp), "executions": res.Execs, "distinct_observations": len(res.Outcomes),
		"preemptions_used": res.PreemptUsed, "faults_used": res.FaultUsed, "threads": res.MaxThreads, "exhaustive": res.Exhaustive})
	if res.MaxThreads < 2 && res.Execs > 2 {
		r.HarnessError("scenario %s never started a second thread", sc.Name)
	}
}

func TestVerifC20(t *testing.T) {
	r := vNewReport("C20")
	defer r.Write(t)
	maxPreempt, maxFault, sanLen := 2, 1, 8
	if vThorough() {
		maxPreempt, maxFault, sanLen = 3, 2, 9
	}
	r.Bounds["preemptions"] = maxPreempt
	r.Bounds["non_default_tool_outcomes"] = maxFault
	r.Bounds["sanitize_string_length"] = sanLen
	r.Extra["rule"] = "per scenario (files<=2, jobs<=2, run steps<=3, every shell source, semaphore size 1|2): all interleavings of the real Linter/concurrentProcess/rule callbacks over scripted os/exec up to the preemption bound x all per-invocation tool outcomes (11 shellcheck, 9 pyflakes) with at most F non-default answers; plus a stand-in tool run through the real os/exec with scripts of 9 sizes around the pipe capacity x {1, 3} steps; plus sanitizeExpressionsInScript on all strings <= L over {$,{,},a,space,newline}. class = observation shape (fatal?, diagnostics, outcomes); non-trivial = a tool reported an issue or failed"
	r.Extra["assumptions"] = []string{"tool processes are scripted (vexec); the real os/exec is exercised only by the stand-in tool of the real-process slice (script sizes 0 .. 1 MiB)", "RWMutex writer preference and semaphore FIFO order are not modelled (a superset of interleavings is explored)", "scheduling points are the sync operations; data-race freedom between them is supported by a separate -race run, not decided here"}
	scs := c20Scenarios()

	if raw := vReplayInput(); raw != nil {
		var c struct {
			Scenario string `json:"scenario"`
			Choices  []int  `json:"choices"`
			Script   string `json:"script"`
		}
		if err := jsonUnmarshal(raw, &c); err != nil {
			t.Fatal(err)
		}
		if strings.HasPrefix(c.Scenario, "real-process") {
			c20RealProcess(t, r)
			return
		}
		if c.Scenario == "" {
			c20SanitizeCheck(r, c.Script)
			return
		}
		for _, sc := range scs {
			if sc.Name == c.Scenario {
				c20RunScenario(t, r, sc, maxPreempt, maxFault, c.Choices)
			}
		}
		return
	}

	for _, sc := range scs {
		if r.Expired() {
			break
		}
		c20RunScenario(t, r, sc, maxPreempt, maxFault, nil)
	}
	if r.Shard == 0 {
		c20RealProcess(t, r)
	}

	// Engine B part: placeholder replacement keeps length and replaces exactly the placeholders
	alpha := []byte("${}a '\n\\")
	var idx int64
	// longer scripts than the enumeration reaches: }} inside string literals of the expression
	if r.Shard == 0 {
		for _, sc := range []string{"${{'}}'}}", "echo ${{ format('{0}}}', github.sha) }} ${{ '}}' }} end", "${{ 'a''}}' }}x ${{ 1 }}", "a ${{ contains('}}', '${{') }} b", "${{ '' }} }} ${{ '}}'}}",
			// a backslash is an ordinary character of a string literal, also directly before the closing quote
			"${{ format('{0}\\', github.workspace) }} x ${{ 1 }}", "echo ${{ 'a\\' }} ${{ '\\''}}' }} end", "${{ '\\' }}}}"} {
			c20SanitizeCheck(r, sc)
		}
	}
	buf := make([]byte, 0, sanLen)
	for l := 0; l <= sanLen; l++ {
		total := int64(1)
		for i := 0; i < l; i++ {
			total *= int64(len(alpha))
		}
		for v := int64(0); v < total; v++ {
			idx++
			if !r.Mine(idx) {
				continue
			}
			buf = buf[:0]
			x := v
			for i := 0; i < l; i++ {
				buf = append(buf, alpha[x%int64(len(alpha))])
				x /= int64(len(alpha))
			}
			c20SanitizeCheck(r, string(buf))
		}
	}
}

// c20RealProcess: the one part of the integration a scripted os/exec cannot show - how the script
// gets into a real process. A stand-in tool (a shell script that consumes its input and answers
// with one issue) is run through the real os/exec with scripts of sizes around the capacity of a
// pipe (64 KiB): every script is handed over completely, the call returns, the issue arrives.
func c20RealProcess(t *testing.T, r *vReport) {
	dir := vTempDir(t, "c20real-")
	tool := filepath.Join(dir, "fake-shellcheck")
	count := filepath.Join(dir, "count")
	script := "#!/bin/sh\nwc -c >> " + count + "\necho '[{\"line\":1,\"column\":1,\"level\":\"warning\",\"code\":2086,\"message\":\"Double quote.\"}]'\nexit 1\n"
	if err := os.WriteFile(tool, []byte(script), 0o755); err != nil {
		t.Fatal(err)
	}
	overhead := -1
	for _, size := range []int{0, 1, 4095, 4096, 65535, 65536, 65537, 131072, 1 << 20} {
		for _, steps := range []int{1, 3} {
			body := strings.Repeat("echo 12345\n", size/11+1)[:size]
			var b strings.Builder
			b.WriteString("on: push\njobs:\n  a:\n    runs-on: ubuntu-latest\n    steps:\n")
			for k := 0; k < steps; k++ {
				b.WriteString("      - run: |\n")
				for _, l := range strings.Split(strings.TrimSuffix("true\n"+body, "\n"), "\n") {
					b.WriteString("          " + l + "\n")
				}
			}
			src := b.String()
			scriptLen := len(strings.TrimSuffix("true\n"+body, "\n")) + 1 // the block scalar ends with one line break
			os.Remove(count)
			type result struct {
				errs []*Error
				err  error
			}
			done := make(chan result, 1)
			go func() {
				var out bytes.Buffer
				l, err := NewLinter(&out, &LinterOptions{Shellcheck: tool, WorkingDir: dir})
				if err != nil {
					done <- result{nil, err}
					return
				}
				errs, err := l.Lint("<stdin>", []byte(src), nil)
				done <- result{errs, err}
			}()
			r.Evaluations++
			r.Transitions++
			r.Validated++
			what := fmt.Sprintf("real-process script-bytes=%d steps=%d", size, steps)
			replay := map[string]any{"scenario": what}
			select {
			case res := <-done:
				n := 0
				for _, e := range res.errs {
					if e.Kind == "shellcheck" {
						n++
					}
				}
				b, _ := os.ReadFile(count)
				got := strings.Fields(string(b))
				switch {
				case res.err != nil:
					r.Violation("real-process:fatal", fmt.Sprintf("%s: %v", what, res.err), replay)
				case n != steps:
					r.Violation("real-process:diagnostics", fmt.Sprintf("%s: %d shellcheck diagnostics for %d steps", what, n, steps), replay)
				case len(got) != steps:
					r.Violation("real-process:invocations", fmt.Sprintf("%s: the tool ran %d times for %d steps", what, len(got), steps), replay)
				default:
					// the rule may put a fixed prologue before the script: its length is taken from
					// the first (smallest) case and must be the same for every size
					for _, g := range got {
						n, _ := strconv.Atoi(g)
						if overhead < 0 {
							overhead = n - scriptLen
						}
						if w := scriptLen + overhead; n != w || overhead < 0 {
							r.Violation("real-process:stdin-truncated", fmt.Sprintf("%s: the tool received %d bytes, the script has %d (+%d prologue)", what, n, scriptLen, overhead), replay)
						}
					}
				}
			case <-time.After(120 * time.Second):
				r.Violation("real-process:hang", fmt.Sprintf("%s: Lint did not return within 120 s (the tool consumes its input and exits at once)", what), replay)
				return
			}
			r.Class(fmt.Sprintf("real-process steps=%d", steps), true)
		}
	}
}

func c20SanitizeCheck(r *vReport, s string) {
	got := sanitizeExpressionsInScript(s)
	c20SanitizeDontCare = false
	want := c20Sanitize(s)
	r.Evaluations++
	r.Transitions++
	r.Validated++
	if got != want && !c20SanitizeDontCare {
		r.Violation("sanitize", fmt.Sprintf("sanitizeExpressionsInScript(%q) = %q, expected %q", s, got, want), map[string]any{"script": s})
	}
	if len(got) != len(s) {
		r.Violation("sanitize-length", fmt.Sprintf("sanitizeExpressionsInScript(%q) changes the length (%d -> %d), reported offsets become invalid", s, len(s), len(got)), map[string]any{"script": s})
	}
	r.Class(fmt.Sprintf("sanitize:placeholders=%d", strings.Count(want, "_")/5), strings.Contains(want, "_"))
}

// TestVerifC20Race is the free-running -race pass over the scenario bodies (real goroutines and
// sync primitives, scripted tools with default outcomes and a failing one); sampling, supporting
// evidence only.
func TestVerifC20Race(t *testing.T) {
	var mu sync.Mutex
	n := 0
	vexec.LookPathFn = func(file string) (string, error) { return "/fake/" + file, nil }
	vexec.Handler = func(name string, args []string) vexec.Outcome {
		mu.Lock()
		n++
		k := n
		mu.Unlock()
		menu := c20Menus[filepath.Base(name)]
		return menu[k%3].out // 1 issue, clean, 2 issues in turn
	}
	vexec.Finished = nil
	defer c20Uninstall()
	reps := vEnvInt("VERIF_RACE_REPS", 6)
	runs := 0
	for _, procs := range []int{2, 4, 16} {
		old := runtime.GOMAXPROCS(procs)
		for rep := 0; rep < reps; rep++ {
			for _, sc := range c20Scenarios() {
				texts, _ := sc.render()
				dir := vTempDir(t, "c20race-")
				files := map[string]string{".git/HEAD": "ref: refs/heads/main\n"}
				var paths []string
				for i, tx := range texts {
					p := fmt.Sprintf(".github/workflows/w%d.yml", i)
					files[p] = tx
					paths = append(paths, filepath.Join(dir, p))
				}
				vWriteFiles(t, dir, files)
				var out bytes.Buffer
				l, err := NewLinter(&out, &LinterOptions{Shellcheck: "shellcheck", Pyflakes: "pyflakes", WorkingDir: dir})
				if err != nil {
					t.Fatal(err)
				}
				if _, err := l.LintFiles(paths, nil); err != nil {
					t.Fatal(err)
				}
				runs++
			}
		}
		runtime.GOMAXPROCS(old)
	}
	// the command runner itself used by several goroutines at once (as the repository's own
	// TestProcessRunConcurrentlyAndWait does): run() and wait() of one externalCommand
	for rep := 0; rep < reps*4; rep++ {
		proc := newConcurrentProcess(3)
		cmd, err := proc.newCommandRunner("shellcheck", false)
		if err != nil {
			t.Fatal(err)
		}
		var wg sync.WaitGroup
		for g := 0; g < 4; g++ {
			wg.Add(1)
			go func(g int) {
				defer wg.Done()
				for k := 0; k < 3; k++ {
					cmd.run([]string{"-"}, "echo", func(b []byte, err error) error {
						if g == 1 && k == 1 {
							return fmt.Errorf("dummy failure")
						}
						return nil
					})
				}
			}(g)
		}
		wg.Wait()
		_ = cmd.wait()
		proc.wait()
		runs++
	}
	fmt.Printf("VERIF-RACE-RUNS %d\n", runs)
}
