//go:build go1.23

package actionlint

// C10 — multi-file runs: per-file results are isolated, files are attributed to the repository
// that contains them, shared tables / configuration are never modified.
//
// Engine A: LintFiles on the real Linter under the controlled scheduler; for every scenario every
// non-empty subset and argument order of its files x all interleavings up to the preemption bound
// x semaphore size {1, 2}. Oracle: per file, the diagnostics equal LintFile alone on a fresh
// Linter; defects of a shared broken callee are reported exactly once over the run; the deep
// fingerprint of all shared tables and of every Config is unchanged (checked at every scheduling
// point for the small tables, at the end of every execution for all).

import (
	"bytes"
	"fmt"
	"os"
	"path/filepath"
	"runtime"
	"sort"
	"strings"
	"testing"

	"github.com/rhysd/actionlint/verifshim/vexec"
	"github.com/rhysd/actionlint/verifshim/vsched"
)

const c10Job = "    runs-on: ubuntu-latest\n    steps:\n"

var c10Tree = map[string]string{
	// ---- repository "repo"
	"repo/.git/HEAD":                     "ref: refs/heads/main\n",
	"repo/.github/actionlint.yaml":       "self-hosted-runner:\n  labels:\n    - foo-runner\nconfig-variables:\n  - ZZZ_VAR\n  - MMM_VAR\n  - AAA_VAR\n",
	"repo/.github/actions/ok/action.yml": "name: ok\ndescription: ok action\ninputs:\n  Name:\n    required: true\n  opt:\n    default: x\noutputs:\n  Out:\n    description: o\nruns:\n  using: composite\n  steps:\n    - run: echo\n      shell: bash\n",
	// a second action whose path differs from "ok" only in letter case (two actions on a
	// case-sensitive file system), with another interface
	"repo/.github/actions/OK/action.yml":     "name: OK\ndescription: the other action\ninputs:\n  token:\n    required: true\noutputs:\n  Res:\n    description: o\nruns:\n  using: composite\n  steps:\n    - run: echo\n      shell: bash\n",
	"repo/.github/workflows/s1c.yml":         "on: push\njobs:\n  c:\n" + c10Job + "      - uses: ./.github/actions/OK\n        id: s\n        with:\n          token: t\n          name: n\n      - run: echo ${{ steps.s.outputs.res }} ${{ steps.s.outputs.out }}\n",
	"repo/.github/actions/nodesc/action.yml": "name: nodesc\ninputs:\n  name:\n    required: false\nruns:\n  using: composite\n  steps:\n    - run: echo\n      shell: bash\n",
	"repo/.github/actions/broken/action.yml": "name: [broken\n",
	// S1: two files sharing a well-formed local action
	"repo/.github/workflows/s1a.yml": "on: push\njobs:\n  a:\n" + c10Job + "      - uses: ./.github/actions/ok\n        with:\n          nme: x\n      - uses: ./.github/actions/ok\n        id: s\n        with:\n          name: x\n      - run: echo ${{ steps.s.outputs.nope }} ${{ steps.s.outputs.out }}\n",
	"repo/.github/workflows/s1b.yml": "on: push\njobs:\n  b:\n" + c10Job + "      - uses: ./.github/actions/ok\n        with:\n          name: y\n          extra: z\n",
	// S2: caller + callee reusable workflow
	"repo/.github/workflows/s2callee.yml": "on:\n  workflow_call:\n    inputs:\n      Num:\n        type: number\n        required: true\n      str:\n        type: string\n        default: d\n        required: true\n      FLAG:\n        type: boolean\n    secrets:\n      Tok:\n        required: true\n    outputs:\n      Res:\n        value: x\njobs:\n  j:\n" + c10Job + "      - run: echo ${{ inputs.num }} ${{ inputs.nope }}\n",
	"repo/.github/workflows/s2caller.yml": "on: push\njobs:\n  c:\n    uses: ./.github/workflows/s2callee.yml\n    with:\n      num: abc\n      unknown: 1\n    secrets:\n      other: x\n  d:\n    needs: c\n" + c10Job + "      - run: echo ${{ needs.c.outputs.res }} ${{ needs.c.outputs.nope }}\n",
	// an ill-formed spec whose cleaned path is the well-formed callee's
	"repo/.github/workflows/s2bad.yml":     "on: push\njobs:\n  x:\n    uses: ./x@y/../.github/workflows/s2callee.yml\n  y:\n    uses: ./.github/workflows/../workflows/s2callee.yml\n    with:\n      num: 1\n    secrets: inherit\n",
	"repo/.github/workflows/s2caller2.yml": "on: push\njobs:\n  c:\n    uses: ./.github/workflows/s2callee.yml\n    with:\n      num: 1\n      flag: xyz\n    secrets: inherit\n",
	// S3: runner labels / config variables depend on the repository's configuration
	"repo/.github/workflows/s3a.yml": "on: push\njobs:\n  a:\n    runs-on: foo-runner\n    steps:\n      - run: echo ${{ vars.ZZZ_VAR }} ${{ vars.NOPE }}\n",
	// S4: messages formatted from shared slices
	"repo/.github/workflows/s4a.yml": "on:\n  issues:\n    types: [bogus]\n  pull_request:\n    types: [nope]\njobs:\n  a:\n" + c10Job + "      - run: echo ${{ vars.UNDEFINED_ONE }}\n      - run: echo\n        shell: nosuchshell\n",
	"repo/.github/workflows/s4b.yml": "on:\n  pull_request:\n    types: [wrong]\npermissions:\n  nope: read\njobs:\n  b:\n    runs-on: nosuchlabel\n    steps:\n      - run: echo ${{ vars.UNDEFINED_TWO }} ${{ nosuchcontext.x }} ${{ nosuchfunc() }}\n",
	// S5: two files using the same broken local action / a local action with metadata defects / a
	// missing reusable workflow
	"repo/.github/workflows/s5a.yml": "on: push\njobs:\n  a:\n" + c10Job + "      - uses: ./.github/actions/broken\n      - uses: ./.github/actions/nodesc\n  w:\n    uses: ./.github/workflows/missing.yml\n",
	"repo/.github/workflows/s5b.yml": "on: push\njobs:\n  b:\n" + c10Job + "      - uses: ./.github/actions/nodesc\n      - uses: ./.github/actions/broken\n  w:\n    uses: ./.github/workflows/missing.yml\n",
	// S7: files that stop early (YAML syntax error, empty document, not a mapping) next to ordinary ones
	"repo/.github/workflows/s5c.yml":     "on: push\njobs:\n  c:\n" + c10Job + "      - uses: ./.github/actions/nodesc/\n      - uses: ./.github/../.github/actions/nodesc\n      - uses: ./.github/actions/broken/\n  w:\n    uses: ./.github/workflows/./missing.yml\n",
	"repo/.github/workflows/s7bad.yml":   "on: push\njobs:\n  a: [unclosed\n",
	"repo/.github/workflows/s7empty.yml": "# nothing here\n",
	"repo/.github/workflows/s7seq.yml":   "- on: push\n",
	// a file of no repository in a directory ABOVE the repositories (listed before / after their files)
	"custom-config.yaml": "self-hosted-runner:\n  labels:\n    - custom-runner\nconfig-variables:\n  - CUSTOM_VAR\n",
	"top.yml":            "on: push\njobs:\n  a:\n    runs-on: foo-runner\n    steps:\n      - run: echo ${{ vars.ZZZ_VAR }}\n",
	// S8: files that belong to no repository (null caches): ill-formed local call, local action, plain
	"loose/l1.yml": "on: push\njobs:\n  a:\n    uses: ./foo.yml@v1\n  b:\n" + c10Job + "      - uses: ./act\n      - run: echo ${{ vars.X }}\n",
	"loose/l2.yml": "on: push\njobs:\n  a:\n    uses: ./.github/workflows/nothere.yml\n  b:\n    uses: ./foo.yml@v1\n",
	"loose/l3.yml": "on: push\njobs:\n  a:\n    runs-on: foo-runner\n    steps:\n      - run: echo\n",
	// ---- sibling repository whose name shares a prefix
	"repo2/.git/HEAD":                 "ref: refs/heads/main\n",
	"repo2/.github/actionlint.yaml":   "self-hosted-runner:\n  labels:\n    - bar-runner\nconfig-variables:\n  - ONLY_IN_REPO2\n",
	"repo2/.github/workflows/s3c.yml": "on: push\njobs:\n  c:\n    runs-on: bar-runner\n    steps:\n      - run: echo ${{ vars.ONLY_IN_REPO2 }} ${{ vars.ZZZ_VAR }}\n",
	// ---- repository nested inside "repo"
	"repo/sub/.git/HEAD":                 "ref: refs/heads/main\n",
	"repo/sub/.github/actionlint.yaml":   "self-hosted-runner:\n  labels:\n    - sub-runner\n",
	"repo/sub/.github/workflows/s3d.yml": "on: push\njobs:\n  d:\n    runs-on: sub-runner\n    steps:\n      - run: echo ${{ vars.ANYTHING }}\n  e:\n    runs-on: foo-runner\n    steps:\n      - run: echo\n",
	// ---- repository nested inside "repo" whose .git is a FILE (linked worktree / submodule)
	"repo/wt/.git":                          "gitdir: ../.git/worktrees/wt\n",
	"repo/wt/.github/actionlint.yaml":       "self-hosted-runner:\n  labels:\n    - wt-runner\nconfig-variables:\n  - ONLY_IN_WT\n",
	"repo/wt/.github/actions/ok/action.yml": "name: ok\ndescription: the action of the nested repository\ninputs:\n  token:\n    required: true\nruns:\n  using: composite\n  steps:\n    - run: echo\n      shell: bash\n",
	"repo/wt/.github/workflows/s3e.yml":     "on: push\njobs:\n  d:\n    runs-on: wt-runner\n    steps:\n      - run: echo ${{ vars.ONLY_IN_WT }} ${{ vars.ZZZ_VAR }}\n      - uses: ./.github/actions/ok\n  e:\n    runs-on: foo-runner\n    steps:\n      - run: echo\n",
}

type c10Scenario struct {
	Name     string
	Files    []string // relative to the tree root
	Once     []string // message fragments that must appear exactly once over a run in which they can appear
	Format   string
	Config   string // file given as -config-file (relative to the tree root)
	MinFiles int
}

var c10Scenarios = []c10Scenario{
	{Name: "S1-shared-local-action", Files: []string{"repo/.github/workflows/s1a.yml", "repo/.github/workflows/s1b.yml", "repo/.github/workflows/s1c.yml"}, MinFiles: 2},
	{Name: "S2-caller-callee", Files: []string{"repo/.github/workflows/s2caller.yml", "repo/.github/workflows/s2callee.yml", "repo/.github/workflows/s2caller2.yml"}, MinFiles: 2},
	{Name: "S2b-ill-formed-spec-aliasing-the-callee", Files: []string{"repo/.github/workflows/s2bad.yml", "repo/.github/workflows/s2caller.yml"}, MinFiles: 2},
	{Name: "S3-sibling-repositories", Files: []string{"repo/.github/workflows/s3a.yml", "repo2/.github/workflows/s3c.yml", "repo/sub/.github/workflows/s3d.yml"}, MinFiles: 2},
	{Name: "S3b-nested-repository-git-file", Files: []string{"repo/.github/workflows/s3a.yml", "repo/wt/.github/workflows/s3e.yml", "repo/.github/workflows/s1b.yml"}, MinFiles: 2},
	{Name: "S4-shared-slices", Files: []string{"repo/.github/workflows/s4a.yml", "repo/.github/workflows/s4b.yml"}, MinFiles: 1},
	{Name: "S5-broken-callees", Files: []string{"repo/.github/workflows/s5a.yml", "repo/.github/workflows/s5b.yml", "repo/.github/workflows/s5c.yml"}, MinFiles: 2,
		Once: []string{"could not parse action metadata", "description is required in metadata of \"nodesc\"", "could not read reusable workflow file"}},
	{Name: "S7-early-stop", Files: []string{"repo/.github/workflows/s7bad.yml", "repo/.github/workflows/s1a.yml", "repo/.github/workflows/s7seq.yml"}, MinFiles: 2},
	{Name: "S7b-empty", Files: []string{"repo/.github/workflows/s7empty.yml", "repo/.github/workflows/s1b.yml"}, MinFiles: 2},
	{Name: "S8-no-repository", Files: []string{"loose/l1.yml", "loose/l2.yml", "loose/l3.yml"}, MinFiles: 2},
	{Name: "S8b-no-repository-and-repository", Files: []string{"loose/l1.yml", "repo/.github/workflows/s1b.yml"}, MinFiles: 2},
	{Name: "S9-file-above-repositories", Files: []string{"top.yml", "repo/.github/workflows/s3a.yml", "repo2/.github/workflows/s3c.yml"}, MinFiles: 2},
	// the configuration comes from -config-file: the files still belong to their repositories
	// (local actions, reusable workflows)
	{Name: "S1c-config-file-option", Files: []string{"repo/.github/workflows/s1a.yml", "repo/.github/workflows/s2caller.yml", "repo/.github/workflows/s3a.yml"}, MinFiles: 2, Config: "custom-config.yaml"},
	{Name: "S3c-config-file-option-repositories", Files: []string{"repo/.github/workflows/s3a.yml", "repo2/.github/workflows/s3c.yml", "repo/wt/.github/workflows/s3e.yml"}, MinFiles: 2, Config: "custom-config.yaml"},
	{Name: "S6-format", Files: []string{"repo/.github/workflows/s4a.yml", "repo/.github/workflows/s1b.yml"}, MinFiles: 2, Format: "{{range $ := .}}{{$.Filepath}}:{{$.Line}}:{{$.Column}}:{{$.Kind}}\n{{end}}"},
}

func c10Config(root, rel string) string {
	if rel == "" {
		return ""
	}
	return filepath.Join(root, rel)
}

func c10Subsets(files []string, min int) [][]string {
	var out [][]string
	n := len(files)
	for mask := 1; mask < 1<<n; mask++ {
		var sub []string
		for i := 0; i < n; i++ {
			if mask&(1<<i) != 0 {
				sub = append(sub, files[i])
			}
		}
		if len(sub) < min {
			continue
		}
		out = append(out, c18Perms0(sub)...)
	}
	return out
}

func c18Perms0(xs []string) [][]string {
	if len(xs) <= 1 {
		return [][]string{append([]string{}, xs...)}
	}
	var out [][]string
	for i := range xs {
		rest := append(append([]string{}, xs[:i]...), xs[i+1:]...)
		for _, p := range c18Perms0(rest) {
			out = append(out, append([]string{xs[i]}, p...))
		}
	}
	return out
}

func c10DiagKey(e *Error) string {
	return fmt.Sprintf("%d:%d [%s] %s", e.Line, e.Column, e.Kind, e.Message)
}

// c10Alone lints one file alone with a fresh Linter (no explorer attached).
func c10Alone(root, rel, format, config string) ([]string, error) {
	var out bytes.Buffer
	l, err := NewLinter(&out, &LinterOptions{WorkingDir: root, Format: format, ConfigFile: c10Config(root, config)})
	if err != nil {
		return nil, err
	}
	errs, err := l.LintFile(filepath.Join(root, rel), nil)
	if err != nil {
		return nil, err
	}
	var ds []string
	for _, e := range errs {
		ds = append(ds, c10DiagKey(e))
	}
	return ds, nil
}

func c10IsOnce(sc *c10Scenario, d string) bool {
	for _, o := range sc.Once {
		if strings.Contains(d, o) {
			return true
		}
	}
	return false
}

type c10Run struct {
	perFile map[string][]string
	err     error
	out     string
	configs []*Config
}

func TestVerifC10(t *testing.T) {
	r := vNewReport("C10")
	defer r.Write(t)
	maxPreempt := 2
	if vThorough() {
		maxPreempt = 3
	}
	r.Bounds["preemptions"] = maxPreempt
	r.Bounds["semaphore_sizes"] = []int{1, 2}
	r.Extra["rule"] = "15 scenarios (shared local action, caller+callee, sibling/nested repositories (.git directory and .git file), shared-slice messages, broken callees, files that stop early, files outside any repository (also in a directory above the repositories), -format, -config-file; plus, free-running, every workflow of 4 repositories through LintRepository / LintDir / LintFiles with and without an explicit project) x every subset and argument order of their files x semaphore size {1,2} x all interleavings of the real LintFiles up to the preemption bound; oracle: per-file diagnostics = LintFile alone, once-per-run defects exactly once, fingerprints of shared tables and configs unchanged at every scheduling point; class = (scenario, file order, per-file diagnostic counts); non-trivial = more than one file with diagnostics"
	r.Extra["assumptions"] = []string{"data races are outside a cooperative scheduler's reach (supported by a separate free-running -race pass, not decided here)", "GOMAXPROCS is subsumed by interleavings under data-race freedom"}
	root := vTempDir(t, "c10-")
	vWriteFiles(t, root, c10Tree)

	var replay struct {
		Scenario string   `json:"scenario"`
		Choices  []int    `json:"choices"`
		Order    []string `json:"order"`
		CPUs     int      `json:"cpus"`
	}
	isReplay := false
	if raw := vReplayInput(); raw != nil {
		if err := jsonUnmarshal(raw, &replay); err != nil {
			t.Fatal(err)
		}
		isReplay = true
	}

	baseTables := vTableFingerprints()
	var idx int64
	// ---- sequential part: no single lint may modify the shared tables. Inputs: a family of
	// workflows that merge / extend the types of built-in contexts (an expression of a context
	// type where a definition is expected, followed by literal definitions), and every workflow
	// of the repository's test data.
	if !isReplay || replay.Scenario == "sequential" {
		var inputs []struct{ name, src string }
		ctxExprs := []string{"github", "github.event", "github.event.inputs", "github.event.pull_request", "env", "vars", "secrets", "inputs", "needs", "steps", "job", "job.services", "runner", "strategy", "matrix", "fromJSON('{}')", "fromJSON('{\"a\":{\"b\":1}}')"}
		for _, e := range ctxExprs {
			ex := "${{ " + e + " }}"
			head := "on: push\njobs:\n  a:\n    runs-on: ubuntu-latest\n    strategy:\n      matrix:\n"
			tail := "    steps:\n      - run: echo ${{ toJSON(matrix) }} ${{ matrix.zzadded }}\n"
			inputs = append(inputs,
				struct{ name, src string }{"include-expr-then-literal:" + e, head + "        include:\n          - " + ex + "\n          - zzadded: v\n            zzother: {n: 1}\n" + tail},
				struct{ name, src string }{"literal-then-include-expr:" + e, head + "        include:\n          - zzadded: v\n          - " + ex + "\n          - zzthird: w\n" + tail},
				struct{ name, src string }{"rows+include-expr:" + e, head + "        zzadded: [1]\n        include:\n          - " + ex + "\n          - zzadded: {n: 2}\n" + tail},
				struct{ name, src string }{"include-whole-expr:" + e, head + "        zzadded: [1]\n        include: " + ex + "\n" + tail},
				struct{ name, src string }{"matrix-whole-expr:" + e, strings.Replace(head, "matrix:\n", "matrix: "+ex+"\n", 1) + tail},
				struct{ name, src string }{"row-expr:" + e, head + "        zzadded: " + ex + "\n        include:\n          - zzadded: v\n" + tail},
				struct{ name, src string }{"env-expr:" + e, "on: push\nenv: " + ex + "\njobs:\n  a:\n    runs-on: ubuntu-latest\n    env: " + ex + "\n    steps:\n      - run: echo ${{ env.zzadded }}\n        env: " + ex + "\n"},
			)
		}
		repoDir := os.Getenv("VERIF_REPO")
		if repoDir == "" {
			repoDir = "/repo"
		}
		for _, g := range []string{"testdata/examples/*.yaml", "testdata/ok/*.yaml", "testdata/err/*.yaml"} {
			m, _ := filepath.Glob(filepath.Join(repoDir, g))
			sort.Strings(m)
			for _, f := range m {
				if b, err := os.ReadFile(f); err == nil {
					inputs = append(inputs, struct{ name, src string }{strings.TrimPrefix(f, repoDir+"/"), string(b)})
				}
			}
		}
		for i, in := range inputs {
			if !r.Mine(int64(i)) && !isReplay {
				continue
			}
			if isReplay && replay.Order != nil && len(replay.Order) > 0 && replay.Order[0] != in.name {
				continue
			}
			res := vLint(in.src, nil)
			r.Evaluations++
			r.Transitions++
			r.Validated++
			if res.Panic != "" {
				r.Violation("panic-sequential", fmt.Sprintf("%s: %s", in.name, vTrunc(res.Panic, 300)), map[string]any{"scenario": "sequential", "order": []string{in.name}})
			}
			now := vTableFingerprints()
			if d := vDiffFingerprints(baseTables, now); len(d) > 0 {
				class := in.name
				if k := strings.Index(class, ":"); k >= 0 {
					class = class[:k]
				}
				r.Violation("tables-modified-by-one-lint:"+strings.Join(d, ",")+":"+class, fmt.Sprintf("linting %s modified the shared table(s) %v (later lints in the same process see different built-in types)\n%s", in.name, d, vTrunc(in.src, 600)), map[string]any{"scenario": "sequential", "order": []string{in.name}})
				baseTables = now
			}
			r.Class("sequential:"+strings.SplitN(in.name, ":", 2)[0], true)
		}
		if isReplay && replay.Scenario == "sequential" {
			return
		}
	}
	if (r.Shard == 0 && !isReplay) || (isReplay && replay.Scenario == "entry-points") {
		c10EntryPoints(r, root)
		if isReplay {
			return
		}
	}
	for si := range c10Scenarios {
		sc := &c10Scenarios[si]
		alone := map[string][]string{}
		for _, f := range sc.Files {
			ds, err := c10Alone(root, f, sc.Format, sc.Config)
			if err != nil {
				r.HarnessError("%s: linting %s alone failed: %v", sc.Name, f, err)
				return
			}
			alone[f] = ds
		}
		if d := vDiffFingerprints(baseTables, vTableFingerprints()); len(d) > 0 {
			r.Violation("tables-modified-sequential:"+strings.Join(d, ","), fmt.Sprintf("%s: linting the files one by one modified shared tables %v", sc.Name, d), map[string]any{"scenario": sc.Name})
			baseTables = vTableFingerprints()
		}
		for _, order := range c10Subsets(sc.Files, sc.MinFiles) {
			for _, cpus := range []int{1, 2} {
				idx++
				name := fmt.Sprintf("%s|%s|cpus=%d", sc.Name, strings.Join(order, ","), cpus)
				if isReplay {
					if replay.Scenario != name {
						continue
					}
				}
				if r.Expired() {
					return
				}
				order := order
				var paths []string
				for _, f := range order {
					paths = append(paths, filepath.Join(root, f))
				}
				var cur *c10Run
				var cfgBase uint64
				body := func(x *vsched.Exec) string {
					cur = &c10Run{perFile: map[string][]string{}}
					var out bytes.Buffer
					l, err := NewLinter(&out, &LinterOptions{WorkingDir: root, Format: sc.Format, ConfigFile: c10Config(root, sc.Config)})
					if err != nil {
						panic(err)
					}
					// resolve the projects up front so that their configs can be fingerprinted from
					// the first scheduling point on (At is deterministic and idempotent)
					errs, err := l.LintFiles(paths, nil)
					cur.err = err
					cur.out = out.String()
					for _, e := range errs {
						cur.perFile[e.Filepath] = append(cur.perFile[e.Filepath], c10DiagKey(e))
					}
					for _, p := range l.projects.known {
						cur.configs = append(cur.configs, p.config)
					}
					var b strings.Builder
					for _, f := range order {
						fmt.Fprintf(&b, "%s=%d ", filepath.Base(f), len(cur.perFile[f]))
					}
					if err != nil {
						b.WriteString("fatal")
					}
					return b.String()
				}
				_ = cfgBase
				check := func(x *vsched.Exec, obs string) string {
					if cur.err != nil {
						return "fatal\x00LintFiles failed: " + cur.err.Error()
					}
					// attribution + isolation: per-file diagnostics equal the alone run
					once := map[string]int{}
					for _, f := range order {
						var got []string
						for _, d := range cur.perFile[f] {
							if c10IsOnce(sc, d) {
								once[c10OnceKey(sc, d)]++
								continue
							}
							got = append(got, d)
						}
						var want []string
						for _, d := range alone[f] {
							if c10IsOnce(sc, d) {
								continue
							}
							want = append(want, d)
						}
						if strings.Join(got, "\n") != strings.Join(want, "\n") {
							return fmt.Sprintf("isolation:%s\x00file %s: diagnostics differ from linting it alone\n in run: %s\n alone:  %s", c10DiffClass(got, want), f, strings.Join(c10Diff(got, want), " || "), strings.Join(c10Diff(want, got), " || "))
						}
					}
					for f := range cur.perFile {
						found := false
						for _, o := range order {
							if o == f {
								found = true
							}
						}
						if !found {
							return fmt.Sprintf("foreign-file\x00diagnostics attributed to %q which is not an argument", f)
						}
					}
					// once-per-run defects
					expectOnce := map[string]bool{}
					for _, f := range order {
						for _, d := range alone[f] {
							if c10IsOnce(sc, d) {
								expectOnce[c10OnceKey(sc, d)] = true
							}
						}
					}
					for k := range expectOnce {
						if once[k] != 1 {
							return fmt.Sprintf("once-per-run:%s\x00defect %q of a shared callee reported %d times in one run (expected exactly once)", k, k, once[k])
						}
					}
					// shared data
					if d := vDiffFingerprints(baseTables, vTableFingerprints()); len(d) > 0 {
						return fmt.Sprintf("tables-modified:%s\x00shared tables modified by the run: %v", strings.Join(d, ","), d)
					}
					for _, c := range cur.configs {
						if c == nil {
							continue
						}
						if fp, ok := c10ConfigBase[c10ConfigID(c)]; ok && fp != vFingerprint(c) {
							return fmt.Sprintf("config-modified\x00the shared configuration was modified during the run: now %+v", *c)
						}
					}
					return ""
				}
				cfg := vsched.Config{MaxPreempt: maxPreempt, MaxDev: 0, DevSites: map[int]bool{}, NumCPU: cpus}
				cfg.OnPoint = func(x *vsched.Exec) {
					if fp := vFingerprint(AllWebhookTypes); fp != baseTables["AllWebhookTypes"] {
						x.Fail("tables-modified-at-point\x00AllWebhookTypes differs from its initial value at a scheduling point")
					}
				}
				if isReplay {
					for k := 0; k < 2; k++ {
						x, obs := vsched.Replay(cfg, replay.Choices, body)
						v := check(x, obs)
						fmt.Printf("replay %d: obs=%s verdict=%q\n%s\ntrace:\n  %s\n", k, obs, strings.ReplaceAll(v, "\x00", ": "), cur.out, strings.Join(x.Trace(), "\n  "))
						if v != "" {
							parts := strings.SplitN(v, "\x00", 2)
							r.Violation(parts[0], parts[1], map[string]any{"scenario": name, "choices": replay.Choices})
						}
					}
					r.Class("replay", true)
					continue
				}
				c10ConfigBase = map[string]uint64{}
				// configs as loaded from disk (fresh Projects instance), before any lint
				ps := NewProjects()
				for _, p := range paths {
					if pr, err := ps.At(p); err == nil && pr != nil && pr.config != nil {
						c10ConfigBase[c10ConfigID(pr.config)] = vFingerprint(pr.config)
					}
				}
				res := vExplore(r, &vScenario{Name: name, Cfg: cfg, Body: body, Check: check})
				for o := range res.Outcomes {
					multi := 0
					for _, part := range strings.Fields(o) {
						if !strings.HasSuffix(part, "=0") && part != "fatal" {
							multi++
						}
					}
					r.Class(sc.Name+" "+o, multi > 1)
				}
				if idx%7 == 1 {
					r.Sample(map[string]any{"scenario": name, "executions": res.Execs, "pruned": res.Pruned, "hb_states": res.States, "threads": res.MaxThreads, "observations": len(res.Outcomes), "preemptions_used": res.PreemptUsed})
				}
			}
		}
	}
}

var c10ConfigBase map[string]uint64

// c10ConfigID identifies a config by content that in-place sorting does not change.
func c10ConfigID(c *Config) string {
	ls := append([]string{}, c.SelfHostedRunner.Labels...)
	vs := append([]string{}, c.ConfigVariables...)
	sort.Strings(ls)
	sort.Strings(vs)
	return strings.Join(ls, ",") + "|" + strings.Join(vs, ",")
}

// c10EntryPoints: the other ways several files get into one run - LintRepository, LintDir and
// LintFiles with an explicit project - give every workflow of a repository the diagnostics it
// gets alone (free-running, real goroutines; the interleavings are the business of the scenarios).
func c10EntryPoints(r *vReport, root string) {
	onceFrags := []string{"could not parse action metadata", "is required in metadata of", "is required in action metadata", "could not read reusable workflow file", "error while parsing reusable workflow"}
	isOnce := func(d string) bool {
		for _, f := range onceFrags {
			if strings.Contains(d, f) {
				return true
			}
		}
		return false
	}
	for _, repoDir := range []string{"repo", "repo2", "repo/sub", "repo/wt"} {
		wdir := filepath.Join(root, repoDir, ".github", "workflows")
		m, _ := filepath.Glob(filepath.Join(wdir, "*.yml"))
		sort.Strings(m)
		if len(m) == 0 {
			r.HarnessError("no workflows in %s", wdir)
			continue
		}
		alone := map[string][]string{}
		var rels []string
		for _, f := range m {
			rel, _ := filepath.Rel(root, f)
			rels = append(rels, rel)
			ds, err := c10Alone(root, rel, "", "")
			if err != nil {
				r.HarnessError("linting %s alone: %v", rel, err)
				return
			}
			for _, d := range ds {
				if !isOnce(d) {
					alone[rel] = append(alone[rel], d)
				}
			}
		}
		type entry struct {
			name string
			run  func(l *Linter) ([]*Error, error)
		}
		entries := []entry{
			{"LintRepository", func(l *Linter) ([]*Error, error) { return l.LintRepository(filepath.Join(root, repoDir)) }},
			{"LintRepository(workflows dir)", func(l *Linter) ([]*Error, error) { return l.LintRepository(wdir) }},
			{"LintDir(explicit project)", func(l *Linter) ([]*Error, error) {
				p, err := NewProject(filepath.Join(root, repoDir))
				if err != nil {
					return nil, err
				}
				return l.LintDir(wdir, p)
			}},
			{"LintFiles(explicit project)", func(l *Linter) ([]*Error, error) {
				p, err := NewProject(filepath.Join(root, repoDir))
				if err != nil {
					return nil, err
				}
				return l.LintFiles(m, p)
			}},
			{"LintFiles(nil)", func(l *Linter) ([]*Error, error) { return l.LintFiles(m, nil) }},
		}
		for _, en := range entries {
			var out bytes.Buffer
			l, err := NewLinter(&out, &LinterOptions{WorkingDir: root})
			if err != nil {
				r.HarnessError("%v", err)
				return
			}
			errs, err := en.run(l)
			r.Evaluations++
			r.Transitions++
			r.Validated++
			what := fmt.Sprintf("entry point %s on %s (%d workflows)", en.name, repoDir, len(m))
			replay := map[string]any{"scenario": "entry-points"}
			if err != nil {
				r.Violation("entry-point:fatal", fmt.Sprintf("%s: %v", what, err), replay)
				continue
			}
			got := map[string][]string{}
			for _, e := range errs {
				if d := c10DiagKey(e); !isOnce(d) {
					got[e.Filepath] = append(got[e.Filepath], d)
				}
			}
			for f := range got {
				if _, ok := alone[f]; !ok && !vContains(rels, f) {
					r.Violation("entry-point:foreign-file", fmt.Sprintf("%s: diagnostics attributed to %q, which is not a workflow of that repository", what, f), replay)
				}
			}
			for _, rel := range rels {
				if strings.Join(got[rel], "\n") != strings.Join(alone[rel], "\n") {
					r.Violation("entry-point:isolation:"+c10DiffClass(got[rel], alone[rel]), fmt.Sprintf("%s: file %s: diagnostics differ from linting it alone\n in run: %s\n alone:  %s", what, rel, strings.Join(c10Diff(got[rel], alone[rel]), " || "), strings.Join(c10Diff(alone[rel], got[rel]), " || ")), replay)
				}
			}
			r.Class("entry-point "+en.name, true)
		}
	}
	c10LintDirNil(r, root, isOnce)
}

// c10LintDirNil: LintDir without a project on directories that hold SEVERAL repositories (nested
// ones, siblings) or lie inside one: every YAML file below the directory gets the diagnostics it
// gets alone - the repository of a file is the one that contains it, not the one the directory is in.
func c10LintDirNil(r *vReport, root string, isOnce func(string) bool) {
	for _, d := range []string{".", "repo", "repo/.github", "repo/sub", "repo2", "repo/wt/.github/workflows"} {
		dir := filepath.Join(root, d)
		var rels []string
		filepath.Walk(dir, func(p string, info os.FileInfo, err error) error {
			if err == nil && !info.IsDir() && (strings.HasSuffix(p, ".yml") || strings.HasSuffix(p, ".yaml")) {
				rel, _ := filepath.Rel(root, p)
				rels = append(rels, rel)
			}
			return nil
		})
		sort.Strings(rels)
		if len(rels) == 0 {
			continue
		}
		var out bytes.Buffer
		l, err := NewLinter(&out, &LinterOptions{WorkingDir: root})
		if err != nil {
			r.HarnessError("%v", err)
			return
		}
		errs, err := l.LintDir(dir, nil)
		r.Evaluations++
		r.Transitions++
		r.Validated++
		what := fmt.Sprintf("entry point LintDir(nil) on %s (%d YAML files below it)", d, len(rels))
		replay := map[string]any{"scenario": "entry-points"}
		if err != nil {
			// a file that cannot be linted at all makes the run fatal; alone it does too
			if _, aerr := c10AloneAny(root, rels); aerr == nil {
				r.Violation("entry-point:fatal", fmt.Sprintf("%s: %v", what, err), replay)
			}
			continue
		}
		got := map[string][]string{}
		for _, e := range errs {
			if k := c10DiagKey(e); !isOnce(k) {
				got[e.Filepath] = append(got[e.Filepath], k)
			}
		}
		for _, rel := range rels {
			ds, aerr := c10Alone(root, rel, "", "")
			if aerr != nil {
				continue
			}
			var alone []string
			for _, k := range ds {
				if !isOnce(k) {
					alone = append(alone, k)
				}
			}
			if strings.Join(got[rel], "\n") != strings.Join(alone, "\n") {
				r.Violation("entry-point:isolation:"+c10DiffClass(got[rel], alone), fmt.Sprintf("%s: file %s: diagnostics differ from linting it alone\n in run: %s\n alone:  %s", what, rel, strings.Join(c10Diff(got[rel], alone), " || "), strings.Join(c10Diff(alone, got[rel]), " || ")), replay)
			}
		}
		r.Class("entry-point LintDir(nil) "+d, true)
	}
}

// c10AloneAny lints every file alone and returns the first fatal error, if any.
func c10AloneAny(root string, rels []string) (string, error) {
	for _, rel := range rels {
		if _, err := c10Alone(root, rel, "", ""); err != nil {
			return rel, err
		}
	}
	return "", nil
}

func vContains(xs []string, x string) bool {
	for _, y := range xs {
		if y == x {
			return true
		}
	}
	return false
}

func c10OnceKey(sc *c10Scenario, d string) string {
	for _, o := range sc.Once {
		if strings.Contains(d, o) {
			return o
		}
	}
	return ""
}

// c10DiffClass classifies an isolation difference by the kinds involved.
func c10DiffClass(got, want []string) string {
	kinds := map[string]bool{}
	for _, lst := range [][]string{c10Diff(got, want), c10Diff(want, got)} {
		for _, d := range lst {
			if i := strings.Index(d, "["); i >= 0 {
				if j := strings.Index(d[i:], "]"); j >= 0 {
					kinds[d[i+1:i+j]] = true
				}
			}
		}
	}
	ks := make([]string, 0, len(kinds))
	for k := range kinds {
		ks = append(ks, k)
	}
	sort.Strings(ks)
	return strings.Join(ks, "+")
}

// TestVerifC10Race is the free-running pass for the "no data races" clause: the same scenario
// bodies, real sync primitives (no explorer attached), built with -race, repeated at several
// GOMAXPROCS values. It is sampling and only supports the claim (DESIGN section 9); the race
// detector's report is turned into a violation by vcheck.
func TestVerifC10Race(t *testing.T) {
	root := vTempDir(t, "c10race-")
	vWriteFiles(t, root, c10Tree)
	reps := vEnvInt("VERIF_RACE_REPS", 6)
	runs := 0
	for _, procs := range []int{2, 4, 16} {
		old := runtime.GOMAXPROCS(procs)
		for rep := 0; rep < reps; rep++ {
			for si := range c10Scenarios {
				sc := &c10Scenarios[si]
				var paths []string
				for _, f := range sc.Files {
					paths = append(paths, filepath.Join(root, f))
				}
				// add a few more files so that several goroutines hit the shared caches and tables
				var out bytes.Buffer
				l, err := NewLinter(&out, &LinterOptions{WorkingDir: root, Format: sc.Format, ConfigFile: c10Config(root, sc.Config)})
				if err != nil {
					t.Fatal(err)
				}
				if _, err := l.LintFiles(paths, nil); err != nil {
					t.Fatal(err)
				}
				runs++
			}
			// all files of all scenarios in one run
			var all []string
			seen := map[string]bool{}
			for _, sc := range c10Scenarios {
				for _, f := range sc.Files {
					if !seen[f] {
						seen[f] = true
						all = append(all, filepath.Join(root, f))
					}
				}
			}
			var out bytes.Buffer
			l, _ := NewLinter(&out, &LinterOptions{WorkingDir: root})
			if _, err := l.LintFiles(all, nil); err != nil {
				t.Fatal(err)
			}
			runs++
			// the same run with verbose and debug logging into a writer of the caller's (a plain
			// buffer): the per-file goroutines all log
			var out2, logs bytes.Buffer
			l2, _ := NewLinter(&out2, &LinterOptions{WorkingDir: root, Verbose: true, Debug: true, LogWriter: &logs})
			if _, err := l2.LintFiles(all, nil); err != nil {
				t.Fatal(err)
			}
			runs++
			// ... and with both tool integrations on (scripted tools that find nothing): the command
			// runners of the files of one run work side by side
			vexec.LookPathFn = func(file string) (string, error) { return "/fake/" + file, nil }
			vexec.Handler = func(name string, args []string) vexec.Outcome {
				if filepath.Base(name) == "shellcheck" {
					return vexec.Outcome{Stdout: []byte("[]")}
				}
				return vexec.Outcome{}
			}
			var out3 bytes.Buffer
			l3, _ := NewLinter(&out3, &LinterOptions{WorkingDir: root, Shellcheck: "shellcheck", Pyflakes: "pyflakes"})
			_, err3 := l3.LintFiles(all, nil)
			vexec.LookPathFn, vexec.Handler = nil, nil
			if err3 != nil {
				t.Fatal(err3)
			}
			runs++
		}
		runtime.GOMAXPROCS(old)
	}
	fmt.Printf("VERIF-RACE-RUNS %d\n", runs)
}
