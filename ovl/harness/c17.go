//go:build go1.23

package actionlint

// C17 — filter patterns are validated exactly by the documented glob syntax.
//
// Space: all strings of length <= n over a 21-symbol alphabet (every special character plus
// representatives of ordinary, ref-forbidden, whitespace, line-break, control and non-ASCII
// characters), both validators. Oracle: reference validator written from the property statement
// and DESIGN appendix B (c17Ref), the ref => path implication, and the column oracle.

import (
	"fmt"
	"regexp"
	"strconv"
	"strings"
	"testing"
	"unicode/utf8"
)

var c17Alphabet = []rune{'*', '?', '+', '[', ']', '-', '!', '\\', '/', '.', 'a', 'b', ' ', '~', '\n', '\r', 'é', 0x01, '\t', 0xFEFF, 0x9C, 0}

type c17Verdict int

const (
	c17Valid c17Verdict = iota
	c17Invalid
	c17DontCare
)

// c17Ref is the reference validator (appendix B). It returns the verdict and the reason.
func c17Ref(pat string, isRef bool) (c17Verdict, string) {
	rs := []rune(pat)
	n := len(rs)
	if n == 0 {
		return c17Invalid, "empty"
	}
	for _, c := range rs {
		if c == '\n' || c == '\r' {
			return c17Invalid, "line break"
		}
	}
	if strings.ContainsRune(pat, 0) {
		// no file or ref name holds a NUL and the documented syntax does not speak of it
		return c17DontCare, "NUL"
	}
	if !isRef && (rs[0] == ' ' || rs[n-1] == ' ') {
		return c17Invalid, "path starts/ends with space"
	}
	invalid := ""
	dontCare := false
	bad := func(why string) {
		if invalid == "" {
			invalid = why
		}
	}
	i := 0
	prec := false
	if isRef && rs[0] == '/' {
		bad("ref starts with /")
		prec = true
		i = 1
	} else if rs[0] == '!' {
		if n == 1 {
			return c17Invalid, "lone !"
		}
		i = 1
	}
	last := rune(-1) // last rune of the last element, for the ref end rule
	for i < n {
		c := rs[i]
		switch c {
		case '\\':
			if i+1 < n && strings.ContainsRune("[?*", rs[i+1]) {
				if isRef {
					bad("escaped [ ? * is not a ref character")
				}
				last = rs[i+1]
				i += 2
				prec = true
				continue
			}
			if i+1 < n && strings.ContainsRune("+\\!", rs[i+1]) {
				if isRef && rs[i+1] == '\\' {
					dontCare = true // `\\` in a ref pattern: appendix B don't-care
				}
				last = rs[i+1]
				i += 2
				prec = true
				continue
			}
			if isRef {
				bad("\\ that does not escape a special character in a ref pattern")
				// the character after an invalid escape is not judged any further
				if i+1 < n {
					last = rs[i+1]
					i += 2
				} else {
					last = c
					i++
				}
				prec = true
				continue
			}
			last = c
			i++
			prec = true
		case '?', '+':
			if !prec {
				bad(string(c) + " without a preceding non-special element")
			}
			prec = false
			last = c
			i++
		case '*':
			prec = false
			last = c
			i++
		case '[':
			j := i + 1
			for j < n && rs[j] != ']' {
				j++
			}
			if j >= n {
				bad("unclosed [")
				i = n
				last = -1
				continue
			}
			body := rs[i+1 : j]
			if len(body) == 0 {
				bad("empty []")
			}
			singles, ranges := 0, 0
			for k := 0; k < len(body); {
				if isRef && (strings.ContainsRune(" \t~^:\\?*[", body[k]) || body[k] < 0x20 || body[k] == 0x7f) {
					dontCare = true
				}
				if k+1 < len(body) && body[k+1] == '-' {
					if k+2 >= len(body) {
						bad("range without end")
						k += 2
						continue
					}
					if isRef && (strings.ContainsRune(" \t~^:\\?*[", body[k+2]) || body[k+2] < 0x20 || body[k+2] == 0x7f) {
						dontCare = true
					}
					if body[k] > body[k+2] {
						bad("range start larger than end")
					}
					ranges++
					k += 3
					continue
				}
				singles++
				k++
			}
			if ranges == 0 && singles == 1 {
				bad("single-character class")
			}
			last = ']'
			i = j + 1
			prec = true
		default:
			if isRef && (c == ' ' || c == '\t' || c == '~' || c == '^' || c == ':') {
				bad("character not allowed in ref names")
			}
			if isRef && (c < 0x20 || c == 0x7f) {
				bad("control character in ref pattern")
			}
			last = c
			i++
			prec = true
		}
	}
	if isRef && (last == '/' || last == '.') {
		bad("ref ends with / or .")
	}
	if invalid != "" {
		return c17Invalid, invalid
	}
	if dontCare {
		return c17DontCare, ""
	}
	return c17Valid, ""
}

var c17UnexpRe = regexp.MustCompile(`unexpected character ('(?:[^'\\]|\\.[0-9a-fA-Fx]*)')`)
var c17RefCharRe = regexp.MustCompile(`^character ('.'|'(?:\\.[0-9a-fA-Fx]*)') is invalid for branch and tag names`)

// c17Named extracts the character a message names, if it names one.
func c17Named(msg string) (rune, bool) {
	var lit string
	if m := c17UnexpRe.FindStringSubmatch(msg); m != nil {
		lit = m[1]
	} else if m := c17RefCharRe.FindStringSubmatch(msg); m != nil {
		lit = m[1]
	} else if strings.HasSuffix(msg, ": invalid character NUL") {
		lit = "NUL" // the scanner library's own complaint
	} else {
		return 0, false
	}
	if lit == "NUL" {
		return 0, true
	}
	if s, err := strconv.Unquote(lit); err == nil {
		r, _ := utf8.DecodeRuneInString(s)
		return r, true
	}
	// printable characters are written as 'c' without escaping (so '\' and ''' appear raw)
	inner := lit[1 : len(lit)-1]
	r, sz := utf8.DecodeRuneInString(inner)
	if sz == len(inner) {
		return r, true
	}
	return 0, false
}

// c17Columns checks the column oracle for one validator result. Returns class key + message.
func c17Columns(pat string, isRef bool, errs []InvalidGlobPattern) (string, string) {
	rs := []rune(pat)
	firstBreak := -1
	for i, c := range rs {
		if c == '\n' {
			firstBreak = i
			break
		}
	}
	for _, e := range errs {
		if pat == "" {
			if e.Column != 0 {
				return "col-empty", fmt.Sprintf("empty pattern reported at column %d", e.Column)
			}
			continue
		}
		if !isRef && strings.HasPrefix(e.Message, "path value must not") {
			// a leading space is reported before the first character (column 0), a trailing one at the
			// last character - counted in characters like every other column
			if e.Column != 0 && e.Column != len(rs) {
				return "col-path-space", fmt.Sprintf("%q: space error at column %d", pat, e.Column)
			}
			continue
		}
		if e.Column == 0 {
			if firstBreak < 0 {
				return "col-zero", fmt.Sprintf("%q: column 0 without a line break: %s", pat, e.Message)
			}
			continue
		}
		if e.Column < 1 || e.Column > len(rs) {
			return "col-range", fmt.Sprintf("%q: column %d outside [1,%d]: %s", pat, e.Column, len(rs), e.Message)
		}
		if firstBreak >= 0 && e.Column-1 > firstBreak {
			// after a line break columns restart; documented to fall back to 0, so a non-zero column
			// beyond the break is wrong
			return "col-after-break", fmt.Sprintf("%q: column %d lies after the line break: %s", pat, e.Column, e.Message)
		}
		if r, ok := c17Named(e.Message); ok {
			if rs[e.Column-1] != r {
				return "col-named-char", fmt.Sprintf("%q: message names %q but column %d holds %q: %s", pat, r, e.Column, rs[e.Column-1], vTrunc(e.Message, 120))
			}
		}
	}
	return "", ""
}

func c17Shape(pat string) string {
	// shape of a pattern for violation keys: specials kept, others mapped to class letters
	var b strings.Builder
	for _, c := range pat {
		switch {
		case strings.ContainsRune("*?+[]-!\\/.", c):
			b.WriteRune(c)
		case c == ' ' || c == '~':
			b.WriteByte('S')
		case c == '\n' || c == '\r':
			b.WriteByte('N')
		case c < 0x20:
			b.WriteByte('C')
		case c > 0x7f:
			b.WriteByte('U')
		default:
			b.WriteByte('a')
		}
	}
	return b.String()
}

func c17Check(r *vReport, pat string) {
	refErrs := ValidateRefGlob(pat)
	pathErrs := ValidatePathGlob(pat)
	r.Evaluations++
	r.Transitions += 2
	r.Validated += 2
	for _, isRef := range []bool{true, false} {
		errs := pathErrs
		which := "path"
		if isRef {
			errs, which = refErrs, "ref"
		}
		v, why := c17Ref(pat, isRef)
		got := len(errs) > 0
		switch {
		case v == c17Valid && got:
			r.Violation(which+"-false-reject:"+c17Class(errs[0].Message), fmt.Sprintf("%s pattern %q is valid by the documented syntax but reported: %s", which, pat, errs[0].Message), map[string]any{"pattern": pat})
		case v == c17Invalid && !got:
			r.Violation(which+"-false-accept:"+why, fmt.Sprintf("%s pattern %q accepted although: %s", which, pat, why), map[string]any{"pattern": pat})
		}
		if cls, msg := c17Columns(pat, isRef, errs); cls != "" {
			r.Violation(which+"-"+cls, msg, map[string]any{"pattern": pat})
		}
		vs := [...]string{"valid", "invalid", "dontcare"}[v]
		r.Class(which+":"+vs+":"+why, v == c17Invalid)
	}
	if len(refErrs) == 0 && len(pathErrs) > 0 {
		r.Violation("ref-accepted-path-rejected", fmt.Sprintf("%q accepted as ref filter but rejected as path filter: %s", pat, pathErrs[0].Message), map[string]any{"pattern": pat})
	}
}

func c17Class(msg string) string {
	msg = c17UnexpRe.ReplaceAllString(msg, "unexpected character C")
	msg = regexp.MustCompile(`^character '?.*?'? is invalid`).ReplaceAllString(msg, "character C is invalid")
	msg = regexp.MustCompile(`%q|"[^"]*"|'[^']*'|\(\d+\)`).ReplaceAllString(msg, "_")
	return vTrunc(msg, 80)
}

func c17YAMLQuote(pat string) string {
	var b strings.Builder
	b.WriteByte('"')
	for _, c := range pat {
		switch {
		case c == '\\':
			b.WriteString(`\\`)
		case c == '"':
			b.WriteString(`\"`)
		case c == '\n':
			b.WriteString(`\n`)
		case c == '\r':
			b.WriteString(`\r`)
		case c < 0x20 || (c >= 0x7f && c < 0xa0):
			fmt.Fprintf(&b, `\x%02x`, c)
		default:
			b.WriteRune(c)
		}
	}
	b.WriteByte('"')
	return b.String()
}

// c17E2E pushes one pattern through Linter.Lint at a ref and a path filter position.
func c17E2E(r *vReport, pat string) {
	if pat == "" {
		return // the rule leaves empty values to the parser's own diagnostic
	}
	q := c17YAMLQuote(pat)
	tail := "jobs:\n  a:\n    runs-on: ubuntu-latest\n    steps:\n      - run: echo\n"
	type epos struct {
		line, col int
		errs      []InvalidGlobPattern
		which     string
	}
	refE, pathE := ValidateRefGlob(pat), ValidatePathGlob(pat)
	// the same string under several keys of one workflow: each occurrence is validated by the
	// validator of its own key, whatever was validated before it
	for li, lay := range []struct {
		src string
		pos []epos
	}{
		{"on:\n  push:\n    branches: [" + q + "]\n    paths:\n      - " + q + "\n" + tail, []epos{{3, 16, refE, "ref"}, {5, 9, pathE, "path"}}},
		{"on:\n  pull_request:\n    paths: [" + q + "]\n  push:\n    branches: [" + q + "]\n    tags-ignore:\n      - " + q + "\n" + tail, []epos{{3, 13, pathE, "path"}, {5, 16, refE, "ref"}, {7, 9, refE, "ref"}}},
		{"on:\n  push:\n    tags: [" + q + "]\n  pull_request:\n    paths-ignore: [" + q + "]\n    branches-ignore: [" + q + "]\n" + tail, []epos{{3, 12, refE, "ref"}, {5, 20, pathE, "path"}, {6, 23, refE, "ref"}}},
		// lists with further elements: an empty, null or non-scalar element (reported by the parser)
		// before the pattern, valid patterns around it
		{"on:\n  push:\n    branches: ['', " + q + "]\n    tags-ignore:\n      - ok\n      -\n      - " + q + "\n    paths: [[x], " + q + "]\n" + tail, []epos{{3, 20, refE, "ref"}, {7, 9, refE, "ref"}, {8, 18, pathE, "path"}}},
		{"on:\n  pull_request:\n    branches-ignore: [main, \"\", 'rel/**', " + q + ", v1]\n    paths-ignore:\n      - docs/**\n      - {a: b}\n      - " + q + "\n      - src/**\n" + tail, []epos{{3, 43, refE, "ref"}, {7, 9, pathE, "path"}}},
		// the other events that take ref / path filters
		{"on:\n  merge_group:\n    branches: [" + q + "]\n  pull_request_target:\n    paths: [" + q + "]\n    branches-ignore:\n      - " + q + "\n" + tail, []epos{{3, 16, refE, "ref"}, {5, 13, pathE, "path"}, {7, 9, refE, "ref"}}},
		{"on:\n  workflow_run:\n    workflows: [w]\n    branches-ignore: [" + q + "]\n  merge_group:\n    branches-ignore:\n      - " + q + "\n  pull_request_target:\n    paths-ignore: [" + q + "]\n    branches: [" + q + "]\n" + tail, []epos{{4, 23, refE, "ref"}, {7, 9, refE, "ref"}, {9, 20, pathE, "path"}, {10, 16, refE, "ref"}}},
		// events that take no filters (manual, scheduled, called, dispatched) before, between and after
		// the events that do
		{"on:\n  workflow_dispatch:\n  push:\n    branches: [" + q + "]\n  schedule:\n    - cron: '0 0 * * *'\n  pull_request:\n    paths: [" + q + "]\n  workflow_call:\n" + tail, []epos{{4, 16, refE, "ref"}, {8, 13, pathE, "path"}}},
		{"on:\n  repository_dispatch:\n    types: [t]\n  workflow_call:\n  schedule:\n    - cron: '0 0 * * *'\n  workflow_dispatch:\n  pull_request_target:\n    tags-ignore:\n      - " + q + "\n    paths-ignore: [" + q + "]\n" + tail, []epos{{10, 9, refE, "ref"}, {11, 20, pathE, "path"}}},
	} {
		c17E2ELayout(r, pat, li, lay.src, func() [][4]any {
			var out [][4]any
			for _, p := range lay.pos {
				out = append(out, [4]any{p.line, p.col, p.errs, p.which})
			}
			return out
		}())
	}
}

func c17E2ELayout(r *vReport, pat string, layout int, src string, positions [][4]any) {
	res := vLint(src, nil)
	r.Transitions++
	r.Validated++
	if res.Panic != "" || res.Err != nil {
		r.Violation("e2e-failure", fmt.Sprintf("pattern %q: panic=%q err=%v", pat, vTrunc(res.Panic, 200), res.Err), map[string]any{"pattern": pat, "e2e": true})
		return
	}
	ascii := true
	for _, c := range pat {
		if c >= 0x7f || c < 0x20 {
			ascii = false
		}
	}
	// every `\` occupies two source columns inside the double-quoted scalar; column arithmetic in
	// the rule is only claimed for scalars without escapes (C07), so positions are compared only
	// for escape-free patterns.
	escapeFree := ascii && !strings.ContainsAny(pat, "\\\"")
	for _, p4 := range positions {
		pos := struct {
			line, col int
			errs      []InvalidGlobPattern
			which     string
		}{p4[0].(int), p4[1].(int), p4[2].([]InvalidGlobPattern), fmt.Sprintf("%s-layout%d", p4[3], layout)}
		var got []vDiag
		for _, d := range vDiags(res.Errs) {
			if d.Line == pos.line && d.Kind == "glob" {
				got = append(got, d)
			}
		}
		if len(got) != len(pos.errs) {
			r.Violation("e2e-count-"+pos.which, fmt.Sprintf("pattern %q: validator reports %d problems, Lint shows %d glob diagnostics on line %d", pat, len(pos.errs), len(got), pos.line), map[string]any{"pattern": pat, "e2e": true})
			continue
		}
		if !escapeFree {
			continue
		}
		for i, e := range pos.errs {
			want := pos.col + 1
			if e.Column != 0 {
				want += e.Column - 1
			}
			if got[i].Col != want {
				r.Violation("e2e-column-"+pos.which, fmt.Sprintf("pattern %q: validator column %d should map to source column %d, diagnostic is at %d", pat, e.Column, want, got[i].Col), map[string]any{"pattern": pat, "e2e": true})
			}
		}
	}
	for _, d := range vDiags(res.Errs) {
		if d.Kind != "glob" {
			r.Class("e2e-other-kind:"+d.Kind, false)
		}
	}
}

func TestVerifC17(t *testing.T) {
	r := vNewReport("C17")
	defer r.Write(t)
	n := 5
	if vThorough() {
		n = 6
	}
	r.Bounds["max_length"] = n
	r.Bounds["alphabet"] = string(c17Alphabet)
	r.Bounds["e2e_max_length"] = 3
	r.Extra["rule"] = "all strings of length <= n over the 22-symbol alphabet, ValidateRefGlob and ValidatePathGlob each compared with the reference validator (accept/reject), ref=>path implication, column oracle; every sequence of <= 4 pieces out of 17 (whole character classes, wildcards, escapes, separators) likewise; all strings <= 3 (also followed by / preceded by a ${{ }} placeholder, which is ordinary text there) additionally through Linter.Lint in 9 layouts (the same string under ref and path keys of one, two and three events, both orders; lists with empty / null / non-scalar and valid elements around the pattern; push, pull_request, pull_request_target, merge_group, workflow_run; events without filters - workflow_dispatch, schedule, workflow_call, repository_dispatch - before and between them); class = (validator, reference verdict, reference reason); non-trivial = invalid by the reference"
	r.Extra["assumptions"] = []string{"characters outside the alphabet are represented by a, b (ordinary), space/~ (ref-forbidden), \\x01 and TAB (control characters below and next to the line breaks), é (non-ASCII), U+FEFF (a character the scanner library treats specially at the head of its input), U+009C (a C1 control character: ordinary in a ref name, only ASCII controls are forbidden), NUL (reachable through \"\\0\"; acceptance is a don't-care, the column of what is reported is not)", "appendix B don't-care classes are not compared"}

	if raw := vReplayInput(); raw != nil {
		var c struct {
			Pattern string `json:"pattern"`
			E2E     bool   `json:"e2e"`
		}
		if err := jsonUnmarshal(raw, &c); err != nil {
			t.Fatal(err)
		}
		for k := 0; k < 2; k++ {
			fmt.Printf("replay %d: pattern=%q ref=%v path=%v\n", k, c.Pattern, ValidateRefGlob(c.Pattern), ValidatePathGlob(c.Pattern))
		}
		c17Check(r, c.Pattern)
		c17E2E(r, c.Pattern)
		return
	}

	k := len(c17Alphabet)
	var idx int64
	// longer patterns than the character enumeration reaches: every sequence of <= 4 PIECES (whole
	// character classes - good, useless, reversed, unclosed -, wildcards, escapes, separators), so
	// that what one construct leaves behind meets the next one
	pieces := []string{"[ab]", "[x]", "[0-9]", "[z-a]", "[a-]", "[", "]", "a", "*", "**", "?", "+", "/", "!", "\\[", " ", "\\"}
	r.Bounds["pieces"] = len(pieces)
	var rec func(cur string, depth int)
	rec = func(cur string, depth int) {
		if depth > 0 {
			idx++
			if r.Mine(idx) {
				r.Begin(func() string { return fmt.Sprintf("piece pattern %q", cur) })
				c17Check(r, cur)
			}
		}
		if depth == 4 {
			return
		}
		for _, pc := range pieces {
			rec(cur+pc, depth+1)
		}
	}
	rec("", 0)
	buf := make([]rune, 0, n)
	for l := 0; l <= n; l++ {
		total := int64(1)
		for i := 0; i < l; i++ {
			total *= int64(k)
		}
		for v := int64(0); v < total; v++ {
			idx++
			if !r.Mine(idx) {
				continue
			}
			if idx%(1<<16) == 0 && r.Expired() {
				return
			}
			buf = buf[:0]
			x := v
			for i := 0; i < l; i++ {
				buf = append(buf, c17Alphabet[x%int64(k)])
				x /= int64(k)
			}
			pat := string(buf)
			r.Begin(func() string { return fmt.Sprintf("pattern %q", pat) })
			c17Check(r, pat)
			if l <= 3 {
				c17E2E(r, pat)
				// filters are not expression templates: ${{ }} in them is ordinary pattern text
				// and does not exempt the value from validation
				c17E2E(r, pat+"${{1}}")
				c17E2E(r, "${{ github.sha }}/"+pat)
			}
			if idx%200003 == 0 {
				v1, w1 := c17Ref(pat, true)
				r.Sample(map[string]any{"pattern": pat, "ref_reference": fmt.Sprint(v1, " ", w1), "ref_impl_errors": len(ValidateRefGlob(pat)), "path_impl_errors": len(ValidatePathGlob(pat))})
			}
		}
	}
}
