//go:build go1.23

package actionlint

// C09 — jobs, steps and expressions are checked independently (no state leaks).
//
// Space: libraries of jobs, steps and expression strings chosen to write rule state; every
// sequence without repetition up to length 3 (thorough 4 for jobs) in file order; for jobs also
// every map iteration order of a sub-slice. Oracle (differential, no hand-written expectation):
// the diagnostics of an item inside any composition, relative to the item's first line, equal
// those of the item alone together with only its declared dependencies.

import (
	"fmt"
	"os"
	"path/filepath"
	"regexp"
	"sort"
	"strings"
	"testing"

	"gopkg.in/yaml.v3"

	"github.com/rhysd/actionlint/verifshim/vexec"
	"github.com/rhysd/actionlint/verifshim/vsched"
)

type c09Item struct {
	name string
	text string   // block of lines (jobs: at 2-space indent; steps: at 6-space indent), ends with \n
	deps []string // names of items that must precede it (needed jobs; id-carrying earlier steps are added automatically)
	id   string   // step id, if the step carries one
}

var c09Jobs = []c09Item{
	{name: "plain", text: "  plain:\n    runs-on: ubuntu-latest\n    steps:\n      - run: echo\n"},
	{name: "matrixjob", text: "  matrixjob:\n    runs-on: ubuntu-latest\n    strategy:\n      matrix:\n        os: [a, b]\n        z: [[1, 2]]\n        include:\n          - pkgs: ${{ fromJSON('[{\"meta\":{\"name\":\"a\"}}]').* }}\n    steps:\n      - run: echo ${{ matrix.os }} ${{ matrix.nope }} ${{ matrix.z.* }}\n      - run: echo ${{ matrix.z.foo }}\n"},
	{name: "nomatrix", text: "  nomatrix:\n    runs-on: ubuntu-latest\n    steps:\n      - run: echo ${{ matrix.os }} ${{ matrix.z.foo }} ${{ steps.s1.outputs.x }} ${{ needs.plain.result }}\n"},
	{name: "pyshell", text: "  pyshell:\n    runs-on: ubuntu-latest\n    defaults:\n      run:\n        shell: python\n    steps:\n      - run: print(1)\n      - run: echo\n        shell: nosuchshell\n"},
	{name: "winrunner", text: "  winrunner:\n    runs-on: windows-latest\n    steps:\n      - run: echo\n        shell: sh\n      - run: echo\n        shell: cmd\n"},
	{name: "linuxcmd", text: "  linuxcmd:\n    runs-on: ubuntu-latest\n    steps:\n      - run: echo\n        shell: cmd\n      - run: echo\n        shell: bash\n"},
	{name: "conflict", text: "  conflict:\n    runs-on: [ubuntu-latest, windows-latest]\n    steps:\n      - run: echo\n"},
	{name: "dupids", text: "  dupids:\n    runs-on: ubuntu-latest\n    steps:\n      - id: s1\n        run: echo\n      - id: S1\n        run: echo\n      - run: echo ${{ steps.s1.outputs.x }} ${{ steps.s2.outputs.y }}\n"},
	{name: "needer", deps: []string{"plain"}, text: "  needer:\n    needs: [plain]\n    runs-on: ubuntu-latest\n    steps:\n      - run: echo ${{ needs.plain.result }} ${{ needs.plain.outputs.nope }} ${{ needs.matrixjob.result }}\n"},
	// step ids that differ between jobs in letter case only: ids are per job
	{name: "idupper", text: "  idupper:\n    runs-on: ubuntu-latest\n    steps:\n      - id: Cache\n        run: echo\n      - id: BUILD\n        run: echo ${{ steps.cache.outcome }}\n"},
	{name: "idlower", text: "  idlower:\n    runs-on: ubuntu-latest\n    steps:\n      - id: build\n        run: echo\n      - id: cache\n        run: echo ${{ steps.BUILD.outcome }} ${{ steps.nope.outcome }}\n"},
	{name: "idsame", text: "  idsame:\n    runs-on: ubuntu-latest\n    steps:\n      - id: Cache\n        run: echo\n      - id: CACHE\n        run: echo\n"},
	// references to steps at JOB-level keys (the steps context holds nothing there, whatever job
	// stood before)
	{name: "jobkeysteps", text: "  jobkeysteps:\n    runs-on: ubuntu-latest\n    if: steps.s1.outputs.x == 'a'\n    env:\n      V: ${{ steps.s1.conclusion }} ${{ steps.cache.outputs.y }}\n    timeout-minutes: ${{ steps.s.outputs.n }}\n    steps:\n      - run: echo\n"},
	{name: "outjob", text: "  outjob:\n    runs-on: ubuntu-latest\n    outputs:\n      o1: ${{ steps.s.outputs.v }}\n    steps:\n      - id: s\n        run: echo\n"},
	{name: "outuser", deps: []string{"outjob"}, text: "  outuser:\n    needs: outjob\n    runs-on: ubuntu-latest\n    steps:\n      - run: echo ${{ needs.outjob.outputs.o1 }} ${{ needs.outjob.outputs.o2 }}\n"},
	{name: "broken", text: "  broken:\n    steps:\n      - run: echo ${{ nosuch }}\n      - uses: actions/checkout@v4\n        with:\n          bogus: 1\n"},
	{name: "caller", text: "  caller:\n    uses: owner/repo/.github/workflows/w.yml@v1\n    with:\n      a: ${{ matrix.os }}\n    secrets: inherit\n"},
	{name: "callermatrix", text: "  callermatrix:\n    strategy:\n      matrix:\n        os: [a]\n        target: [t]\n    uses: owner/repo/.github/workflows/w.yml@v1\n    with:\n      a: ${{ matrix.os }}\n"},
	{name: "matrixexpr", text: "  matrixexpr:\n    runs-on: ubuntu-latest\n    strategy:\n      matrix: ${{ fromJSON(vars.M) }}\n    steps:\n      - run: echo ${{ matrix.anything }}\n"},
	{name: "victim", text: "  victim:\n    runs-on: ubuntu-latest\n    env:\n      V: ${{ matrix.target }}\n    steps:\n      - run: echo ${{ matrix.target }} ${{ matrix.os }} ${{ steps.s.outputs.v }} ${{ needs.outjob.outputs.o1 }} ${{ env.V }}\n      - run: echo\n"},
	{name: "callerneeds", deps: []string{"outjob"}, text: "  callerneeds:\n    needs: [outjob]\n    uses: owner/repo/.github/workflows/w.yml@v1\n    with:\n      a: ${{ needs.outjob.outputs.o1 }} ${{ needs.outjob.outputs.nope }}\n"},
	{name: "services", text: "  services:\n    runs-on: ubuntu-latest\n    services:\n      db:\n        image: pg\n    steps:\n      - id: s\n        run: echo ${{ job.services.db.id }} ${{ job.services.nope.id }}\n"},
	{name: "selfhosted", text: "  selfhosted:\n    runs-on: self-hosted\n    steps:\n      - run: echo\n        shell: sh\n      - run: echo\n        shell: cmd\n      - run: echo\n        shell: powershell\n      - run: echo\n        shell: nosuchshell\n"},
	{name: "exprrunner", text: "  exprrunner:\n    runs-on: ${{ vars.RUNNER }}\n    defaults:\n      run:\n        shell: sh\n    steps:\n      - run: echo\n      - run: echo\n        shell: cmd\n"},
	{name: "matrixos", text: "  matrixos:\n    strategy:\n      matrix:\n        os: [ubuntu-latest, macos-latest, windows-latest]\n    runs-on: ${{ matrix.os }}\n    steps:\n      - run: echo\n"},
	{name: "matrixosincl", text: "  matrixosincl:\n    strategy:\n      matrix:\n        os: [macos-13]\n        include:\n          - os: windows-2022\n    runs-on: [self-hosted, \"${{ matrix.os }}\"]\n    steps:\n      - run: echo\n"},
	{name: "multilabel", text: "  multilabel:\n    runs-on: [self-hosted, linux, x64]\n    steps:\n      - run: echo\n"},
	{name: "multilabelconflict", text: "  multilabelconflict:\n    runs-on: [ubuntu-latest, windows-latest, macos-latest]\n    steps:\n      - run: echo\n"},
	{name: "macrunner", text: "  macrunner:\n    runs-on: macos-latest\n    steps:\n      - run: echo\n        shell: cmd\n      - run: echo\n        shell: sh\n"},
	{name: "grouprunner", text: "  grouprunner:\n    runs-on:\n      group: mygroup\n    steps:\n      - run: echo\n        shell: powershell\n      - run: echo\n        shell: bash\n"},
	{name: "bashdefault", text: "  bashdefault:\n    runs-on: ubuntu-latest\n    defaults:\n      run:\n        shell: bash -e {0}\n    steps:\n      - run: echo a\n      - run: print(1)\n        shell: python\n"},
	{name: "winnoshell", text: "  winnoshell:\n    runs-on: windows-2022\n    steps:\n      - run: echo w\n      - run: echo b\n        shell: bash\n"},
	{name: "noshell", text: "  noshell:\n    runs-on: ubuntu-latest\n    steps:\n      - run: echo n\n      - run: echo ${{ github.sha }}\n"},
	{name: "creds", text: "  creds:\n    runs-on: ubuntu-latest\n    container:\n      image: x\n      credentials:\n        username: u\n        password: plain\n    env:\n      'bad name': 1\n    permissions:\n      nosuchscope: read\n    steps:\n      - run: echo '::set-output name=a::b'\n        if: ${{ true }} && false\n"},
}

var c09Steps = []c09Item{
	{name: "ida", id: "a", text: "      - id: a\n        run: echo\n"},
	{name: "usea", text: "      - run: echo ${{ steps.a.outputs.x }} ${{ steps.a.conclusion }}\n"},
	{name: "cache", id: "c", text: "      - id: c\n        uses: actions/cache@v4\n        with:\n          path: p\n          key: k\n"},
	{name: "usecache", text: "      - run: echo ${{ steps.c.outputs.cache-hit }} ${{ steps.c.outputs.nope }}\n"},
	{name: "badinput", text: "      - uses: actions/checkout@v4\n        with:\n          bogus: 1\n"},
	{name: "filter", text: "      - run: echo ${{ matrix.z.* }} ${{ toJSON(steps.*.outputs) }}\n"},
	// a matrix value that is itself the result of an object filter (a typed array shared by every expression of the job)
	{name: "pkgname", text: "      - run: echo ${{ matrix.pkgs.meta.name }}\n"},
	{name: "pkgtypo", text: "      - run: echo ${{ matrix.pkgs.meta.nam }} ${{ matrix.pkgs.meta }}\n"},
	{name: "afterfilter", text: "      - run: echo ${{ matrix.z.foo }}\n"},
	{name: "shellpy", text: "      - run: print(1)\n        shell: python\n"},
	{name: "shellbad", text: "      - run: echo\n        shell: nosuchshell\n"},
	{name: "dupa", id: "A", text: "      - id: A\n        run: echo\n"},
	{name: "untrusted", text: "      - run: echo ${{ github.event.pull_request.title }}\n"},
	{name: "syntaxerr", text: "      - run: echo ${{ a + }}\n        zzforeign: 1\n"},
	{name: "envstep", text: "      - run: echo\n        env:\n          'a b': ${{ env.FOO }}\n          X: ${{ steps.a.outputs.y }}\n"},
}

var c09Exprs = []string{
	"matrix.z.*", "matrix.z.foo", "matrix.z[0]", "matrix.os", "matrix.*", "matrix.os.*", "toJSON(matrix.z.*)",
	"steps.*.outputs", "steps.a.outputs.x", "steps.a.*", "github.event.*.body", "github.event.pull_request.head.*", "github.event.nope",
	"fromJSON('[1]').*", "env.*", "needs.*.result", "inputs.x", "contains(matrix.z.*, 1)", "format('{0}', matrix.z)", "nosuch", "a +",
	"matrix.pkgs.meta.name", "matrix.pkgs.meta.nam", "matrix.pkgs.meta", "matrix.pkgs.*.meta",
}

var c09LineRe = regexp.MustCompile(`line:(\d+),col:(\d+)`)

// c09Rel returns the diagnostics located in [start, end] with positions relative to start; line
// numbers echoed in messages are rewritten to "<item>+offset" of the item that contains them, so
// that they are independent of how far away that other item is.
func c09Rel(errs []*Error, start, end int, seq []*c09Item, ranges [][2]int) []string {
	var out []string
	for _, e := range errs {
		if e.Line < start || e.Line > end {
			continue
		}
		msg := c09LineRe.ReplaceAllStringFunc(e.Message, func(m string) string {
			sm := c09LineRe.FindStringSubmatch(m)
			var l int
			fmt.Sscan(sm[1], &l)
			for i, rg := range ranges {
				if l >= rg[0] && l <= rg[1] {
					return fmt.Sprintf("line:%s+%d,col:%s", seq[i].name, l-rg[0], sm[2])
				}
			}
			return fmt.Sprintf("line:header+%d,col:%s", l, sm[2])
		})
		out = append(out, fmt.Sprintf("+%d:%d [%s] %s", e.Line-start, e.Column, e.Kind, msg))
	}
	sort.Strings(out)
	return out
}

func c09Lines(s string) int { return strings.Count(s, "\n") }

type c09Family struct {
	name   string
	header string
	footer string
	items  []c09Item
	// lint, when set, replaces the default way of linting a composed source (project families: the
	// source is a file of a repository with a local action and local reusable workflows)
	lint func(src string) vLintResult
}

// compose renders header + items and returns the line range of each item.
func (f *c09Family) compose(seq []*c09Item) (string, [][2]int) {
	var b strings.Builder
	b.WriteString(f.header)
	line := c09Lines(f.header) + 1
	ranges := make([][2]int, len(seq))
	for i, it := range seq {
		n := c09Lines(it.text)
		ranges[i] = [2]int{line, line + n - 1}
		b.WriteString(it.text)
		line += n
	}
	b.WriteString(f.footer)
	return b.String(), ranges
}

func (f *c09Family) find(name string) *c09Item {
	for i := range f.items {
		if f.items[i].name == name {
			return &f.items[i]
		}
	}
	return nil
}

// alone builds the reference composition of item it as it appears in seq at index k: only its
// declared dependencies that precede it in seq (jobs: needed jobs anywhere; steps: earlier steps
// that carry an id), in the same relative order.
func (f *c09Family) alone(seq []*c09Item, k int, steps bool) []*c09Item {
	it := seq[k]
	var out []*c09Item
	for i, o := range seq {
		if i == k {
			out = append(out, it)
			continue
		}
		dep := false
		if steps {
			dep = i < k && o.id != ""
		} else {
			for _, d := range it.deps {
				if d == o.name || (o.id != "" && strings.EqualFold(d, o.id)) {
					dep = true
				}
			}
		}
		if dep {
			out = append(out, o)
		}
	}
	return out
}

func c09Sequences(n, maxLen int, yield func([]int) bool) {
	var rec func(cur []int) bool
	rec = func(cur []int) bool {
		if len(cur) > 0 {
			if !yield(cur) {
				return false
			}
		}
		if len(cur) == maxLen {
			return true
		}
		for i := 0; i < n; i++ {
			used := false
			for _, c := range cur {
				if c == i {
					used = true
				}
			}
			if used {
				continue
			}
			if !rec(append(append([]int{}, cur...), i)) {
				return false
			}
		}
		return true
	}
	rec(nil)
}

func TestVerifC09(t *testing.T) {
	r := vNewReport("C09")
	defer r.Write(t)
	jobLen, stepLen, exprLen := 3, 3, 3
	if vThorough() {
		jobLen, stepLen, exprLen = 4, 4, 3
	}
	r.Bounds["job_sequence_length"] = jobLen
	r.Bounds["step_sequence_length"] = stepLen
	r.Bounds["expression_sequence_length"] = exprLen
	r.Bounds["jobs"], r.Bounds["steps"], r.Bounds["expressions"] = len(c09Jobs), len(c09Steps), len(c09Exprs)
	r.Extra["rule"] = "libraries of 34 jobs, 13 steps and 21 expression strings that write rule state (linted with scripted shellcheck / pyflakes enabled; matrix with .*, shell defaults, runner platform, conflicting labels, duplicate ids, needs, outputs, erroneous items); every sequence without repetition up to the length bound in file order; each item's diagnostics (relative positions) compared with the item alone plus its declared dependencies (needed jobs / earlier id-carrying steps); a slice of job pairs under every single map-order deviation. class = (family, item, has diagnostics); non-trivial = the item has diagnostics"
	r.Extra["assumptions"] = []string{"dependencies of a step are the earlier steps that carry an id (verbatim), of a job its needed jobs; everything else counts as unrelated", "line numbers echoed in messages are compared relative to the item"}
	families := []*c09Family{
		{name: "jobs", header: "on: pull_request\njobs:\n", items: c09Jobs},
		{name: "steps", header: "on: pull_request\njobs:\n  j:\n    runs-on: ubuntu-latest\n    strategy:\n      matrix:\n        os: [a]\n        z: [[1, 2]]\n        include:\n          - pkgs: ${{ fromJSON('[{\"meta\":{\"name\":\"a\"}}]').* }}\n    steps:\n", items: c09Steps},
	}
	// jobs under a workflow_call header: the inputs / needs object types are shared by the whole
	// file; a job that merges them into its matrix must not change what later jobs see
	families = append(families, &c09Family{name: "call-jobs", header: "on:\n  workflow_call:\n    inputs:\n      version:\n        type: string\n      exclude:\n        type: string\n      include:\n        type: string\njobs:\n", items: []c09Item{
		{name: "cmatrixinputs", text: "  cmatrixinputs:\n    runs-on: ubuntu-latest\n    strategy:\n      matrix: ${{ inputs }}\n    steps:\n      - run: echo ${{ matrix.version }} ${{ matrix.nope }}\n"},
		{name: "cmatrixneeds", text: "  cmatrixneeds:\n    needs: [cplain]\n    runs-on: ubuntu-latest\n    strategy:\n      matrix: ${{ needs.cplain.outputs }}\n    steps:\n      - run: echo ${{ matrix.o }}\n", deps: []string{"cplain"}},
		{name: "cvictimexcl", text: "  cvictimexcl:\n    runs-on: ubuntu-latest\n    steps:\n      - run: echo ${{ inputs.exclude }} ${{ inputs.include }} ${{ inputs.exclude.x }} ${{ inputs.o }}\n"},
		{name: "cplain", text: "  cplain:\n    runs-on: ubuntu-latest\n    outputs:\n      o: v\n    steps:\n      - run: echo ${{ inputs.version }}\n"},
		{name: "cvictim", text: "  cvictim:\n    runs-on: ubuntu-latest\n    steps:\n      - run: echo ${{ inputs.flavor }} ${{ inputs.version.x }} ${{ github.flavor }}\n"},
		{name: "caliasinputs", text: "  caliasinputs:\n    runs-on: ubuntu-latest\n    strategy:\n      matrix:\n        include:\n          - ${{ inputs }}\n          - flavor: debug\n    steps:\n      - run: echo ${{ matrix.flavor }}\n"},
		{name: "caliasunknown", text: "  caliasunknown:\n    runs-on: ubuntu-latest\n    strategy:\n      matrix:\n        include:\n          - ${{ inputs }}\n          - ${{ fromJSON(vars.X) }}\n    steps:\n      - run: echo ${{ matrix.anything }}\n"},
		{name: "caliasneeds", text: "  caliasneeds:\n    needs: [cplain]\n    runs-on: ubuntu-latest\n    strategy:\n      matrix:\n        include:\n          - ${{ needs.cplain.outputs }}\n          - zz: 1\n    steps:\n      - run: echo ${{ matrix.zz }}\n", deps: []string{"cplain"}},
		{name: "cvictimneeds", text: "  cvictimneeds:\n    needs: [cplain]\n    runs-on: ubuntu-latest\n    steps:\n      - run: echo ${{ needs.cplain.outputs.zz }} ${{ needs.cplain.outputs.o }}\n", deps: []string{"cplain"}},
	}})
	// jobs of a workflow inside a repository: calls of local reusable workflows (one that exists, one
	// whose file is missing, one that is not callable, one with an ill-formed spec), jobs that need
	// them - written before or after the call job - and steps with local actions. What is reported
	// for a call job, and by which rule, does not depend on where the jobs that need it stand.
	families = append(families, &c09Family{name: "project-jobs", header: "on: push\njobs:\n", lint: vProjectLint(t), items: []c09Item{
		{name: "pcallok", text: "  pcallok:\n    uses: ./.github/workflows/callee.yml\n    with:\n      cstr: x\n      nosuchinput: y\n    secrets:\n      csec: x\n"},
		{name: "pneedok", text: "  pneedok:\n    needs: [pcallok]\n    runs-on: ubuntu-latest\n    steps:\n      - run: echo ${{ needs.pcallok.outputs.cout }} ${{ needs.pcallok.outputs.nosuch }}\n", deps: []string{"pcallok"}},
		{name: "pcallmissing", text: "  pcallmissing:\n    uses: ./.github/workflows/missing.yml\n"},
		{name: "pneedmissing", text: "  pneedmissing:\n    needs: [pcallmissing]\n    runs-on: ubuntu-latest\n    steps:\n      - run: echo ${{ needs.pcallmissing.outputs.x }} ${{ needs.pcallmissing.nosuch }}\n", deps: []string{"pcallmissing"}},
		{name: "pcallnotcallable", text: "  pcallnotcallable:\n    uses: ./.github/workflows/caller.yml\n"},
		{name: "pneednotcallable", text: "  pneednotcallable:\n    needs: [pcallnotcallable]\n    runs-on: ubuntu-latest\n    steps:\n      - run: echo ${{ needs.pcallnotcallable.outputs.x }}\n", deps: []string{"pcallnotcallable"}},
		{name: "pcallillformed", text: "  pcallillformed:\n    uses: ./.github/workflows/callee.yml@v1\n"},
		{name: "pneedillformed", text: "  pneedillformed:\n    needs: [pcallillformed]\n    runs-on: ubuntu-latest\n    steps:\n      - run: echo ${{ needs.pcallillformed.outputs.x }}\n", deps: []string{"pcallillformed"}},
		{name: "pact", text: "  pact:\n    runs-on: ubuntu-latest\n    steps:\n      - uses: ./act\n        id: s\n        with:\n          nosuch: 1\n      - run: echo ${{ steps.s.outputs.out1 }} ${{ steps.s.outputs.nosuch }}\n"},
	}})
	// jobs whose runner labels are spelled in several letter cases, under a configuration that
	// declares self-hosted labels (exact and glob): what one job's label resolved to must not
	// decide another job's
	families = append(families, &c09Family{name: "label-jobs", header: "on: push\njobs:\n", items: []c09Item{
		{name: "gpuok", text: "  gpuok:\n    runs-on: gpu-a100\n    steps:\n      - run: echo\n"},
		{name: "gpucase", text: "  gpucase:\n    runs-on: GPU-A100\n    steps:\n      - run: echo\n"},
		{name: "bigmem", text: "  bigmem:\n    runs-on: [self-hosted, bigmem]\n    steps:\n      - run: echo\n"},
		{name: "bigmemcase", text: "  bigmemcase:\n    runs-on: [Self-Hosted, BigMem, LINUX]\n    steps:\n      - run: echo\n"},
		{name: "gpumatrix", text: "  gpumatrix:\n    strategy:\n      matrix:\n        os: [gpu-h100, Gpu-H100, gpu-a100, ubuntu-latest]\n    runs-on: ${{ matrix.os }}\n    steps:\n      - run: echo\n"},
		{name: "presets", text: "  presets:\n    runs-on: [self-hosted, linux, ARM64]\n    steps:\n      - run: echo\n        shell: cmd\n"},
		{name: "unknownlabel", text: "  unknownlabel:\n    runs-on: [self-hosted, nosuch, NoSuch, bigmemx]\n    steps:\n      - run: echo\n"},
		{name: "hosted", text: "  hosted:\n    runs-on: [Ubuntu-Latest, bigmem]\n    steps:\n      - run: echo\n        shell: pwsh\n"},
	}})
	// jobs under a workflow-level default shell: which tool sees a job's scripts is decided by the
	// step, the job and the workflow header only, whatever job was visited before
	shellItems := []c09Item{
		{name: "jrun", text: "  jrun:\n    runs-on: ubuntu-latest\n    steps:\n      - run: import os\n      - run: echo $FOO\n"},
		{name: "jrun2", text: "  jrun2:\n    runs-on: ubuntu-latest\n    steps:\n      - run: print(x)\n"},
		{name: "jdefbash", text: "  jdefbash:\n    runs-on: ubuntu-latest\n    defaults:\n      run:\n        shell: bash\n    steps:\n      - run: echo $FOO\n"},
		{name: "jdefpython", text: "  jdefpython:\n    runs-on: ubuntu-latest\n    defaults:\n      run:\n        shell: python\n    steps:\n      - run: import os\n"},
		{name: "jstepshells", text: "  jstepshells:\n    runs-on: ubuntu-latest\n    steps:\n      - run: echo $FOO\n        shell: sh\n      - run: import os\n        shell: python\n      - run: echo\n        shell: pwsh\n"},
		{name: "jwindows", text: "  jwindows:\n    runs-on: windows-latest\n    steps:\n      - run: echo $FOO\n"},
		{name: "jcall", text: "  jcall:\n    uses: owner/repo/.github/workflows/w.yml@v1\n"},
	}
	for _, sh := range []string{"python", "bash", "pwsh"} {
		families = append(families, &c09Family{name: "default-shell-" + sh, header: "on: push\ndefaults:\n  run:\n    shell: " + sh + "\njobs:\n", items: shellItems})
	}
	// expression family: each expression is its own step (separate strings)
	ex := &c09Family{name: "exprs", header: "on: pull_request\njobs:\n  j:\n    runs-on: ubuntu-latest\n    strategy:\n      matrix:\n        os: [a]\n        z: [[1, 2]]\n        include:\n          - pkgs: ${{ fromJSON('[{\"meta\":{\"name\":\"a\"}}]').* }}\n    steps:\n      - id: a\n        run: echo\n"}
	for i, e := range c09Exprs {
		ex.items = append(ex.items, c09Item{name: fmt.Sprintf("e%d:%s", i, e), text: "      - run: echo\n        env:\n          V: ${{ " + e + " }}\n"})
	}
	families = append(families, ex)

	if raw := vReplayInput(); raw != nil {
		var rp struct {
			Composed, Alone, Item string
			Cnames, Anames        []string
			Cranges, Aranges      [][2]int
		}
		jsonUnmarshal(raw, &rp)
		mk := func(names []string) []*c09Item {
			var out []*c09Item
			for _, n := range names {
				out = append(out, &c09Item{name: n})
			}
			return out
		}
		for k := 0; k < 2; k++ {
			a, b := vLint(rp.Composed, nil), vLint(rp.Alone, nil)
			fmt.Printf("replay %d:\ncomposed:\n%s\n%v\nalone:\n%s\n%v\n", k, rp.Composed, vDiagStrings(a.Errs), rp.Alone, vDiagStrings(b.Errs))
			var got, want []string
			for i, n := range rp.Cnames {
				if n == rp.Item {
					got = c09Rel(a.Errs, rp.Cranges[i][0], rp.Cranges[i][1], mk(rp.Cnames), rp.Cranges)
				}
			}
			for i, n := range rp.Anames {
				if n == rp.Item {
					want = c09Rel(b.Errs, rp.Aranges[i][0], rp.Aranges[i][1], mk(rp.Anames), rp.Aranges)
				}
			}
			if strings.Join(got, "\n") != strings.Join(want, "\n") {
				r.Violation("leak:"+rp.Item, fmt.Sprintf("in composition: %v ; alone: %v", got, want), rp)
			}
		}
		r.Class("replay", true)
		return
	}

	// scripted shellcheck / pyflakes (one issue per invocation) so that the default-shell state of
	// those two rules is observable too; no explorer is attached, the real goroutines run freely
	vexec.LookPathFn = func(file string) (string, error) { return "/fake/" + file, nil }
	vexec.Handler = func(name string, args []string) vexec.Outcome {
		if strings.HasSuffix(name, "pyflakes") {
			return vexec.Outcome{Stdout: []byte("<stdin>:1:1: 'os' imported but unused\n"), ExitCode: 1}
		}
		return vexec.Outcome{Stdout: []byte(`[{"line":2,"column":1,"level":"warning","code":2086,"message":"Double quote."}]`), ExitCode: 1}
	}
	defer func() { vexec.LookPathFn, vexec.Handler = nil, nil }()
	cfgFile := filepath.Join(vTempDir(t, "c09-"), "actionlint.yaml")
	if err := os.WriteFile(cfgFile, []byte("self-hosted-runner:\n  labels:\n    - gpu-*\n    - bigmem\n"), 0o644); err != nil {
		r.HarnessError("%v", err)
		return
	}
	toolOpts := &LinterOptions{Shellcheck: "shellcheck", Pyflakes: "pyflakes", ConfigFile: cfgFile}
	lint := func(src string) vLintResult { return vLint(src, toolOpts) }
	aloneCache := map[string][]string{}
	var idx int64
	for _, f := range families {
		maxLen := map[string]int{"jobs": jobLen, "steps": stepLen, "exprs": exprLen, "call-jobs": 4, "project-jobs": 3, "label-jobs": 4, "default-shell-python": 3, "default-shell-bash": 3, "default-shell-pwsh": 3}[f.name]
		c09Sequences(len(f.items), maxLen, func(sel []int) bool {
			idx++
			if !r.Mine(idx) {
				return true
			}
			if idx%512 == 0 && r.Expired() {
				return false
			}
			seq := make([]*c09Item, len(sel))
			for i, k := range sel {
				seq[i] = &f.items[k]
			}
			// jobs: a needed job must be present for the job to be meaningful; allow its absence
			// too (then the reference also lacks it)
			src, ranges := f.compose(seq)
			r.Begin(func() string { return fmt.Sprintf("%s sequence %v", f.name, sel) })
			lint := lint
			if f.lint != nil {
				lint = f.lint
			}
			res := lint(src)
			r.Evaluations++
			r.Transitions++
			r.Validated++
			if res.Panic != "" || res.Err != nil {
				r.Violation("failure", fmt.Sprintf("%s %v: panic=%q err=%v", f.name, sel, vTrunc(res.Panic, 200), res.Err), map[string]any{"composed": src, "alone": ""})
				return true
			}
			for k, it := range seq {
				aseq := f.alone(seq, k, !strings.Contains(f.name, "jobs") && !strings.HasPrefix(f.name, "default-shell"))
				var names []string
				pos := 0
				for i, a := range aseq {
					names = append(names, a.name)
					if a == it {
						pos = i
					}
				}
				key := f.name + "|" + strings.Join(names, ",") + "|" + it.name
				want, ok := aloneCache[key]
				var asrc string
				if !ok {
					var ar [][2]int
					asrc, ar = f.compose(aseq)
					ares := lint(asrc)
					r.Transitions++
					want = c09Rel(ares.Errs, ar[pos][0], ar[pos][1], aseq, ar)
					aloneCache[key] = want
				}
				got := c09Rel(res.Errs, ranges[k][0], ranges[k][1], seq, ranges)
				if strings.Join(got, "\n") != strings.Join(want, "\n") {
					if asrc == "" {
						asrc, _ = f.compose(aseq)
					}
					var ctx []string
					for _, s := range seq {
						ctx = append(ctx, s.name)
					}
					r.Violation("leak:"+f.name+":"+it.name, fmt.Sprintf("%s item %q inside [%s]: diagnostics differ from the item with only its dependencies [%s]\n in composition: %s\n alone:          %s", f.name, it.name, strings.Join(ctx, ", "), strings.Join(names, ", "), strings.Join(c10Diff(got, want), " || "), strings.Join(c10Diff(want, got), " || ")),
						map[string]any{"composed": src, "alone": asrc, "item": it.name, "cnames": ctx, "cranges": ranges, "anames": names, "aranges": c09Ranges(f, aseq)})
				}
				r.Class(f.name+" "+it.name, len(want) > 0)
			}
			if idx%1013 == 0 {
				var ctx []string
				for _, s := range seq {
					ctx = append(ctx, s.name)
				}
				r.Sample(map[string]any{"family": f.name, "sequence": ctx})
			}
			return true
		})
	}

	// corpus family: every job of the repository's own example / ok / err workflows (hundreds of
	// shapes nobody chose for this purpose) as predecessor and as successor of every other one and
	// of the hand-written library jobs
	repo := os.Getenv("VERIF_REPO")
	if repo == "" {
		repo = "/repo"
	}
	corpus := c09CorpusJobs(repo, lint)
	r.Bounds["corpus_jobs"] = len(corpus)
	if len(corpus) < 100 {
		r.HarnessError("corpus of jobs too small: %d", len(corpus))
	}
	cf := &c09Family{name: "corpus-jobs", header: "on: pull_request\njobs:\n"}
	cf.items = append(cf.items, corpus...)
	nCorpus := len(cf.items)
	for _, it := range c09Jobs {
		it.id = it.name
		cf.items = append(cf.items, it)
	}
	corpusAlone := map[string][]string{}
	aloneOf := func(it *c09Item) []string {
		if w, ok := corpusAlone[it.name]; ok {
			return w
		}
		src, rg := cf.compose([]*c09Item{it})
		res := lint(src)
		w := c09Rel(res.Errs, rg[0][0], rg[0][1], []*c09Item{it}, rg)
		corpusAlone[it.name] = w
		return w
	}
	for i := 0; i < len(cf.items); i++ {
		for j := 0; j < len(cf.items); j++ {
			if i == j || (i >= nCorpus && j >= nCorpus) {
				continue // library x library is the family above
			}
			if !vThorough() && i < nCorpus && j < nCorpus && (i%4 != 0 && j%4 != 0) {
				continue // quick: every fourth corpus job against all others (both directions); thorough: all pairs
			}
			a, b := &cf.items[i], &cf.items[j]
			if strings.EqualFold(a.id, b.id) {
				continue
			}
			related := false
			for _, d := range a.deps {
				if strings.EqualFold(d, b.id) {
					related = true
				}
			}
			for _, d := range b.deps {
				if strings.EqualFold(d, a.id) {
					related = true
				}
			}
			if related {
				continue // one needs the other by name: not unrelated
			}
			idx++
			if !r.Mine(idx) {
				continue
			}
			if idx%512 == 0 && r.Expired() {
				return
			}
			seq := []*c09Item{a, b}
			src, ranges := cf.compose(seq)
			r.Begin(func() string { return fmt.Sprintf("corpus pair %s, %s", a.name, b.name) })
			res := lint(src)
			r.Evaluations++
			r.Transitions++
			r.Validated++
			if res.Panic != "" || res.Err != nil {
				r.Violation("failure", fmt.Sprintf("corpus pair %s, %s: panic=%q err=%v", a.name, b.name, vTrunc(res.Panic, 200), res.Err), map[string]any{"composed": src, "alone": ""})
				continue
			}
			yamlBroken := false
			for _, e := range res.Errs {
				if strings.HasPrefix(e.Message, "could not parse as YAML") {
					yamlBroken = true
				}
			}
			if yamlBroken {
				continue
			}
			for k, it := range seq {
				want := aloneOf(it)
				got := c09Rel(res.Errs, ranges[k][0], ranges[k][1], seq, ranges)
				if strings.Join(got, "\n") != strings.Join(want, "\n") {
					asrc, ar := cf.compose([]*c09Item{it})
					r.Violation("leak:corpus:"+[]string{"first", "second"}[k], fmt.Sprintf("corpus job %q next to %q (as %s of the two): diagnostics differ from the job alone\n in composition: %s\n alone:          %s", it.name, seq[1-k].name, []string{"first", "second"}[k], c10Diff(got, want), c10Diff(want, got)),
						map[string]any{"composed": src, "alone": asrc, "item": it.name, "cnames": []string{a.name, b.name}, "cranges": ranges, "anames": []string{it.name}, "aranges": ar})
				}
			}
			r.Class("corpus-jobs pair", true)
		}
	}

	// job visiting order is a map order: pairs of jobs under every single map-order deviation
	jf := families[0]
	for i := range jf.items {
		for j := range jf.items {
			if i == j {
				continue
			}
			idx++
			if !r.Mine(idx) {
				continue
			}
			seq := []*c09Item{&jf.items[i], &jf.items[j]}
			src, _ := jf.compose(seq)
			var ident string
			first := true
			cfg := vsched.Config{MaxDev: 1}
			cfg.Check = func(x *vsched.Exec, obs string) string {
				if obs != ident {
					return "map-order\x00" + fmt.Sprintf("jobs [%s, %s]: diagnostics depend on a map iteration order (deviations %v): %s", seq[0].name, seq[1].name, x.Deviations(), c02FirstDiffCopy(ident, obs))
				}
				return ""
			}
			res := vsched.Explore(cfg, func(x *vsched.Exec) string {
				o := strings.Join(vDiagStrings(vLint(src, nil).Errs), "\n")
				if first {
					ident, first = o, false
				}
				return o
			})
			r.Evaluations += res.Execs
			r.Transitions += res.Execs
			r.Validated += res.Execs
			if res.HarnessErr != "" {
				r.HarnessError("%s", vTrunc(res.HarnessErr, 500))
			}
			for _, v := range res.Violations {
				parts := strings.SplitN(v.Msg, "\x00", 2)
				if len(parts) == 2 {
					r.Violation("map-order:"+seq[0].name+"+"+seq[1].name, parts[1], map[string]any{"composed": src, "alone": ""})
				} else {
					r.Violation("failure", vTrunc(v.Msg, 600), map[string]any{"composed": src, "alone": ""})
				}
			}
		}
	}
}

func c02FirstDiffCopy(a, b string) string {
	la, lb := strings.Split(a, "\n"), strings.Split(b, "\n")
	for i := 0; i < len(la) && i < len(lb); i++ {
		if la[i] != lb[i] {
			return fmt.Sprintf("line %d: %q vs %q", i+1, vTrunc(la[i], 200), vTrunc(lb[i], 200))
		}
	}
	return fmt.Sprintf("%d vs %d lines", len(la), len(lb))
}

func c09Ranges(f *c09Family, seq []*c09Item) [][2]int {
	_, rg := f.compose(seq)
	return rg
}

// c09CorpusJobs extracts every block-style job (keys at two spaces) of the repository's example,
// ok and err workflows as an item; jobs whose text does not stand alone as YAML (aliases to
// anchors of other jobs) are left out.
func c09CorpusJobs(repo string, lint func(string) vLintResult) []c09Item {
	var out []c09Item
	for _, g := range []string{"testdata/examples/*.yaml", "testdata/ok/*.yaml", "testdata/err/*.yaml"} {
		files, _ := filepath.Glob(filepath.Join(repo, g))
		sort.Strings(files)
		for _, f := range files {
			b, err := os.ReadFile(f)
			if err != nil {
				continue
			}
			var doc yaml.Node
			if yaml.Unmarshal(b, &doc) != nil || len(doc.Content) != 1 || doc.Content[0].Kind != yaml.MappingNode {
				continue
			}
			root := doc.Content[0]
			lines := strings.Split(string(b), "\n")
			for i := 0; i+1 < len(root.Content); i += 2 {
				if root.Content[i].Value != "jobs" || root.Content[i+1].Kind != yaml.MappingNode {
					continue
				}
				end := len(lines) // last line of the jobs section
				if i+2 < len(root.Content) {
					end = root.Content[i+2].Line - 1
				}
				jobs := root.Content[i+1]
				for j := 0; j+1 < len(jobs.Content); j += 2 {
					k, v := jobs.Content[j], jobs.Content[j+1]
					if k.Column != 3 || k.Style != 0 || v.Kind != yaml.MappingNode || v.Style&yaml.FlowStyle != 0 {
						continue
					}
					last := end
					if j+2 < len(jobs.Content) {
						last = jobs.Content[j+2].Line - 1
					}
					var blk []string
					for _, l := range lines[k.Line-1 : last] {
						if strings.TrimSpace(l) == "" || strings.HasPrefix(strings.TrimSpace(l), "#") {
							continue
						}
						blk = append(blk, l)
					}
					if len(blk) == 0 || !strings.HasPrefix(blk[0], "  "+k.Value+":") {
						continue
					}
					it := c09Item{name: fmt.Sprintf("%s@%s/%s#%d", k.Value, filepath.Base(filepath.Dir(f)), strings.TrimSuffix(filepath.Base(f), ".yaml"), j/2), id: k.Value, text: strings.Join(blk, "\n") + "\n"}
					for m := 0; m+1 < len(v.Content); m += 2 {
						if strings.EqualFold(v.Content[m].Value, "needs") {
							nv := v.Content[m+1]
							if nv.Kind == yaml.ScalarNode {
								it.deps = append(it.deps, nv.Value)
							}
							for _, e := range nv.Content {
								it.deps = append(it.deps, e.Value)
							}
						}
					}
					res := lint("on: pull_request\njobs:\n" + it.text)
					bad := res.Panic != "" || res.Err != nil
					for _, e := range res.Errs {
						if strings.HasPrefix(e.Message, "could not parse as YAML") {
							bad = true
						}
					}
					if !bad {
						out = append(out, it)
					}
				}
			}
		}
	}
	return out
}
