//go:build go1.23

package actionlint

// C07 — diagnostics point at the exact source position.
//
// Space: product of (diagnosed construct) x extra indentation 0-4 x lines above 0-3 x block/flow
// style x plain/single/double quoting x prefix text length 0-5 x preceding placeholders 0-2 x
// spaces after ${{ 0-3, plus key / enum-value / glob-character constructs. The generator records
// where it put the offending token; shift-invariance follows because every shift is enumerated
// against that absolute oracle. Plus: every diagnostic of a fragment corpus (positions x YAML
// fragments) that is not a YAML-level syntax error has 1 <= line <= #lines and column >= 1.

import (
	"fmt"
	"os"
	"regexp"
	"strings"
	"testing"
)

type c07Construct struct {
	name string
	key  string // step key holding the scalar: run | if | name
	expr string // text inside ${{ }} ("" with bare=true: the whole value)
	off  int    // offset of the offending token in expr
	msg  *regexp.Regexp
	bare bool // bare if: condition without ${{ }}
}

// c07AtMarker as the offset of a construct: the diagnostic stands at the ${{ of the placeholder, not
// at a token inside it (object / array / null evaluated in a template).
const c07AtMarker = -1000

var c07Constructs = []c07Construct{
	{"evaluated-object", "name", "github.event", c07AtMarker, regexp.MustCompile(`^object, array, and null values should not be evaluated in template`), false},
	{"evaluated-null-in-run", "run", "null", c07AtMarker, regexp.MustCompile(`^object, array, and null values should not be evaluated in template`), false},
	{"lexer-error", "run", "a $ b", 2, regexp.MustCompile(`^got unexpected character '\$'`), false},
	{"parser-leftover", "run", "github b", 7, regexp.MustCompile(`^parser did not reach end of input`), false},
	{"undefined-variable-first", "run", "nosuch.x", 0, regexp.MustCompile(`^undefined variable "nosuch"`), false},
	{"undefined-variable-inner", "run", "github.sha == nosuch", 14, regexp.MustCompile(`^undefined variable "nosuch"`), false},
	{"undefined-property", "run", "1 == github.nosuchprop", 5, regexp.MustCompile(`^property "nosuchprop" is not defined`), false},
	{"undefined-function-arg", "run", "toJSON(nosuch)", 7, regexp.MustCompile(`^undefined variable "nosuch"`), false},
	{"untrusted-input", "run", "github.event.issue.title", 0, regexp.MustCompile(`is potentially untrusted`), false},
	{"untrusted-input-inner", "run", "toJSON(github.event.issue.body)", 7, regexp.MustCompile(`is potentially untrusted`), false},
	{"func-arg-1st", "run", "startsWith(null, 'a')", 11, regexp.MustCompile(`^1st argument of function call is not assignable`), false},
	{"func-arg-2nd", "run", "startsWith('abc', null)", 18, regexp.MustCompile(`^2nd argument of function call is not assignable`), false},
	{"func-arg-variadic-2nd", "run", "hashFiles('a', true)", 15, regexp.MustCompile(`^2nd argument of function call is not assignable`), false},
	{"func-arg-variadic-3rd", "run", "hashFiles('a', 'bb', null)", 21, regexp.MustCompile(`^3rd argument of function call is not assignable`), false},
	{"compare-operand", "run", "github.sha < true", 0, regexp.MustCompile(`value cannot be compared to`), false},
	{"index-operand", "run", "github.sha[0]", 0, regexp.MustCompile(`^index access operand must be type of object or array`), false},
	{"availability", "if", "secrets.x == 'a'", 0, regexp.MustCompile(`^context "secrets" is not allowed here`), false},
	{"bare-if-first", "if", "nosuch == 1", 0, regexp.MustCompile(`^undefined variable "nosuch"`), true},
	{"bare-if-inner", "if", "1 == nosuch", 5, regexp.MustCompile(`^undefined variable "nosuch"`), true},
	{"bare-if-syntax", "if", "github b", 7, regexp.MustCompile(`^parser did not reach end of input`), true},
}

type c07Case struct {
	Desc   string
	Src    string
	Line   int
	Col    int
	Msg    string
	NLines int
}

func c07Quote(q int, s string) (string, int) {
	switch q {
	case 1:
		return "'" + strings.ReplaceAll(s, "'", "''") + "'", 1
	case 2:
		return "\"" + s + "\"", 1
	case 3: // the scalar carries an anchor
		return "&anc " + s, 5
	case 4: // ... an explicit tag
		return "!!str " + s, 6
	case 5: // ... both, and quotes
		return "&anc !!str \"" + s + "\"", 12
	case 6: // the tag before the anchor (YAML allows either order)
		return "!!str &anc " + s, 11
	case 7:
		return "!!str &anc \"" + s + "\"", 12
	case 8:
		return "&anc !!str " + s, 11
	case 9: // several blanks after a node property
		return "&anc   " + s, 7
	case 10:
		return "!!str  &anc   \"" + s + "\"", 15
	case 11: // the non-specific tag
		return "! " + s, 2
	case 12:
		return "! \"" + s + "\"", 3
	}
	return s, 0
}

var c07QuoteNames = []string{"plain", "single", "double", "anchor+plain", "tag+plain", "anchor+tag+double", "tag+anchor+plain", "tag+anchor+double", "anchor+tag+plain", "anchor+blanks+plain", "tag+blanks+anchor+blanks+double", "non-specific-tag+plain", "non-specific-tag+double"}

// c07Plain: the text is written as a plain scalar (after an anchor / tag or not).
func c07Plain(quote int) bool {
	return quote == 0 || quote == 3 || quote == 4 || quote == 6 || quote == 8 || quote == 9 || quote == 11
}

// c07StepCase renders a workflow whose only step carries the scalar.
func c07StepCase(con *c07Construct, extra, above, flow, quote, prefix, preceding, spaces int) *c07Case {
	var content string
	tokOff := 0
	if con.bare {
		if prefix > 0 || preceding > 0 || (spaces > 0 && c07Plain(quote)) {
			return nil
		}
		// quoted conditions: `spaces` blanks between the opening quote and the first token
		content = strings.Repeat(" ", spaces) + con.expr
		tokOff = spaces + con.off
	} else {
		content = strings.Repeat("p", prefix)
		if quote != 1 && prefix > 0 {
			// text before the placeholder with apostrophes in it (one column each outside a
			// single-quoted scalar, which the claimed class leaves out when it holds a quote)
			content = "i'p'x'q'y"[:prefix]
		}
		if prefix > 0 {
			content += " "
		}
		for i := 0; i < preceding; i++ {
			content += fmt.Sprintf("${{ %d }} ", i+1)
		}
		content += "${{" + strings.Repeat(" ", spaces)
		tokOff = len(content) + con.off
		if con.off == c07AtMarker {
			tokOff = len(content) - len("${{") - spaces
		}
		content += con.expr + " }}"
	}
	if strings.Contains(content, "'") && quote == 1 {
		// single quotes inside single-quoted scalars are escapes: outside the claimed class
		return nil
	}
	if c07Plain(quote) && (flow == 1 || strings.HasPrefix(content, "${{") && false) {
		return nil // plain scalars cannot hold { } in flow context
	}
	if c07Plain(quote) && strings.Contains(content, ": ") {
		return nil
	}
	if c07Plain(quote) && (strings.HasPrefix(content, "'") || strings.HasPrefix(content, "!") || strings.HasPrefix(content, "1 ==") && false) {
		return nil
	}
	scalar, qoff := c07Quote(quote, content)
	var b strings.Builder
	line := 1
	for i := 0; i < above; i++ {
		b.WriteString("# comment line\n")
		line++
	}
	b.WriteString("on: pull_request\njobs:\n  a:\n    runs-on: ubuntu-latest\n    steps:\n")
	line += 5
	ind := strings.Repeat(" ", 6+extra)
	var col int
	if flow == 1 {
		head := ind + "- {" + con.key + ": "
		col = len(head) + 1
		b.WriteString(head + scalar)
		if con.key != "run" {
			b.WriteString(", run: echo")
		}
		b.WriteString("}\n")
	} else {
		head := ind + "- " + con.key + ": "
		col = len(head) + 1
		b.WriteString(head + scalar + "\n")
		if con.key != "run" {
			b.WriteString(ind + "  run: echo\n")
		}
	}
	src := b.String()
	return &c07Case{
		Desc: fmt.Sprintf("%s extra=%d above=%d flow=%d quote=%s prefix=%d preceding=%d spaces=%d", con.name, extra, above, flow, c07QuoteNames[quote], prefix, preceding, spaces),
		Src:  src, Line: line, Col: col + qoff + tokOff, Msg: con.msg.String(), NLines: strings.Count(src, "\n"),
	}
}

func c07Run(r *vReport, cs *c07Case, class string) {
	res := vLint(cs.Src, nil)
	r.Evaluations++
	r.Transitions++
	r.Validated++
	replay := map[string]any{"desc": cs.Desc, "src": cs.Src, "line": cs.Line, "col": cs.Col, "msg": cs.Msg, "class": class}
	if res.Panic != "" || res.Err != nil {
		r.Violation("failure", fmt.Sprintf("%s: panic=%q err=%v", cs.Desc, vTrunc(res.Panic, 200), res.Err), replay)
		return
	}
	re := regexp.MustCompile(cs.Msg)
	var hits []vDiag
	for _, d := range vDiags(res.Errs) {
		if re.MatchString(d.Msg) {
			hits = append(hits, d)
		}
		if d.Line < 1 || d.Line > cs.NLines || d.Col < 1 {
			r.Violation("line-col-range", fmt.Sprintf("%s: diagnostic %v outside the file (lines 1..%d)", cs.Desc, d, cs.NLines), replay)
		}
	}
	if len(hits) != 1 {
		r.Violation("harness-precondition:"+class, fmt.Sprintf("%s: expected exactly one diagnostic matching %s, got %d: %v", cs.Desc, cs.Msg, len(hits), vDiagStrings(res.Errs)), replay)
		return
	}
	if hits[0].Line != cs.Line || hits[0].Col != cs.Col {
		r.Violation("position:"+class, fmt.Sprintf("%s: token is at %d:%d, diagnostic reported at %d:%d (%s)\n%s", cs.Desc, cs.Line, cs.Col, hits[0].Line, hits[0].Col, vTrunc(hits[0].Msg, 80), cs.Src), replay)
	}
	r.Class(class, true)
}

func TestVerifC07(t *testing.T) {
	r := vNewReport("C07")
	defer r.Write(t)
	r.Extra["rule"] = "20 expression constructs (lexer, parser, semantic first/inner token, untrusted input, availability, object / null evaluated in a template - reported at the ${{ -, bare if:) x extra indentation 0-4 x lines above 0-3 x block/flow x plain/single/double/after an anchor/after a tag/after both in either order/with several blanks between them x prefix 0-5 x preceding placeholders 0-2 x spaces after ${{ 0-3; every non-exempt scalar position of the 4 seeds x plain/single/double x 0-3 spaces with an undefined variable; 26 per-rule templates (ids, env names, permission scopes, runner labels, needs, events, activity types, cron, matrix duplicates / exclude, action inputs and refs, timeout, credentials, if-cond, workflow call, dispatch default, input type, unexpected / duplicate keys) x quoting x lines above with the marker's position as expectation; key constructs (unexpected, duplicate) and value constructs (enum, shell name, glob character at index 0-4) x indentation x lines above x style x quoting; plus line/column range of every non-YAML-level diagnostic over positions x fragments of the workflow seeds. class = construct x style x quoting; all non-trivial"
	r.Extra["assumptions"] = []string{"one-line ASCII scalars without escape sequences only (as the statement says)"}
	if raw := vReplayInput(); raw != nil {
		var cs c07Case
		var rp map[string]any
		jsonUnmarshal(raw, &rp)
		cs.Desc, cs.Src, cs.Line, cs.Col, cs.Msg = rp["desc"].(string), rp["src"].(string), vInt(rp["line"]), vInt(rp["col"]), rp["msg"].(string)
		cs.NLines = strings.Count(cs.Src, "\n")
		for k := 0; k < 2; k++ {
			res := vLint(cs.Src, nil)
			fmt.Printf("replay %d:\n%s\nexpected %d:%d; diagnostics %v\n", k, cs.Src, cs.Line, cs.Col, vDiagStrings(res.Errs))
			c07Run(r, &cs, rp["class"].(string))
		}
		return
	}
	var idx int64
	// ---- expression constructs
	for ci := range c07Constructs {
		con := &c07Constructs[ci]
		// bounds of the placement dimensions (thorough: deeper in every dimension)
		bExtra, bAbove, bPrefix, bPreceding, bSpaces := 4, 3, 5, 2, 3
		if vThorough() {
			bExtra, bAbove, bPrefix, bPreceding, bSpaces = 6, 4, 9, 4, 5
		}
		r.Bounds["placement"] = map[string]int{"extra_indentation": bExtra, "lines_above": bAbove, "prefix_characters": bPrefix, "preceding_placeholders": bPreceding, "blanks": bSpaces}
		for extra := 0; extra <= bExtra; extra++ {
			for above := 0; above <= bAbove; above++ {
				for flow := 0; flow <= 1; flow++ {
					for quote := 0; quote <= 12; quote++ {
						for prefix := 0; prefix <= bPrefix; prefix++ {
							for preceding := 0; preceding <= bPreceding; preceding++ {
								for spaces := 0; spaces <= bSpaces; spaces++ {
									cs := c07StepCase(con, extra, above, flow, quote, prefix, preceding, spaces)
									if cs == nil {
										continue
									}
									idx++
									if !r.Mine(idx) {
										continue
									}
									if idx%2048 == 0 && r.Expired() {
										return
									}
									r.Begin(func() string { return cs.Desc })
									c07Run(r, cs, fmt.Sprintf("%s/%s/%s", con.name, []string{"block", "flow"}[flow], c07QuoteNames[quote]))
									if idx%20011 == 0 {
										r.Sample(map[string]any{"case": cs.Desc, "expected": []int{cs.Line, cs.Col}, "src": cs.Src})
									}
								}
							}
						}
					}
				}
			}
		}
	}
	// ---- key constructs, value constructs, glob characters
	for extra := 0; extra <= 4; extra++ {
		for above := 0; above <= 3; above++ {
			top := strings.Repeat("# c\n", above)
			ind := strings.Repeat(" ", 6+extra)
			jind := strings.Repeat(" ", 2+extra)
			type kc struct {
				class, src, msg string
				line, col       int
			}
			var cases []kc
			// unexpected / duplicate key in a step (block and flow)
			cases = append(cases,
				kc{"unexpected-key/block", top + "on: push\njobs:\n  a:\n    runs-on: ubuntu-latest\n    steps:\n" + ind + "- run: echo\n" + ind + "  zzforeign: 1\n", `^unexpected key "zzforeign"`, above + 7, len(ind) + 3},
				kc{"unexpected-key/flow", top + "on: push\njobs:\n  a:\n    runs-on: ubuntu-latest\n    steps:\n" + ind + "- {run: echo, zzforeign: 1}\n", `^unexpected key "zzforeign"`, above + 6, len(ind) + len("- {run: echo, ") + 1},
				kc{"duplicate-key/block", top + "on: push\njobs:\n  a:\n    runs-on: ubuntu-latest\n    steps:\n" + ind + "- run: echo\n" + ind + "  name: a\n" + ind + "  name: b\n", `^key "name" is duplicate`, above + 8, len(ind) + 3},
				kc{"duplicate-key/flow", top + "on: push\njobs:\n  a:\n    runs-on: ubuntu-latest\n    steps:\n" + ind + "- {run: echo, name: a, name: b}\n", `^key "name" is duplicate`, above + 6, len(ind) + len("- {run: echo, name: a, ") + 1},
				kc{"unexpected-key/job", top + "on: push\njobs:\n" + jind + "a:\n" + jind + "  runs-on: ubuntu-latest\n" + jind + "  zzforeign: 1\n" + jind + "  steps:\n" + jind + "    - run: echo\n", `^unexpected key "zzforeign"`, above + 5, len(jind) + 3},
			)
			for quote := 0; quote <= 12; quote++ {
				q := func(s string) (string, int) { return c07Quote(quote, s) }
				// a diagnostic about a whole value points at its text (the opening quote of a quoted
				// one), which stands after an anchor / tag
				ao := []int{0, 0, 0, 5, 6, 11, 11, 11, 11, 7, 14, 2, 2}[quote]
				v, qo := q("nosuchshell")
				cases = append(cases, kc{"shell-name/" + c07QuoteNames[quote], top + "on: push\njobs:\n  a:\n    runs-on: ubuntu-latest\n    steps:\n" + ind + "- run: echo\n" + ind + "  shell: " + v + "\n", `^shell name "nosuchshell" is invalid`, above + 7, len(ind) + 10 + ao})
				_ = qo
				v, _ = q("bogus")
				cases = append(cases, kc{"permission-value/" + c07QuoteNames[quote], top + "on: push\npermissions:\n" + jind + "contents: " + v + "\njobs:\n  a:\n    runs-on: ubuntu-latest\n    steps:\n      - run: echo\n", `^"bogus" is invalid for permission`, above + 3, len(jind) + 11 + ao})
				v, _ = q("nosuchtype")
				cases = append(cases, kc{"dispatch-input-type/" + c07QuoteNames[quote], top + "on:\n  workflow_dispatch:\n    inputs:\n      x:\n" + ind + "  type: " + v + "\njobs:\n  a:\n    runs-on: ubuntu-latest\n    steps:\n      - run: echo\n", `^input type of workflow_dispatch event must be one of`, above + 5, len(ind) + 9 + ao})
				// glob: bad character (space) at index k of a ref pattern
				// several bad characters in one pattern: each one is reported at its own column
				{
					pat := "aa b~c^d"
					v, qo := q(pat)
					for _, bad := range []struct {
						re  string
						off int
					}{{`^character ' ' is invalid for branch and tag names`, 2}, {`^character '~' is invalid for branch and tag names`, 4}, {`^character '\^' is invalid for branch and tag names`, 6}} {
						cases = append(cases,
							kc{"glob-multi-char/block/" + c07QuoteNames[quote], top + "on:\n  push:\n    branches:\n" + ind + "- " + v + "\njobs:\n  a:\n    runs-on: ubuntu-latest\n    steps:\n      - run: echo\n", bad.re, above + 4, len(ind) + 3 + qo + bad.off},
							kc{"glob-multi-char/flow/" + c07QuoteNames[quote], top + "on:\n  push:\n" + jind + "  tags: [main, " + v + "]\njobs:\n  a:\n    runs-on: ubuntu-latest\n    steps:\n      - run: echo\n", bad.re, above + 3, len(jind) + 16 + qo + bad.off},
						)
					}
				}
				// negated pattern: the ! is part of the scalar, columns count it
				if !c07Plain(quote) {
					for k := 1; k <= 3; k++ {
						pat := "!" + strings.Repeat("a", k) + " b"
						v, qo := q(pat)
						cases = append(cases,
							kc{"glob-negated/block/" + c07QuoteNames[quote], top + "on:\n  push:\n    branches:\n" + ind + "- " + v + "\njobs:\n  a:\n    runs-on: ubuntu-latest\n    steps:\n      - run: echo\n", `^character ' ' is invalid for branch and tag names`, above + 4, len(ind) + 3 + qo + k + 1},
						)
					}
				}
				for k := 1; k <= 4; k++ {
					pat := strings.Repeat("a", k) + " b"
					v, qo := q(pat)
					cases = append(cases,
						kc{"glob-char/block/" + c07QuoteNames[quote], top + "on:\n  push:\n    branches:\n" + ind + "- " + v + "\njobs:\n  a:\n    runs-on: ubuntu-latest\n    steps:\n      - run: echo\n", `^character ' ' is invalid for branch and tag names`, above + 4, len(ind) + 3 + qo + k},
						kc{"glob-char/flow/" + c07QuoteNames[quote], top + "on:\n  push:\n" + jind + "  branches: [main, " + v + "]\njobs:\n  a:\n    runs-on: ubuntu-latest\n    steps:\n      - run: echo\n", `^character ' ' is invalid for branch and tag names`, above + 3, len(jind) + 20 + qo + k},
					)
				}
			}
			for _, c := range cases {
				idx++
				if !r.Mine(idx) {
					continue
				}
				cs := &c07Case{Desc: fmt.Sprintf("%s extra=%d above=%d", c.class, extra, above), Src: c.src, Line: c.line, Col: c.col, Msg: c.msg, NLines: strings.Count(c.src, "\n")}
				r.Begin(func() string { return cs.Desc })
				c07Run(r, cs, c.class)
			}
		}
	}
	// ---- one template per rule that reports at a key or a scalar value: the marker records where the
	// offending key / value starts; x plain / single / double quoting x lines above
	c07RuleTemplates(r, &idx)
	// ---- several diagnosed placeholders in one string: every reported diagnostic must sit at the
	// token of the placeholder it names (the names differ per slot), whatever precedes it — in
	// particular placeholders that themselves failed (scripts continue after a semantic error)
	c07MultiFamily(r, &idx)
	// ---- every scalar position of the seeds x quoting x spaces after ${{ : an undefined variable
	// spliced there must be reported exactly at its first character (this reaches every field
	// kind: template strings, single-expression bool/int/float fields, section-level expressions)
	cats0, err0 := vAllCatalogues()
	if err0 != nil {
		r.HarnessError("%v", err0)
		return
	}
	undef := regexp.MustCompile(`^undefined variable "nosuchvar"`)
	for _, c := range cats0 {
		for _, p := range c.Scalars {
			if sch, ok := vSchemaOf(p.NPath); !ok || sch.Exempt {
				continue
			}
			lineText := c.Lines[p.Line-1]
			inFlow := strings.ContainsAny(lineText[:p.Col-1], "[{")
			for quote := 0; quote <= 2; quote++ {
				if quote == 0 && inFlow {
					continue
				}
				for spaces := 0; spaces <= 3; spaces++ {
					idx++
					if !r.Mine(idx) {
						continue
					}
					content := "${{" + strings.Repeat(" ", spaces) + "nosuchvar }}"
					scalar, qoff := c07Quote(quote, content)
					src := c.Replace(p, scalar)
					res := vLint(src, nil)
					r.Evaluations++
					r.Transitions++
					r.Validated++
					var hits []vDiag
					for _, d := range vDiags(res.Errs) {
						if undef.MatchString(d.Msg) {
							hits = append(hits, d)
						}
					}
					class := fmt.Sprintf("position/%s/%s", p.NPath, c07QuoteNames[quote])
					if len(hits) == 0 {
						r.Class("position/not-reported-as-undefined-variable", false)
						continue
					}
					wantCol := p.Col + qoff + 3 + spaces
					for _, h := range hits {
						if h.Line != p.Line || h.Col != wantCol {
							vkey := "position:field:" + p.NPath + ":" + c07QuoteNames[quote]
							if c07RawMatrixValue(p.NPath) {
								// all literal values below a matrix row / include / exclude entry go through one
								// call site (checkRawYAMLString); the key records the offset so that any
								// other displacement there is a different violation
								vkey = fmt.Sprintf("position:field:raw-matrix-value:%s:line%+d:col%+d", c07QuoteNames[quote], h.Line-p.Line, h.Col-wantCol)
							}
							r.Violation(vkey, fmt.Sprintf("%s %s (%s, %d spaces after ${{): variable is at %d:%d, diagnostic reported at %d:%d", c.Seed, p.Path, c07QuoteNames[quote], spaces, p.Line, wantCol, h.Line, h.Col),
								map[string]any{"desc": fmt.Sprintf("field %s %s", c.Seed, p.Path), "src": src, "line": p.Line, "col": wantCol, "msg": undef.String(), "class": class})
						}
					}
					r.Class(class, true)
				}
			}
		}
	}
	// ---- the same over every locatable scalar of the repository's own workflows (ok, examples, err)
	repo := os.Getenv("VERIF_REPO")
	if repo == "" {
		repo = "/repo"
	}
	corpus := vCorpusCatalogues(repo, false)
	r.Bounds["corpus_workflows"] = len(corpus)
	if len(corpus) < 100 {
		r.HarnessError("corpus of workflows too small: %d", len(corpus))
	}
	for _, c := range corpus {
		for _, p := range c.Scalars {
			lineText := c.Lines[p.Line-1]
			inFlow := strings.ContainsAny(lineText[:p.Col-1], "[{")
			for quote := 0; quote <= 2; quote++ {
				if quote == 0 && inFlow {
					continue
				}
				idx++
				if !r.Mine(idx) {
					continue
				}
				if idx%1024 == 0 && r.Expired() {
					return
				}
				spaces := int(idx % 3)
				content := "${{" + strings.Repeat(" ", spaces) + "nosuchvar }}"
				scalar, qoff := c07Quote(quote, content)
				src := c.Replace(p, scalar)
				res := vLint(src, nil)
				r.Evaluations++
				r.Transitions++
				r.Validated++
				wantCol := p.Col + qoff + 3 + spaces
				hit := false
				for _, d := range vDiags(res.Errs) {
					if !undef.MatchString(d.Msg) {
						continue
					}
					hit = true
					if d.Line != p.Line || d.Col != wantCol {
						vkey := "position:corpus:" + p.NPath + ":" + c07QuoteNames[quote]
						if c07RawMatrixValue(p.NPath) {
							vkey = fmt.Sprintf("position:field:raw-matrix-value:%s:line%+d:col%+d", c07QuoteNames[quote], d.Line-p.Line, d.Col-wantCol)
						}
						r.Violation(vkey, fmt.Sprintf("%s %s (%s, %d spaces after ${{): variable is at %d:%d, diagnostic reported at %d:%d", c.Seed, p.Path, c07QuoteNames[quote], spaces, p.Line, wantCol, d.Line, d.Col),
							map[string]any{"desc": fmt.Sprintf("corpus %s %s", c.Seed, p.Path), "src": src, "line": p.Line, "col": wantCol, "msg": undef.String(), "class": "corpus"})
					}
				}
				r.Class(fmt.Sprintf("corpus-position/reported=%v", hit), hit)
			}
		}
	}
	// ---- line / column range over positions x fragments of the workflow seeds
	frags := []string{"", "~", "1", "[]", "{}", "[a]", "{a: b}", "!!float nan", "!!int x", "'${{ a + }}'", "'${{ nosuch }}'", "'${{ github.event.issue.title }}'", "zz", "'a b'", "!!str"}
	cats, err := vAllCatalogues()
	if err != nil {
		r.HarnessError("%v", err)
		return
	}
	for _, c := range cats {
		nl := strings.Count(c.Src, "\n") + 1
		for _, p := range append(append([]*vPos{}, c.Scalars...), c.Keys...) {
			for _, f := range frags {
				idx++
				if !r.Mine(idx) {
					continue
				}
				if idx%2048 == 0 && r.Expired() {
					return
				}
				src := c.Replace(p, f)
				res := vLint(src, nil)
				r.Evaluations++
				r.Transitions++
				r.Validated++
				for _, d := range vDiags(res.Errs) {
					if strings.HasPrefix(d.Msg, "could not parse as YAML") {
						continue
					}
					if d.Line < 1 || d.Line > nl || d.Col < 1 {
						r.Violation("line-col-range", fmt.Sprintf("%s position %s fragment %q: diagnostic %v outside the file (lines 1..%d)", c.Seed, p.Path, f, d, nl),
							map[string]any{"desc": "range " + c.Seed + " " + p.Path, "src": src, "line": 0, "col": 0, "msg": "$^", "class": "range"})
					}
				}
				r.Class("range-corpus", true)
			}
		}
	}
}

// c07Slot is one placeholder body of the multi-placeholder family; %d is the slot number.
type c07Slot struct {
	name string
	body func(i int) string
	msg  func(i int) string // regexp of the diagnostic naming this slot's token
}

var c07UntrustedBySlot = []string{"github.event.issue.title", "github.event.issue.body", "github.head_ref"}

var c07Slots = []c07Slot{
	{"valid", func(i int) string { return fmt.Sprint(i + 1) }, nil},
	{"undefined-variable", func(i int) string { return fmt.Sprintf("nosuch%d.x", i) }, func(i int) string { return fmt.Sprintf(`^undefined variable "nosuch%d"`, i) }},
	{"untrusted", func(i int) string { return c07UntrustedBySlot[i] }, func(i int) string {
		return `^"` + regexp.QuoteMeta(c07UntrustedBySlot[i]) + `" is potentially untrusted`
	}},
	{"undefined-property", func(i int) string { return fmt.Sprintf("github.nosuchprop%d", i) }, func(i int) string { return fmt.Sprintf(`^property "nosuchprop%d" is not defined`, i) }},
}

func c07MultiFamily(r *vReport, idx *int64) {
	keys := []struct{ name, head, tail string }{
		{"run", "- run: ", ""},
		{"name", "- name: ", "\n        run: echo"},
		{"env", "- env:\n          V: ", "\n        run: echo"},
		{"with", "- uses: actions/checkout@v4\n        with:\n          ref: ", ""},
	}
	for n := 2; n <= 3; n++ {
		total := 1
		for i := 0; i < n; i++ {
			total *= len(c07Slots)
		}
		for code := 0; code < total; code++ {
			sel := make([]int, n)
			for i, c := 0, code; i < n; i++ {
				sel[i] = c % len(c07Slots)
				c /= len(c07Slots)
			}
			for _, spaces := range []int{0, 1, 3} {
				for _, sep := range []int{0, 1, 4} {
					for quote := 0; quote <= 2; quote++ {
						for ki, k := range keys {
							*idx++
							if !r.Mine(*idx) {
								continue
							}
							content := "echo "
							type exp struct {
								off  int
								re   *regexp.Regexp
								prev string // kind of the slot before this one
							}
							var exps []exp
							for i, si := range sel {
								content += "${{" + strings.Repeat(" ", spaces)
								if c07Slots[si].msg != nil {
									prev := "first"
									if i > 0 {
										prev = c07Slots[sel[i-1]].name
									}
									exps = append(exps, exp{len(content), regexp.MustCompile(c07Slots[si].msg(i)), prev})
								}
								content += c07Slots[si].body(i) + " }}" + strings.Repeat("-", sep)
							}
							scalar, qoff := c07Quote(quote, content)
							head := "on: pull_request\njobs:\n  a:\n    runs-on: ubuntu-latest\n    steps:\n      "
							lines := strings.Split(head+k.head, "\n")
							line := len(lines)
							col := len(lines[len(lines)-1]) + 1
							src := head + k.head + scalar + k.tail + "\n"
							desc := fmt.Sprintf("multi %s sel=%v spaces=%d sep=%d quote=%s", k.name, sel, spaces, sep, c07QuoteNames[quote])
							r.Begin(func() string { return desc })
							res := vLint(src, nil)
							r.Evaluations++
							r.Transitions++
							r.Validated++
							if res.Panic != "" || res.Err != nil {
								r.Violation("failure", fmt.Sprintf("%s: panic=%q err=%v", desc, vTrunc(res.Panic, 200), res.Err), map[string]any{"desc": desc, "src": src, "line": 0, "col": 0, "msg": "$^", "class": "multi"})
								continue
							}
							hitsTotal := 0
							for _, e := range exps {
								for _, d := range vDiags(res.Errs) {
									if !e.re.MatchString(d.Msg) {
										continue
									}
									hitsTotal++
									want := col + qoff + e.off
									if d.Line != line || d.Col != want {
										r.Violation(fmt.Sprintf("position:multi:%s:slot-after-%s", k.name, e.prev), fmt.Sprintf("%s: token of %s is at %d:%d, diagnostic reported at %d:%d (%s)\n%s", desc, e.re, line, want, d.Line, d.Col, vTrunc(d.Msg, 80), src),
											map[string]any{"desc": desc, "src": src, "line": line, "col": want, "msg": e.re.String(), "class": "multi"})
									}
								}
							}
							r.Class(fmt.Sprintf("multi/%s/%s/diagnosed-slots=%d", keys[ki].name, c07QuoteNames[quote], hitsTotal), hitsTotal > 0)
						}
					}
				}
			}
		}
	}
}

// c07RawMatrixValue reports whether the schema path is a literal value below a matrix row or an
// include / exclude entry (kept by the parser as RawYAMLValue).
func c07RawMatrixValue(np string) bool {
	const m = "jobs.*.strategy.matrix."
	if !strings.HasPrefix(np, m) {
		return false
	}
	rest := strings.TrimPrefix(np, m)
	return strings.HasPrefix(rest, "*[]") || strings.HasPrefix(rest, "include[].") || strings.HasPrefix(rest, "exclude[].")
}

// c07Templates: «text» marks the offending scalar (rendered plain, single- and double-quoted);
// its start is the expected position of the one diagnostic matching the regexp.
var c07Templates = []struct{ name, tmpl, msg string }{
	{"step-id", "on: push\njobs:\n  a:\n    runs-on: ubuntu-latest\n    steps:\n      - id: «a b»\n        run: echo\n", `^invalid step ID "a b"`},
	{"job-id", "on: push\njobs:\n  «1ab»:\n    runs-on: ubuntu-latest\n    steps:\n      - run: echo\n", `^invalid job ID "1ab"`},
	{"env-var-name", "on: push\njobs:\n  a:\n    runs-on: ubuntu-latest\n    env:\n      OK: 1\n      «a b»: 1\n    steps:\n      - run: echo\n", `^environment variable name "a b" is invalid`},
	{"permission-scope", "on: push\npermissions:\n  contents: read\n  «nosuchscope»: read\njobs:\n  a:\n    runs-on: ubuntu-latest\n    steps:\n      - run: echo\n", `^unknown permission scope "nosuchscope"`},
	{"runner-label", "on: push\njobs:\n  a:\n    runs-on: «nosuchlabel»\n    steps:\n      - run: echo\n", `^label "nosuchlabel" is unknown`},
	{"runner-label-flow-second", "on: push\njobs:\n  a:\n    runs-on: [ubuntu-latest, «nosuchlabel»]\n    steps:\n      - run: echo\n", `^label "nosuchlabel" is unknown`},
	{"runner-label-block-second", "on: push\njobs:\n  a:\n    runs-on:\n      - ubuntu-latest\n      - «nosuchlabel»\n    steps:\n      - run: echo\n", `^label "nosuchlabel" is unknown`},
	{"needs-duplicate", "on: push\njobs:\n  a:\n    runs-on: ubuntu-latest\n    steps:\n      - run: echo\n  b:\n    needs: [a, «A»]\n    runs-on: ubuntu-latest\n    steps:\n      - run: echo\n", `^job ID "A" duplicates in "needs" section`},
	{"event-name-scalar", "on: «nosuchevent»\njobs:\n  a:\n    runs-on: ubuntu-latest\n    steps:\n      - run: echo\n", `^unknown Webhook event "nosuchevent"`},
	{"event-name-flow-second", "on: [push, «nosuchevent»]\njobs:\n  a:\n    runs-on: ubuntu-latest\n    steps:\n      - run: echo\n", `^unknown Webhook event "nosuchevent"`},
	{"event-name-key", "on:\n  push:\n  «nosuchevent»:\njobs:\n  a:\n    runs-on: ubuntu-latest\n    steps:\n      - run: echo\n", `^unknown Webhook event "nosuchevent"`},
	{"webhook-type", "on:\n  issues:\n    types: [opened, «bogus»]\njobs:\n  a:\n    runs-on: ubuntu-latest\n    steps:\n      - run: echo\n", `^invalid activity type "bogus"`},
	{"cron", "on:\n  schedule:\n    - cron: «0 0 * *»\njobs:\n  a:\n    runs-on: ubuntu-latest\n    steps:\n      - run: echo\n", `^invalid CRON format "0 0 \* \*"`},
	{"matrix-duplicate", "on: push\njobs:\n  a:\n    runs-on: ubuntu-latest\n    strategy:\n      matrix:\n        k: [x, y, «x»]\n    steps:\n      - run: echo\n", `^duplicate value "x" is found in matrix "k"`},
	{"exclude-unknown-key", "on: push\njobs:\n  a:\n    runs-on: ubuntu-latest\n    strategy:\n      matrix:\n        k: [x]\n        exclude:\n          - «nokey»: 1\n    steps:\n      - run: echo\n", `^"nokey" in "exclude" section does not exist in matrix`},
	{"exclude-no-match", "on: push\njobs:\n  a:\n    runs-on: ubuntu-latest\n    strategy:\n      matrix:\n        k: [x]\n        exclude:\n          - k: «zz»\n    steps:\n      - run: echo\n", `^value "zz" in "exclude" does not match in matrix "k"`},
	{"action-unknown-input", "on: push\njobs:\n  a:\n    runs-on: ubuntu-latest\n    steps:\n      - uses: actions/checkout@v4\n        with:\n          ref: x\n          «nosuchinput»: 1\n", `^input "nosuchinput" is not defined in action "actions/checkout@v4"`},
	{"action-ref-format", "on: push\njobs:\n  a:\n    runs-on: ubuntu-latest\n    steps:\n      - uses: «checkout»\n", `^specifying action "checkout" in invalid format`},
	{"timeout-zero", "on: push\njobs:\n  a:\n    runs-on: ubuntu-latest\n    timeout-minutes: «0»\n    steps:\n      - run: echo\n", `^value at "timeout-minutes" must be greater than zero`},
	{"credentials-password", "on: push\njobs:\n  a:\n    runs-on: ubuntu-latest\n    container:\n      image: img\n      credentials:\n        username: u\n        password: «hardcoded»\n    steps:\n      - run: echo\n", `^"password" section in "container" section should be specified via secrets`},
	{"if-always-true", "on: push\njobs:\n  a:\n    runs-on: ubuntu-latest\n    steps:\n      - run: echo\n        if: «${{ false }} && true»\n", `^if: condition "\$\{\{ false \}\} && true" is always evaluated to true`},
	{"workflow-call-local-ref", "on: push\njobs:\n  a:\n    uses: «./.github/workflows/x.yml@main»\n", `^reusable workflow call "\./\.github/workflows/x\.yml@main" at "uses" is not following the format`},
	{"dispatch-default-not-in-options", "on:\n  workflow_dispatch:\n    inputs:\n      x:\n        type: choice\n        options: [p, q]\n        default: «zz»\njobs:\n  a:\n    runs-on: ubuntu-latest\n    steps:\n      - run: echo\n", `^default value "zz" of "x" input is not included in its options`},
	{"call-input-type", "on:\n  workflow_call:\n    inputs:\n      x:\n        type: «nosuchtype»\njobs:\n  a:\n    runs-on: ubuntu-latest\n    steps:\n      - run: echo\n", `^invalid value "nosuchtype" for input type of workflow_call event`},
	{"unexpected-key-container", "on: push\njobs:\n  a:\n    runs-on: ubuntu-latest\n    container:\n      image: img\n      «zzforeign»: 1\n    steps:\n      - run: echo\n", `^unexpected key "zzforeign" for "container" section`},
	{"duplicate-key-env", "on: push\nenv:\n  AB: 1\n  «ab»: 2\njobs:\n  a:\n    runs-on: ubuntu-latest\n    steps:\n      - run: echo\n", `^key "ab" is duplicate`},
}

func c07RuleTemplates(r *vReport, idx *int64) {
	for _, tp := range c07Templates {
		i, j := strings.Index(tp.tmpl, "«"), strings.Index(tp.tmpl, "»")
		before, inner, after := tp.tmpl[:i], tp.tmpl[i+len("«"):j], tp.tmpl[j+len("»"):]
		lastLine := before[strings.LastIndex(before, "\n")+1:]
		for quote := 0; quote <= 2; quote++ {
			if quote == 0 && (strings.Contains(inner, "${{") || strings.Contains(inner, "* ") || strings.HasPrefix(inner, "./")) && strings.Contains(inner, "{") {
				continue // not writable as a plain scalar
			}
			if quote == 0 && strings.Contains(inner, "* ") {
				continue
			}
			if quote != 0 && strings.Trim(inner, "0123456789") == "" {
				continue // a quoted number is a string
			}
			if quote == 0 && strings.ContainsAny(lastLine, "[{") && strings.ContainsAny(inner, "{}[],") {
				continue
			}
			for above := 0; above <= 2; above++ {
				*idx++
				if !r.Mine(*idx) {
					continue
				}
				scalar, _ := c07Quote(quote, inner)
				head := strings.Repeat("# c\n", above) + before
				line := strings.Count(head, "\n") + 1
				col := len(head) - strings.LastIndex(head, "\n")
				src := head + scalar + after
				cs := &c07Case{Desc: fmt.Sprintf("template %s quote=%s above=%d", tp.name, c07QuoteNames[quote], above), Src: src, Line: line, Col: col, Msg: tp.msg, NLines: strings.Count(src, "\n")}
				r.Begin(func() string { return cs.Desc })
				c07Run(r, cs, "template/"+tp.name+"/"+c07QuoteNames[quote])
			}
		}
	}
}
