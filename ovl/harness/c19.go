//go:build go1.23

package actionlint

// C19 — matrix duplicate and exclude checks are exact and order-insensitive.
//
// Space: a small recursive value algebra V (scalars, sequences, mappings nested to depth 2, each
// mapping in every written member order); duplicate check: all rows of 2 and 3 values over V;
// exclude check: rows of <= 2 values x <= 1 include entry (same key / include-only key) x an
// exclude entry with key in {row key, include-only key, undefined} and value in V'; rows, include
// and exclude entries given by expressions; all map iteration orders (Engine A, deviation 1) on a
// sub-slice. Oracle: structural equality / containment by recursion on V.

import (
	"fmt"
	"regexp"
	"sort"
	"strings"
	"testing"

	"github.com/rhysd/actionlint/verifshim/vsched"
)

// c19Val is a value of the algebra together with its written form.
type c19Val struct {
	kind  byte // 's' scalar, 'l' list, 'm' mapping, 'e' scalar holding a ${{ }} expression
	s     string
	elems []*c19Val
	keys  []string // written order
	vals  map[string]*c19Val
}

func c19S(s string) *c19Val { return &c19Val{kind: 's', s: s} }

// c19ESpellings: a scalar is "built from an expression" when it holds a placeholder anywhere
var c19ESpellings = []string{"'${{ fromJSON(vars.E) }}'", "'v${{ vars.E }}'", "'${{ vars.E }}-x'", "'${{ vars.A }}${{ vars.B }}'", "'1${{ vars.E }}'"}

func c19E() *c19Val              { return c19ESp(0) }
func c19ESp(i int) *c19Val       { return &c19Val{kind: 'e', s: c19ESpellings[i]} }
func c19L(es ...*c19Val) *c19Val { return &c19Val{kind: 'l', elems: es} }
func c19M(kv ...any) *c19Val {
	m := &c19Val{kind: 'm', vals: map[string]*c19Val{}}
	for i := 0; i+1 < len(kv); i += 2 {
		k := kv[i].(string)
		m.keys = append(m.keys, k)
		m.vals[k] = kv[i+1].(*c19Val)
	}
	return m
}

func (v *c19Val) yaml() string {
	switch v.kind {
	case 's', 'e':
		return v.s
	case 'l':
		parts := make([]string, len(v.elems))
		for i, e := range v.elems {
			parts[i] = e.yaml()
		}
		return "[" + strings.Join(parts, ", ") + "]"
	}
	parts := make([]string, len(v.keys))
	for i, k := range v.keys {
		parts[i] = k + ": " + v.vals[k].yaml()
	}
	return "{" + strings.Join(parts, ", ") + "}"
}

// canon is the structural identity (member order irrelevant).
func (v *c19Val) canon() string {
	switch v.kind {
	case 's', 'e':
		return string(v.kind) + ":" + v.s
	case 'l':
		parts := make([]string, len(v.elems))
		for i, e := range v.elems {
			parts[i] = e.canon()
		}
		return "l[" + strings.Join(parts, ",") + "]"
	}
	ks := append([]string{}, v.keys...)
	sort.Strings(ks)
	parts := make([]string, len(ks))
	for i, k := range ks {
		parts[i] = k + "=" + v.vals[k].canon()
	}
	return "m{" + strings.Join(parts, ",") + "}"
}

// c19Contains: candidate c contains filter x (mappings by subset, sequences element-wise, scalars by equality).
func c19Contains(c, x *c19Val) bool {
	if c.kind == 'e' || x.kind == 'e' {
		return true // a value built from an expression may be anything: never the reason for a report
	}
	if c.kind != x.kind {
		return false
	}
	switch c.kind {
	case 's':
		return c.s == x.s
	case 'l':
		if len(c.elems) != len(x.elems) {
			return false
		}
		for i := range c.elems {
			if !c19Contains(c.elems[i], x.elems[i]) {
				return false
			}
		}
		return true
	}
	for k, xv := range x.vals {
		cv, ok := c.vals[k]
		if !ok || !c19Contains(cv, xv) {
			return false
		}
	}
	return true
}

func c19Algebra(full bool) []*c19Val {
	one, two := c19S("1"), c19S("2")
	vs := []*c19Val{one, two, c19L(one), c19L(one, two), c19L(two, one),
		c19M("a", one), c19M("a", two), c19M("a", one, "b", two), c19M("b", two, "a", one),
		c19M("a", c19M("a", one)), c19M("a", c19M("a", one, "b", two)), c19M("a", c19M("b", two)),
		// scalars that differ in letter case only are different values
		c19S("ab"), c19S("Ab"), c19M("a", c19S("AB"))}
	if !full {
		return vs
	}
	vs = append(vs, c19L(), c19L(two), c19L(one, one), c19L(two, two), c19L(c19L(one)), c19L(c19M("a", one)),
		c19M("b", one), c19M("b", two), c19M("a", one, "b", one), c19M("b", one, "a", one), c19M("a", two, "b", two), c19M("a", two, "b", one),
		c19M("a", c19M("b", two, "a", one)), c19M("b", c19M("a", one)), c19M("a", c19M("a", one), "b", two), c19M("b", two, "a", c19M("a", one)), c19M("a", c19L(one)), c19M("a", c19L(one, two)))
	return vs
}

var c19DupRe = regexp.MustCompile(`^duplicate value .* is found in matrix "[kK]"`)
var c19NoKeyRe = regexp.MustCompile(`^"([^"]+)" in "exclude" section does not exist in matrix`)
var c19NoMatchRe = regexp.MustCompile(`^value .* in "exclude" does not match in matrix "([^"]+)" combinations`)

const c19Head = "on: push\njobs:\n  j:\n    runs-on: ubuntu-latest\n    strategy:\n      matrix:\n"
const c19Tail = "    steps:\n      - run: echo\n"

// c19DupCase lints a row and compares the duplicate reports with the reference.
func c19DupCase(r *vReport, row []*c19Val, lint func(string) vLintResult) {
	var b strings.Builder
	b.WriteString(c19Head)
	line := "        k: ["
	cols := make([]int, len(row))
	for i, v := range row {
		if i > 0 {
			line += ", "
		}
		cols[i] = len(line) + 1
		line += v.yaml()
	}
	line += "]\n"
	b.WriteString(line + c19Tail)
	src := b.String()
	res := lint(src)
	r.Evaluations++
	r.Transitions++
	r.Validated++
	want := map[int]bool{}
	var wantCols []int
	for i := range row {
		for j := 0; j < i; j++ {
			if row[i].canon() == row[j].canon() && !want[cols[i]] {
				want[cols[i]] = true
				wantCols = append(wantCols, cols[i])
			}
		}
	}
	replay := map[string]any{"src": src, "kind": "dup", "want_cols": wantCols}
	if res.Panic != "" || res.Err != nil {
		r.Violation("failure", fmt.Sprintf("row %s: panic=%q err=%v", line, vTrunc(res.Panic, 200), res.Err), replay)
		return
	}
	got := map[int]bool{}
	for _, d := range vDiags(res.Errs) {
		if d.Kind == "matrix" && c19DupRe.MatchString(d.Msg) && d.Line == 7 {
			got[d.Col] = true
		} else if d.Kind == "matrix" {
			r.Violation("unexpected-matrix-diagnostic", fmt.Sprintf("row %s: %v", strings.TrimSpace(line), d), replay)
		}
	}
	for c := range want {
		if !got[c] {
			r.Violation("duplicate-missed:"+c19Shape(row), fmt.Sprintf("row %s: value at column %d equals an earlier value but is not reported", strings.TrimSpace(line), c), replay)
		}
	}
	for c := range got {
		if !want[c] {
			r.Violation("false-duplicate:"+c19Shape(row), fmt.Sprintf("row %s: value at column %d is reported as duplicate but no earlier value is structurally equal", strings.TrimSpace(line), c), replay)
		}
	}
	r.Class(fmt.Sprintf("dup len=%d duplicates=%d", len(row), len(want)), len(want) > 0)
}

func c19Shape(row []*c19Val) string {
	kinds := make([]string, len(row))
	for i, v := range row {
		switch v.kind {
		case 's':
			kinds[i] = "scalar"
		case 'l':
			kinds[i] = "seq"
		default:
			kinds[i] = fmt.Sprintf("map%d", len(v.keys))
		}
	}
	return strings.Join(kinds, ",")
}

type c19Exclude struct {
	Row     []*c19Val
	RowExpr bool
	IncKey  string // "" none
	IncVal  *c19Val
	Inc2Key string // second include entry ("" none)
	Inc2Val *c19Val
	IncExpr int // 0 literal, 1 the entry is an expression, 2 the whole include is an expression
	ExcKey  string
	ExcVal  *c19Val
	ExcExpr bool
	// KeyCase: bit 0 = keys of rows and include entries written with a capital first letter,
	// bit 1 = the key of the exclude entry written in upper case (keys are case-insensitive)
	KeyCase int `json:"key_case,omitempty"`
	// Pre: 0 = the job stands alone, n = job n of c19PreJobs is written before it (the verdicts of
	// one job do not depend on the matrices of other jobs)
	Pre int `json:"pre,omitempty"`
	// ExcMixed: 0 = the exclude list holds the one literal entry; 1 / 2 = an entry given by an
	// expression stands before / after it (that entry is never reported, the literal one is judged as usual)
	ExcMixed int `json:"exc_mixed,omitempty"`
}

// c19PreJobs: jobs written before the job under test. Each is clean on its own and uses the key
// names of the cases (k, inc) in a way that could leave something behind: a row given by an
// expression next to a literal exclude, the same with the key in upper case, an include-only key
// given by an expression, literal rows with other values and a matching exclude.
var c19PreJobs = []string{
	"  pre:\n    runs-on: ubuntu-latest\n    strategy:\n      matrix:\n        k: ${{ fromJSON(vars.ROW) }}\n        other: [1, 2]\n        exclude:\n          - {other: 1}\n    steps:\n      - run: echo\n",
	"  pre:\n    runs-on: ubuntu-latest\n    strategy:\n      matrix:\n        K: ${{ fromJSON(vars.ROW) }}\n        INC: ${{ fromJSON(vars.ROW) }}\n        other: [1, 2]\n        exclude:\n          - {other: 2}\n    steps:\n      - run: echo\n",
	"  pre:\n    runs-on: ubuntu-latest\n    strategy:\n      matrix:\n        other: [1, 2]\n        include:\n          - {other: 1, k: '${{ vars.E }}', inc: '${{ vars.E }}'}\n        exclude:\n          - {other: 1}\n    steps:\n      - run: echo\n",
	"  pre:\n    runs-on: ubuntu-latest\n    strategy:\n      matrix:\n        k: [zz1, {zz: [2]}]\n        inc: [zz3]\n        exclude:\n          - {k: zz1, inc: zz3}\n    steps:\n      - run: echo\n",
}

func (c *c19Exclude) defKey(k string) string {
	if c.KeyCase&1 != 0 && k != "" {
		return strings.ToUpper(k[:1]) + k[1:]
	}
	return k
}

func (c *c19Exclude) excKey(k string) string {
	if c.KeyCase&2 != 0 {
		return strings.ToUpper(k)
	}
	return k
}

func (c *c19Exclude) render() (src string, desc string) {
	var b strings.Builder
	head := c19Head
	if c.Pre > 0 {
		head = strings.Replace(c19Head, "jobs:\n", "jobs:\n"+c19PreJobs[c.Pre-1], 1)
	}
	b.WriteString(head)
	if c.RowExpr {
		b.WriteString("        " + c.defKey("k") + ": ${{ fromJSON(vars.ROW) }}\n")
	} else if c.Row != nil {
		parts := make([]string, len(c.Row))
		for i, v := range c.Row {
			parts[i] = v.yaml()
		}
		b.WriteString("        " + c.defKey("k") + ": [" + strings.Join(parts, ", ") + "]\n")
	}
	switch {
	case c.IncExpr == 2:
		b.WriteString("        include: ${{ fromJSON(vars.INC) }}\n")
	case c.IncExpr == 1:
		b.WriteString("        include:\n          - ${{ fromJSON(vars.INC) }}\n")
	case c.IncKey != "":
		b.WriteString("        include:\n          - {" + c.defKey(c.IncKey) + ": " + c.IncVal.yaml() + "}\n")
		if c.Inc2Key != "" {
			b.WriteString("          - {" + c.defKey(c.Inc2Key) + ": " + c.Inc2Val.yaml() + "}\n")
		}
	}
	if c.ExcExpr {
		b.WriteString("        exclude:\n          - ${{ fromJSON(vars.EXC) }}\n")
	} else {
		b.WriteString("        exclude:\n")
		if c.ExcMixed == 1 {
			b.WriteString("          - ${{ fromJSON(vars.EXC) }}\n")
		}
		b.WriteString("          - {" + c.excKey(c.ExcKey) + ": " + c.ExcVal.yaml() + "}\n")
		if c.ExcMixed == 2 {
			b.WriteString("          - ${{ fromJSON(vars.EXC) }}\n")
		}
	}
	b.WriteString(c19Tail)
	src = b.String()
	desc = strings.ReplaceAll(strings.TrimPrefix(src, head), "\n", " / ")
	if c.Pre > 0 {
		desc = fmt.Sprintf("after pre-job %d: %s", c.Pre, desc)
	}
	return
}

// verdict: "" (nothing), "nokey", "nomatch"
func (c *c19Exclude) reference() string {
	if c.Row == nil && !c.RowExpr && c.IncKey == "" && c.IncExpr == 0 {
		return "novariation" // matrix-level diagnostic: an exclude section without any row or include
	}
	if c.ExcExpr || c.IncExpr != 0 {
		return ""
	}
	var cands []*c19Val
	defined := false
	if c.ExcKey == "k" && (c.RowExpr || c.Row != nil) {
		if c.RowExpr {
			return "" // row built from an expression: never reported
		}
		defined = true
		cands = append(cands, c.Row...)
	}
	if c.IncKey == c.ExcKey {
		defined = true
		cands = append(cands, c.IncVal)
	}
	if c.Inc2Key != "" && c.Inc2Key == c.ExcKey {
		defined = true
		cands = append(cands, c.Inc2Val)
	}
	if !defined {
		return "nokey"
	}
	for _, cand := range cands {
		if c19Contains(cand, c.ExcVal) {
			return ""
		}
	}
	return "nomatch"
}

func c19ExcludeCase(r *vReport, c *c19Exclude, lint func(string) vLintResult) {
	if c.KeyCase == 0 && c.Pre == 0 && c.ExcMixed == 0 && vReplayInput() == nil {
		// the same case with the keys in other letter cases (all four combinations)
		for kc := 1; kc <= 3; kc++ {
			c2 := *c
			c2.KeyCase = kc
			c19ExcludeCase(r, &c2, lint)
		}
		// ... and after each of the jobs of c19PreJobs
		for pre := 1; pre <= len(c19PreJobs); pre++ {
			c2 := *c
			c2.Pre = pre
			c19ExcludeCase(r, &c2, lint)
		}
		// ... and with an expression entry before / after the literal exclude entry
		if !c.ExcExpr && c.ExcMixed == 0 {
			for mx := 1; mx <= 2; mx++ {
				c2 := *c
				c2.ExcMixed = mx
				c19ExcludeCase(r, &c2, lint)
			}
		}
	}
	src, desc := c.render()
	res := lint(src)
	r.Evaluations++
	r.Transitions++
	r.Validated++
	replay := map[string]any{"src": src, "kind": "exclude", "want": c.reference()}
	if res.Panic != "" || res.Err != nil {
		r.Violation("failure", fmt.Sprintf("%s: panic=%q err=%v", desc, vTrunc(res.Panic, 200), res.Err), replay)
		return
	}
	got := ""
	for _, d := range vDiags(res.Errs) {
		if d.Kind == "syntax-check" && strings.Contains(d.Msg, "could not parse as YAML") {
			// the generator, not actionlint, is wrong: nothing after the parser ran
			r.HarnessError("generated workflow is not valid YAML: %s\n%s", d.Msg, src)
			return
		}
		if d.Kind != "matrix" {
			continue
		}
		switch {
		case c19NoKeyRe.MatchString(d.Msg):
			got += "nokey"
		case c19NoMatchRe.MatchString(d.Msg):
			got += "nomatch"
		case strings.Contains(d.Msg, "no matrix variation exists"):
			got += "novariation"
		case c19DupRe.MatchString(d.Msg):
			// duplicates inside the row are the business of the duplicate check
		default:
			got += "other:" + d.Msg
		}
	}
	want := c.reference()
	if got != want {
		kind := "exclude-false-report"
		if want != "" && got == "" {
			kind = "exclude-missed"
		} else if want != "" {
			kind = "exclude-wrong-verdict"
		}
		feat := ""
		if c.Pre > 0 {
			feat += "+after-another-job"
		}
		if c.ExcMixed > 0 {
			feat += "+next-to-an-expression-entry"
		}
		if c.RowExpr {
			feat += "+row-expr"
		}
		if c.IncExpr != 0 {
			feat += "+include-expr"
		}
		if c.ExcExpr {
			feat += "+exclude-expr"
		}
		r.Violation(kind+":"+want+"->"+vTrunc(got, 20)+feat, fmt.Sprintf("%s: reference verdict %q, actionlint reports %q", desc, want, got), replay)
	}
	r.Class("exclude verdict="+want, want != "")
}

func TestVerifC19(t *testing.T) {
	r := vNewReport("C19")
	defer r.Write(t)
	r.Extra["rule"] = "value algebra V (scalars, sequences, mappings to depth 2, both written member orders): duplicate check on all rows of 2 and 3 values over V; exclude check on rows of <=2 values over V' x {no include, include same key, include-only key; two include entries over 8 values each} x exclude {row key, include-only key, undefined key} x value in V', plus rows / include / include entries / exclude entries given by expressions, and single members replaced by expressions at every depth (8 shapes) in rows, include and exclude values; every exclude case with keys in 4 letter-case combinations after each of 4 other jobs, and with an expression entry before / after the literal exclude entry (other jobs' matrices use the same key names: expression rows, expression include values, other literal values); a sub-slice under every map iteration order (deviation 1). oracle = structural equality / containment by recursion. class = (check, reference verdict); non-trivial = something must be reported"
	r.Extra["assumptions"] = []string{"'built from expressions' covers a whole row / include / entry and, for the exclude check, any single member at any depth (it may be anything); duplicate reports among expression members of one row are not claimed"}
	lint := func(src string) vLintResult { return vLint(src, nil) }
	if raw := vReplayInput(); raw != nil {
		var rp struct {
			Src, Kind, Want string
			WantCols        []int `json:"want_cols"`
		}
		jsonUnmarshal(raw, &rp)
		for k := 0; k < 2; k++ {
			res := lint(rp.Src)
			fmt.Printf("replay %d:\n%s\ndiagnostics: %v (reference: verdict %q, duplicate columns %v)\n", k, rp.Src, vDiagStrings(res.Errs), rp.Want, rp.WantCols)
			got := ""
			gotCols := map[int]bool{}
			for _, d := range vDiags(res.Errs) {
				if d.Kind != "matrix" {
					continue
				}
				switch {
				case c19NoKeyRe.MatchString(d.Msg):
					got += "nokey"
				case c19NoMatchRe.MatchString(d.Msg):
					got += "nomatch"
				case strings.Contains(d.Msg, "no matrix variation exists"):
					got += "novariation"
				case c19DupRe.MatchString(d.Msg):
					gotCols[d.Col] = true
				}
			}
			if rp.Kind == "dup" {
				w := map[int]bool{}
				for _, c := range rp.WantCols {
					w[c] = true
				}
				if fmt.Sprint(w) != fmt.Sprint(gotCols) {
					r.Violation("duplicate-verdict", fmt.Sprintf("duplicates reported at columns %v, reference %v", gotCols, w), rp)
				}
			} else if got != rp.Want {
				r.Violation("exclude-verdict", fmt.Sprintf("reference verdict %q, actionlint reports %q", rp.Want, got), rp)
			}
		}
		r.Class("replay", true)
		return
	}
	V := c19Algebra(true)
	Vs := c19Algebra(false)
	r.Bounds["values_duplicate_check"] = len(V)
	r.Bounds["values_exclude_check"] = len(Vs)
	var idx int64
	// duplicates: pairs and triples
	for _, a := range V {
		for _, b := range V {
			idx++
			if r.Mine(idx) {
				c19DupCase(r, []*c19Val{a, b}, lint)
				if idx%301 == 0 {
					r.Sample(map[string]any{"row": []string{a.yaml(), b.yaml()}, "equal": a.canon() == b.canon()})
				}
			}
			for _, c := range V {
				idx++
				if !r.Mine(idx) {
					continue
				}
				if idx%4096 == 0 && r.Expired() {
					return
				}
				c19DupCase(r, []*c19Val{a, b, c}, lint)
			}
		}
	}
	// exclude
	var rows [][]*c19Val
	rows = append(rows, nil)
	for _, a := range Vs {
		rows = append(rows, []*c19Val{a})
		for _, b := range Vs {
			rows = append(rows, []*c19Val{a, b})
		}
	}
	type inc struct {
		key string
		val *c19Val
	}
	incs := []inc{{"", nil}}
	for _, v := range Vs {
		incs = append(incs, inc{"k", v}, inc{"inc", v})
	}
	for _, row := range rows {
		for _, in := range incs {
			for _, ek := range []string{"k", "inc", "zz"} {
				for _, ev := range Vs {
					idx++
					if !r.Mine(idx) {
						continue
					}
					if idx%4096 == 0 && r.Expired() {
						return
					}
					c := &c19Exclude{Row: row, IncKey: in.key, IncVal: in.val, ExcKey: ek, ExcVal: ev}
					r.Begin(func() string { _, d := c.render(); return d })
					c19ExcludeCase(r, c, lint)
					if idx%7001 == 0 {
						src, _ := c.render()
						r.Sample(map[string]any{"matrix": strings.TrimPrefix(src, c19Head), "reference_verdict": c.reference()})
					}
				}
			}
		}
	}
	// two include entries (same or different keys, row present or not): every include value is a candidate
	{
		small := Vs
		if len(small) > 8 {
			small = small[:8]
		}
		for _, row := range [][]*c19Val{nil, {small[0]}, {small[5]}} {
			for _, k1 := range []string{"k", "inc"} {
				for _, v1 := range small {
					for _, k2 := range []string{"k", "inc", "other"} {
						for _, v2 := range small {
							for _, ek := range []string{"k", "inc"} {
								for _, ev := range small {
									idx++
									if !r.Mine(idx) {
										continue
									}
									if idx%4096 == 0 && r.Expired() {
										return
									}
									c := &c19Exclude{Row: row, IncKey: k1, IncVal: v1, Inc2Key: k2, Inc2Val: v2, ExcKey: ek, ExcVal: ev}
									c19ExcludeCase(r, c, lint)
								}
							}
						}
					}
				}
			}
		}
	}
	// single members replaced by expressions (in rows, include values and exclude values, at
	// every nesting depth of the algebra): such a member may be anything
	for sp := range c19ESpellings {
		one, two, e := c19S("1"), c19S("2"), c19ESp(sp)
		ve := []*c19Val{e, c19L(e), c19L(one, e), c19L(e, two), c19M("a", e), c19M("a", one, "b", e), c19M("a", c19M("a", e)), c19M("a", c19L(e))}
		plain := []*c19Val{one, c19L(one, two), c19M("a", one), c19M("a", one, "b", two)}
		var erows [][]*c19Val
		for _, a := range ve {
			erows = append(erows, []*c19Val{a})
			for _, b := range plain {
				erows = append(erows, []*c19Val{a, b}, []*c19Val{b, a})
			}
		}
		eincs := []inc{{"", nil}}
		for _, v := range ve[:5] {
			eincs = append(eincs, inc{"k", v}, inc{"inc", v})
		}
		filters := append(append([]*c19Val{}, Vs...), ve...)
		for _, row := range erows {
			for _, in := range eincs {
				for _, ek := range []string{"k", "inc"} {
					for _, ev := range filters {
						idx++
						if !r.Mine(idx) {
							continue
						}
						if idx%4096 == 0 && r.Expired() {
							return
						}
						c := &c19Exclude{Row: row, IncKey: in.key, IncVal: in.val, ExcKey: ek, ExcVal: ev}
						r.Begin(func() string { _, d := c.render(); return d })
						c19ExcludeCase(r, c, lint)
					}
				}
			}
		}
		// plain rows against filters holding an expression member
		for _, row := range rows[:40] {
			for _, ev := range ve {
				idx++
				if !r.Mine(idx) {
					continue
				}
				c := &c19Exclude{Row: row, ExcKey: "k", ExcVal: ev}
				c19ExcludeCase(r, c, lint)
			}
		}
	}
	// expression-built parts
	for _, row := range rows[:14] {
		for _, ek := range []string{"k", "inc", "zz"} {
			for _, ev := range Vs {
				for variant := 0; variant < 4; variant++ {
					idx++
					if !r.Mine(idx) {
						continue
					}
					c := &c19Exclude{Row: row, ExcKey: ek, ExcVal: ev}
					switch variant {
					case 0:
						c.RowExpr = true
						// also with a literal include entry for the same / another key next to the
						// expression row: the row stays "built from an expression"
						for _, ik := range []string{"k", "inc"} {
							for _, iv := range Vs[:4] {
								c2 := &c19Exclude{Row: row, RowExpr: true, IncKey: ik, IncVal: iv, ExcKey: ek, ExcVal: ev}
								c19ExcludeCase(r, c2, lint)
							}
						}
					case 1:
						c.IncExpr = 1
					case 2:
						c.IncExpr = 2
					case 3:
						c.ExcExpr = true
					}
					c19ExcludeCase(r, c, lint)
				}
			}
		}
	}
	// all map iteration orders (deviation 1) on pairs of mappings and a slice of exclude cases
	var maps []*c19Val
	for _, v := range V {
		if v.kind == 'm' {
			maps = append(maps, v)
		}
	}
	for _, a := range maps {
		for _, b := range maps {
			idx++
			if !r.Mine(idx) {
				continue
			}
			var ident string
			first := true
			sub := &vReport{Classes: map[string]int64{}, Nontrivial: map[string]bool{}, vkeys: map[string]*vViolation{}, Extra: map[string]any{}}
			res := vExploreMapC19(r, fmt.Sprintf("row [%s, %s]", a.yaml(), b.yaml()), func(x *vsched.Exec) string {
				rr := &vReport{Classes: map[string]int64{}, Nontrivial: map[string]bool{}, vkeys: map[string]*vViolation{}, Extra: map[string]any{}}
				c19DupCase(rr, []*c19Val{a, b}, lint)
				o := ""
				for _, v := range rr.Violations {
					o += v.Key + "\x00" + v.Msg + "\n"
				}
				if first {
					ident, first = o, false
				}
				return o
			})
			_ = sub
			_ = ident
			_ = res
		}
	}
}

// vExploreMapC19 runs body under every single map-order deviation; a non-empty observation is a
// violation "key\x00message".
func vExploreMapC19(r *vReport, name string, body func(x *vsched.Exec) string) *vsched.Result {
	cfg := vsched.Config{MaxDev: 1}
	cfg.Check = func(x *vsched.Exec, obs string) string {
		if obs == "" {
			return ""
		}
		return strings.SplitN(obs, "\n", 2)[0]
	}
	res := vsched.Explore(cfg, body)
	if res.HarnessErr != "" {
		r.HarnessError("%s: %s", name, vTrunc(res.HarnessErr, 800))
	}
	r.Evaluations += res.Execs
	r.Transitions += res.Execs
	r.Validated += res.Execs
	for _, v := range res.Violations {
		parts := strings.SplitN(v.Msg, "\x00", 2)
		if len(parts) == 2 {
			r.Violation("map-order:"+parts[0], parts[1]+fmt.Sprintf(" | map deviations %v", v.Choices), map[string]any{"src": name, "kind": "dup-map-order"})
		} else {
			r.Violation("failure", vTrunc(v.Msg, 600), map[string]any{"src": name, "kind": "dup-map-order"})
		}
	}
	r.Class("map-order slice", true)
	return res
}
