//go:build go1.23

package actionlint

// C12 — context and special-function availability follows GitHub's table exactly.
//
// Space (finite, enumerated completely): every non-exempt scalar value position of the maximal
// seeds (each governed by one key of the availability table, or by none) x 12 contexts + 5 special
// functions x 12 embeddings (one of them inside the arguments of hashFiles, four as operands of comparisons / negation / index). Oracle: vAvailability (appendix E, transcribed from GitHub's table).

import (
	"fmt"
	"os"
	"regexp"
	"sort"
	"strings"
	"testing"
)

var c12CtxRe = regexp.MustCompile(`^context "([^"]+)" is not allowed here`)
var c12FnRe = regexp.MustCompile(`^calling function "([^"]+)" is not allowed here`)
var c12UndefRe = regexp.MustCompile(`^undefined variable "([^"]+)"`)

func c12Embeddings(name string, isFunc bool) []string {
	if isFunc {
		call := name + "()"
		up := strings.ToUpper(name) + "()"
		if strings.EqualFold(name, "hashFiles") {
			call, up = name+"('x')", strings.ToUpper(name)+"('x')"
		}
		return []string{"${{ " + call + " }}", "${{ " + up + " }}", "${{ true && " + call + " }}", "${{ toJSON(" + call + ") }}",
			// after another placeholder / another operand that is fine everywhere
			"${{ 1 }} x ${{ " + call + " }}", "${{ 'a' == 'b' || " + call + " }}", "${{ " + call + " && 'a' || 'b' }}",
			// inside the arguments of a special function (which is itself unavailable at most keys)
			"${{ hashFiles(format('{0}', " + call + ")) }}",
			// operand of a comparison whose other operand is of unknown / of known type, of a negation, an index
			"${{ fromJSON(format('{0}', 1)) == " + call + " }}", "${{ " + call + " != fromJSON(format('{0}', 1)) }}", "${{ 1 < !" + call + " }}", "${{ fromJSON(format('{0}', 1))[" + call + "] }}"}
	}
	return []string{"${{ " + name + " }}", "${{ " + strings.ToUpper(name) + ".zz }}", "${{ 'a' && " + name + ".yy }}", "${{ toJSON(" + name + ") }}",
		"${{ 1 }} x ${{ " + name + ".q }}", "${{ format('{0}{1}', 1, " + name + ") }}", "${{ " + name + ".c && 'a' || 'b' }}",
		"${{ hashFiles('a', " + name + ".h) }}",
		"${{ fromJSON(format('{0}', 1)) == " + name + ".e }}", "${{ " + name + ".e != fromJSON(format('{0}', 1)) }}", "${{ 1 < !" + name + ".e }}", "${{ fromJSON(format('{0}', 1))[" + name + ".i] }}"}
}

func c12Allowed(avail, name string, isFunc bool) bool {
	row, ok := vAvailability[avail]
	if !ok {
		return false
	}
	list := row[0]
	if isFunc {
		list = row[1]
	}
	for _, x := range list {
		if strings.EqualFold(x, name) {
			return true
		}
	}
	return false
}

// c12ProjectLint: catalogues (by seed name) whose source is linted as a file of a repository with a
// local action and a local reusable workflow (the project seed of C03).
var c12ProjectLint = map[string]func(string) vLintResult{}

func c12Judge(r *vReport, c *vCatalogue, p *vPos, sch vScalarSchema, name string, isFunc bool, emb int, text string) {
	quoted := "'" + strings.ReplaceAll(text, "'", "''") + "'"
	src := c.Replace(p, quoted)
	res := vLintResult{}
	if pl := c12ProjectLint[c.Seed]; pl != nil {
		res = pl(src)
	} else {
		res = vLint(src, nil)
	}
	r.Evaluations++
	r.Transitions++
	r.Validated++
	replay := map[string]any{"project": c12ProjectLint[c.Seed] != nil, "seed": c.Seed, "path": p.Path, "schema_path": p.NPath, "avail_key": sch.Avail, "name": name, "func": isFunc, "embedding": emb, "src": src, "line": p.Line, "lo": p.Col, "hi": p.Col + len(quoted) - 1}
	if res.Panic != "" || res.Err != nil {
		r.Violation("failure", fmt.Sprintf("%s %s: panic=%q err=%v", c.Seed, p.Path, vTrunc(res.Panic, 300), res.Err), replay)
		return
	}
	c12Verdict(r, res.Errs, replay)
	r.Class(fmt.Sprintf("%s|%s|allowed=%v", sch.Avail, strings.ToLower(name), c12Allowed(sch.Avail, name, isFunc)), !c12Allowed(sch.Avail, name, isFunc))
}

func c12Verdict(r *vReport, errs []*Error, rp map[string]any) {
	name, isFunc, avail := rp["name"].(string), rp["func"].(bool), rp["avail_key"].(string)
	line, lo, hi := vInt(rp["line"]), vInt(rp["lo"]), vInt(rp["hi"])
	allowed := c12Allowed(avail, name, isFunc)
	reported := false
	for _, d := range vDiags(errs) {
		if d.Line != line || d.Col < lo || d.Col > hi {
			continue
		}
		if d.Kind == "syntax-check" && c12TwoPlaceholders(rp) {
			// a field that takes exactly one expression (or a section given by one expression)
			// rejects a text with two placeholders as a whole: nothing is evaluated, nothing is claimed
			return
		}
		if isFunc {
			if m := c12FnRe.FindStringSubmatch(d.Msg); m != nil && strings.EqualFold(m[1], name) {
				reported = true
			}
		} else {
			if m := c12CtxRe.FindStringSubmatch(d.Msg); m != nil && strings.EqualFold(m[1], name) {
				reported = true
			}
			// the jobs context only exists in on.workflow_call.outputs.*.value: elsewhere "undefined
			// variable" is accepted as the report (DESIGN section 7)
			if m := c12UndefRe.FindStringSubmatch(d.Msg); m != nil && strings.EqualFold(m[1], name) && strings.EqualFold(name, "jobs") {
				reported = true
			}
		}
	}
	key := avail
	if key == "" {
		key = "(no table key):" + rp["schema_path"].(string)
	}
	what := "context"
	if isFunc {
		what = "function"
	}
	switch {
	case allowed && reported:
		r.Violation("false-positive:"+key+":"+strings.ToLower(name), fmt.Sprintf("%s %q is listed for %q in the availability table but is reported as not allowed at %v (%v): %s", what, name, avail, rp["path"], rp["seed"], vTrunc(fmt.Sprint(vDiagStrings(errs)), 300)), rp)
	case !allowed && !reported:
		r.Violation("false-negative:"+key+":"+strings.ToLower(name), fmt.Sprintf("%s %q is not available at %v (table key %q, %v) but is not reported; diagnostics: %s", what, name, rp["path"], avail, rp["seed"], vTrunc(fmt.Sprint(vDiagStrings(errs)), 300)), rp)
	}
}

func TestVerifC12(t *testing.T) {
	r := vNewReport("C12")
	defer r.Write(t)
	r.Extra["rule"] = "every non-exempt scalar value position of the 4 maximal seeds, of the project caller and of 4 small seeds in which a section stands without its usual sibling (strategy without matrix, ...) (its table key given by the documentation-derived schema) x 12 contexts + 5 special functions x 12 embeddings (bare, upper-cased, nested in &&, call argument, after another placeholder, second call argument, condition of a && b || c, argument of hashFiles, right / left operand of == / != next to an operand of unknown type, negated operand of <, index; for if: keys also without the ${{ }} marker), complete product; plus every position with one neighbour replaced by a value of another type / form x {secrets, github, always} x 2 embeddings; oracle = transcription of GitHub's context availability table; class = (table key, name, allowed?); non-trivial = not allowed"
	r.Extra["assumptions"] = []string{"the availability table is the transcription frozen in lib_catalogue.go (appendix E)", "for the jobs context outside workflow_call outputs 'undefined variable' counts as the report"}
	if raw := vReplayInput(); raw != nil {
		var rp map[string]any
		if err := jsonUnmarshal(raw, &rp); err != nil {
			t.Fatal(err)
		}
		for k := 0; k < 2; k++ {
			res := vLint(rp["src"].(string), nil)
			if b, _ := rp["project"].(bool); b {
				res = vProjectLint(t)(rp["src"].(string))
			}
			fmt.Printf("replay %d: diagnostics: %v\n", k, vDiagStrings(res.Errs))
			c12Verdict(r, res.Errs, rp)
		}
		r.Class("replay", true)
		return
	}
	cats, err := vAllCatalogues()
	if err != nil {
		r.HarnessError("%v", err)
		return
	}
	// the caller of a local action and a local reusable workflow, linted inside their repository
	if pc, err := vBuildCatalogue("project-caller", vProjectCaller); err != nil {
		r.HarnessError("%v", err)
	} else {
		c12ProjectLint[pc.Seed] = vProjectLint(t)
		cats = append(cats, pc)
	}
	// small extra seeds: shapes in which a section stands WITHOUT the sibling it usually has (a strategy
	// without a matrix, a container / service without credentials, a job with nothing but the
	// mandatory keys and one optional one)
	for name, src := range map[string]string{
		"strategy-without-matrix": "on: push\njobs:\n  a:\n    runs-on: ubuntu-latest\n    strategy:\n      fail-fast: true\n      max-parallel: 2\n    steps:\n      - run: echo\n",
		"strategy-fail-fast-only": "on: push\njobs:\n  a:\n    runs-on: ubuntu-latest\n    strategy:\n      fail-fast: false\n    steps:\n      - run: echo\n",
		"container-image-only":    "on: push\njobs:\n  a:\n    runs-on: ubuntu-latest\n    container: img\n    services:\n      db:\n        image: pg\n    steps:\n      - run: echo\n",
		"with-args-entrypoint":    "on: push\njobs:\n  a:\n    runs-on: ubuntu-latest\n    steps:\n      - uses: docker://alpine:3.8\n        with:\n          args: a\n          entrypoint: e\n      - uses: some-owner/container-action@v1\n        with:\n          args: a\n          entrypoint: e\n          other: o\n      - uses: actions/checkout@v4\n        with:\n          Entrypoint: e\n          ARGS: a\n",
		"job-timeout-only":        "on: push\njobs:\n  a:\n    runs-on: ubuntu-latest\n    timeout-minutes: 5\n    continue-on-error: false\n    steps:\n      - run: echo\n        timeout-minutes: 5\n        continue-on-error: false\n",
	} {
		ec, err := vBuildCatalogue(name, src)
		if err != nil {
			r.HarnessError("%v", err)
			continue
		}
		if res := vLint(src, nil); res.Err != nil || res.Panic != "" || len(res.Errs) > 0 {
			r.HarnessError("extra seed %s does not lint clean: %v", name, vDiagStrings(res.Errs))
			continue
		}
		cats = append(cats, ec)
	}
	sort.Slice(cats, func(i, j int) bool { return cats[i].Seed < cats[j].Seed })
	var idx int64
	keysCovered := map[string]bool{}
	for _, c := range cats {
		for _, p := range c.Scalars {
			sch, ok := vSchemaOf(p.NPath)
			if !ok {
				r.HarnessError("no schema entry for %s (%s)", p.NPath, p.Path)
				continue
			}
			if sch.Exempt {
				continue
			}
			keysCovered[sch.Avail] = true
			type nm struct {
				name   string
				isFunc bool
			}
			var names []nm
			for _, n := range vCtxAll {
				names = append(names, nm{n, false})
			}
			for _, n := range vSpecialFuncs {
				names = append(names, nm{n, true})
			}
			for _, n := range names {
				embs := c12Embeddings(n.name, n.isFunc)
				if strings.HasSuffix(p.Path, ".if") {
					// if: conditions may omit the ${{ }} marker
					for _, t := range c12Embeddings(n.name, n.isFunc) {
						bare := strings.TrimSuffix(strings.TrimPrefix(t, "${{ "), " }}")
						if strings.Contains(bare, "}}") {
							continue // only single-placeholder embeddings have a bare form
						}
						embs = append(embs, bare)
					}
				}
				for e, text := range embs {
					idx++
					if !r.Mine(idx) {
						continue
					}
					if idx%1024 == 0 && r.Expired() {
						return
					}
					r.Begin(func() string { return fmt.Sprintf("%s %s %s emb %d", c.Seed, p.Path, n.name, e) })
					c12Judge(r, c, p, sch, n.name, n.isFunc, e, text)
					if idx%3331 == 0 {
						r.Sample(map[string]any{"seed": c.Seed, "position": p.Path, "table_key": sch.Avail, "name": n.name, "text": text, "allowed_by_table": c12Allowed(sch.Avail, n.name, n.isFunc)})
					}
				}
			}
		}
	}
	// the same positions when a neighbour in the same sequence / mapping has another type or form
	// (restricted to 2 names and 2 embeddings per position: the verdict table is the one above)
	skipped := 0
	for _, v := range vSiblingVariations(cats, &skipped) {
		for _, p := range v.Cat.Scalars {
			if !vDirectChild(v.Container, p.Path) {
				continue
			}
			sch, ok := vSchemaOf(p.NPath)
			if !ok || sch.Exempt {
				continue
			}
			for _, n := range c12SubsetNames() {
				for e, text := range c12SubsetEmbeddings(n.name, n.isFunc) {
					idx++
					if !r.Mine(idx) {
						continue
					}
					if idx%1024 == 0 && r.Expired() {
						return
					}
					r.Begin(func() string { return fmt.Sprintf("%s %s %s emb %d", v.Cat.Seed, p.Path, n.name, e) })
					c12Judge(r, v.Cat, p, sch, n.name, n.isFunc, e, text)
				}
			}
		}
	}
	// the positions of the repository's own clean workflows whose place in the schema is known
	// (other shapes, siblings and orders than the seeds) x {secrets, github, always} x 2 embeddings
	repo := os.Getenv("VERIF_REPO")
	if repo == "" {
		repo = "/repo"
	}
	corpus := vCorpusCatalogues(repo, true)
	r.Bounds["corpus_workflows"] = len(corpus)
	for _, c := range corpus {
		for _, p := range c.Scalars {
			sch, ok := vSchemaOf(p.NPath)
			if !ok || sch.Exempt {
				continue
			}
			for _, n := range c12SubsetNames() {
				for e, text := range c12SubsetEmbeddings(n.name, n.isFunc) {
					idx++
					if !r.Mine(idx) {
						continue
					}
					if idx%1024 == 0 && r.Expired() {
						return
					}
					r.Begin(func() string { return fmt.Sprintf("%s %s %s emb %d", c.Seed, p.Path, n.name, e) })
					c12Judge(r, c, p, sch, n.name, n.isFunc, e, text)
				}
			}
		}
	}
	// every key of the table must have been reached by some position
	if r.Shard == 0 {
		for k := range vAvailability {
			if !keysCovered[k] {
				r.HarnessError("availability table key %q is not reached by any seed position", k)
			}
		}
	}
	r.Bounds["table_keys"] = len(vAvailability)
	r.Bounds["contexts"] = len(vCtxAll)
	r.Bounds["special_functions"] = len(vSpecialFuncs)
	r.Bounds["embeddings"] = 12
	r.Bounds["full_product_at_variation_and_corpus_positions"] = vThorough()
}

type c12Name struct {
	name   string
	isFunc bool
}

// c12SubsetNames / c12SubsetEmbeddings: the names and embeddings used at the positions of the
// sibling variations and of the testdata workflows: three names x two embeddings in the quick tier,
// every context and special function x every embedding in the thorough tier.
func c12SubsetNames() []c12Name {
	if !vThorough() {
		return []c12Name{{"secrets", false}, {"github", false}, {"always", true}}
	}
	var out []c12Name
	for _, n := range vCtxAll {
		out = append(out, c12Name{n, false})
	}
	for _, n := range vSpecialFuncs {
		out = append(out, c12Name{n, true})
	}
	return out
}

func c12SubsetEmbeddings(name string, isFunc bool) []string {
	if !vThorough() {
		return c12Embeddings(name, isFunc)[:2]
	}
	return c12Embeddings(name, isFunc)
}

// c12TwoPlaceholders reports whether the mutated scalar of the replay payload holds two placeholders.
func c12TwoPlaceholders(rp map[string]any) bool {
	lines := strings.Split(rp["src"].(string), "\n")
	l := vInt(rp["line"])
	return l >= 1 && l <= len(lines) && strings.Count(lines[l-1], "${{") >= 2
}
