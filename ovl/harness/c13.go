//go:build go1.23

package actionlint

// C13 — unknown, duplicate and missing keys are reported in every section.
//
// Space: every mapping node of every maximal seed x {foreign key inserted first / middle / last,
// each existing key duplicated verbatim and (case-insensitive sections) re-cased, each mandatory
// key removed} x {alone, together with a malformed placeholder in each direct sibling scalar}.
// Oracle from the schema: closed mapping -> diagnostic at the foreign key (schedule: at the item);
// duplicate -> diagnostic at the repetition; mandatory -> a diagnostic naming the key; the
// sibling's own diagnostic survives.

import (
	"fmt"
	"os"
	"strings"
	"testing"

	"gopkg.in/yaml.v3"
)

type c13Mut struct {
	kind    string // foreign-first|foreign-middle|foreign-last|dup|dup-recased|remove
	key     string
	src     string
	expLine int // expected diagnostic line (0 = anywhere)
	expCol  int
	lineMap func(int) int // original line -> new line
	// variant mutations: lines (after the mutation) of the keys that belong to the mapping's own
	// variant only; the report may name either side of the conflict
	altLines []int
}

var c13AllKeysCache map[string]bool

// c13AllKeys: every key that occurs anywhere in the seeds (lower-cased) plus the documented
// -ignore filters: a near miss that is spelled like one of them may be legal where it is put and is
// not generated.
func c13AllKeys() map[string]bool {
	if c13AllKeysCache != nil {
		return c13AllKeysCache
	}
	out := map[string]bool{"branches-ignore": true, "tags-ignore": true, "paths-ignore": true, "branches": true, "tags": true, "paths": true, "types": true, "workflows": true}
	for _, name := range vSortedKeys(vSeeds) {
		if c, err := vBuildCatalogue(name, vSeeds[name]); err == nil {
			for _, k := range c.Keys {
				out[strings.ToLower(k.Value)] = true
			}
		}
	}
	c13AllKeysCache = out
	return out
}

func c13Indent(n int) string { return strings.Repeat(" ", n) }

// c13Mutations builds all key mutations of mapping m.
func c13Mutations(c *vCatalogue, m *vPos, sch vMappingSchema) []c13Mut {
	var out []c13Mut
	if len(m.Keys) == 0 {
		return nil
	}
	first := m.Keys[0]
	lineOfFirst := c.Lines[first.Line-1]
	seqItem := strings.Contains(lineOfFirst[:first.Col-1], "-") // "- key: ..." form
	ind := c13Indent(m.Indent - 1)
	ins := func(after int, lines []string) (string, func(int) int) {
		n := len(lines)
		return c.InsertLinesAfter(after, lines), func(l int) int {
			if l > after {
				return l + n
			}
			return l
		}
	}
	if sch.Closed {
		foreign := ind + "zzforeign: 1"
		foreignForms := []string{foreign, ind + "ZZFOREIGN: {a: [b]}", ind + "zzforeign:"}
		type place struct {
			name  string
			after int
		}
		var places []place
		if !seqItem {
			places = append(places, place{"foreign-first", first.Line - 1})
		}
		if len(m.Keys) > 1 {
			places = append(places, place{"foreign-middle", m.Keys[0].EndLine})
		}
		places = append(places, place{"foreign-last", m.EndLine})
		for _, pl := range places {
			for fi, ff := range foreignForms {
				src, lm := ins(pl.after, []string{ff})
				name := pl.name
				if fi > 0 {
					name = fmt.Sprintf("%s-form%d", pl.name, fi)
				}
				mu := c13Mut{kind: name, key: strings.TrimSuffix(strings.Fields(ff)[0], ":"), src: src, expLine: pl.after + 1, expCol: m.Indent, lineMap: lm}
				if sch.AtItem {
					mu.expLine, mu.expCol = lm(m.Line), m.Col
				}
				out = append(out, mu)
			}
		}
	}
	// near misses: keys built from the legal keys of this mapping (an -ignore partner that does not
	// exist, a plural / singular, _ for -, a doubled suffix): outside the key set like any other
	if sch.Closed && !sch.AtItem {
		legal := c13AllKeys()
		seenNear := map[string]bool{}
		for _, mk := range m.Keys {
			k := mk.Value
			for _, near := range []string{k + "-ignore", strings.TrimSuffix(k, "-ignore"), k + "s", strings.TrimSuffix(k, "s"), strings.ReplaceAll(k, "-", "_"), k + "-" + k} {
				if near == "" || legal[strings.ToLower(near)] || seenNear[near] {
					continue
				}
				seenNear[near] = true
				src, lm := ins(m.EndLine, []string{ind + near + ": 1"})
				out = append(out, c13Mut{kind: "foreign-near-miss", key: near, src: src, expLine: m.EndLine + 1, expCol: m.Indent, lineMap: lm})
			}
		}
	}
	// a key of a case-sensitive closed mapping written in another letter case is a different,
	// unknown key
	if sch.Closed && !sch.CI {
		for _, k := range m.Keys {
			up := strings.ToUpper(k.Value)
			if up == k.Value || k.Len != len(k.Value) {
				continue
			}
			out = append(out, c13Mut{kind: "foreign-recased", key: up, src: c.Replace(k, up), expLine: k.Line, expCol: k.Col, lineMap: func(l int) int { return l }})
		}
	}
	// keys of the other variant of a two-variant mapping (run step / action step, ordinary job /
	// reusable-workflow-call job): outside the key set of this variant
	if own, other := c13Variants(m, sch); len(other) > 0 {
		type place struct {
			name  string
			after int
		}
		var places []place
		if !seqItem {
			places = append(places, place{"variant-first", first.Line - 1})
		}
		if len(m.Keys) > 1 {
			places = append(places, place{"variant-middle", m.Keys[0].EndLine})
		}
		places = append(places, place{"variant-last", m.EndLine})
		for _, pl := range places {
			for _, o := range other {
				src, lm := ins(pl.after, []string{ind + o})
				mu := c13Mut{kind: pl.name, key: strings.SplitN(o, ":", 2)[0], src: src, expLine: pl.after + 1, expCol: m.Indent, lineMap: lm}
				for _, k := range m.Keys {
					for _, ok := range own {
						if strings.EqualFold(k.Value, ok) {
							mu.altLines = append(mu.altLines, lm(k.Line))
						}
					}
				}
				out = append(out, mu)
			}
		}
		// two keys of the other variant at once (after the last key): each one is outside the
		// key set, so each must be reported (at itself or through a conflicting key of this variant)
		for i := 0; i < len(other); i++ {
			for j := i + 1; j < len(other); j++ {
				if m.NPath == "jobs.*" && (strings.HasPrefix(other[i], "uses:") || strings.HasPrefix(other[j], "uses:")) {
					continue // "uses" turns the job into a call: the job's own keys are then the foreign ones
				}
				// after the last key, and (block mappings that are not sequence items) before the first
				// one - for a call job that is before `uses`
				afters := []int{m.EndLine}
				if !seqItem {
					afters = append(afters, first.Line-1)
				}
				for _, after := range afters {
					src, lm := ins(after, []string{ind + other[i], ind + other[j]})
					mu := c13Mut{kind: "variant-pair", key: strings.SplitN(other[i], ":", 2)[0] + "+" + strings.SplitN(other[j], ":", 2)[0], src: src, expLine: after + 1, expCol: m.Indent, lineMap: lm}
					out = append(out, mu)
				}
			}
		}
	}
	for ki, k := range m.Keys {
		variants := []string{"dup"}
		if sch.CI && strings.ToUpper(k.Value) != k.Value {
			variants = append(variants, "dup-recased")
		}
		for _, v := range variants {
			var cp []string
			for l := k.Line; l <= k.EndLine; l++ {
				cp = append(cp, c.Lines[l-1])
			}
			if ki == 0 && seqItem {
				// "- key:" -> "  key:"
				cp[0] = strings.Repeat(" ", first.Col-1) + cp[0][first.Col-1:]
			}
			if v == "dup-recased" {
				cp[0] = cp[0][:k.Col-1] + strings.ToUpper(k.Value) + cp[0][k.Col-1+k.Len:]
			}
			src, lm := ins(m.EndLine, cp)
			out = append(out, c13Mut{kind: v, key: k.Value, src: src, expLine: m.EndLine + 1, expCol: k.Col, lineMap: lm})
		}
	}
	// two mandatory keys removed together: each of them is reported as missing
	{
		var mands []*vPos
		for ki, k := range m.Keys {
			for _, mk := range sch.Mandatory {
				if strings.EqualFold(mk, k.Value) && !(ki == 0 && seqItem) {
					mands = append(mands, k)
				}
			}
		}
		if len(mands) >= 2 && len(m.Keys) > 2 {
			for a := 0; a < len(mands); a++ {
				for b := a + 1; b < len(mands); b++ {
					ka, kb := mands[a], mands[b]
					na, nb := ka.EndLine-ka.Line+1, kb.EndLine-kb.Line+1
					lm := func(l int) int {
						d := 0
						if l > ka.EndLine {
							d += na
						}
						if l > kb.EndLine {
							d += nb
						}
						return l - d
					}
					out = append(out, c13Mut{kind: "remove-pair", key: ka.Value + "+" + kb.Value, src: c.DeleteKeys([]*vPos{ka, kb}), lineMap: lm})
				}
			}
		}
	}
	for ki, k := range m.Keys {
		mand := false
		for _, mk := range sch.Mandatory {
			if strings.EqualFold(mk, k.Value) {
				mand = true
			}
		}
		if !mand {
			continue
		}
		if ki == 0 && seqItem {
			continue // removing the first key of a sequence item changes the sequence itself
		}
		if len(m.Keys) == 1 {
			continue // would leave an empty mapping (different YAML structure)
		}
		n := k.EndLine - k.Line + 1
		kk := k
		lmRemove := func(l int) int {
			if l > kk.EndLine {
				return l - n
			}
			return l
		}
		out = append(out, c13Mut{kind: "remove", key: k.Value, src: c.DeleteKeys([]*vPos{k}), lineMap: lmRemove})
		// the mandatory key removed AND a key outside the set added after the last key: both are
		// reported (neither diagnostic hides the other)
		var extras []string
		if sch.Closed {
			extras = append(extras, "zzforeign: 1")
		}
		// keys of the other variant only where removing k cannot change the variant itself: an
		// ordinary job (it keeps runs-on or steps) with with: / secrets: added
		if own, other := c13Variants(m, sch); len(other) > 0 && m.NPath == "jobs.*" && len(own) == len(c13JobOrdinary) {
			for _, o := range other {
				if strings.HasPrefix(o, "uses:") {
					continue
				}
				extras = append(extras, o)
			}
		}
		for _, ex := range extras {
			lines := append([]string{}, c.Lines[:m.EndLine]...)
			lines = append(lines, ind+ex)
			lines = append(lines, c.Lines[m.EndLine:]...)
			lines = append(lines[:k.Line-1], lines[k.EndLine:]...)
			exKey := strings.SplitN(ex, ":", 2)[0]
			out = append(out, c13Mut{kind: "remove+extra", key: k.Value + "+" + exKey, src: strings.Join(lines, "\n"), expLine: m.EndLine + 1 - n, expCol: m.Indent, lineMap: func(l int) int {
				if l > m.EndLine {
					l++
				}
				return lmRemove(l)
			}})
		}
	}
	return out
}

var c13StepRun = []string{"run", "shell", "working-directory"}
var c13StepAction = []string{"uses", "with"}
var c13JobOrdinary = []string{"runs-on", "steps", "env", "container", "services", "defaults", "timeout-minutes", "continue-on-error", "outputs", "environment"}
var c13JobCall = []string{"uses", "with", "secrets"}

// c13Variants returns the variant-only keys the mapping has a right to (own) and the insertable
// "key: value" lines of the other variant that the mapping does not contain.
func c13Variants(m *vPos, sch vMappingSchema) (own []string, other []string) {
	has := func(k string) bool {
		for _, x := range m.Keys {
			if strings.EqualFold(x.Value, k) {
				return true
			}
		}
		return false
	}
	values := map[string]string{
		"run": "run: echo", "shell": "shell: bash", "working-directory": "working-directory: d",
		"uses": "uses: actions/checkout@v4", "with": "with: {x: y}",
	}
	jobValues := map[string]string{
		"runs-on": "runs-on: ubuntu-latest", "steps": "steps: [{run: echo, zzinner: 1}]", "env": "env: {A: b}", "container": "container: img",
		"services": "services: {s: {image: i}}", "defaults": "defaults: {run: {shell: bash}}", "timeout-minutes": "timeout-minutes: 5",
		"continue-on-error": "continue-on-error: true", "outputs": "outputs: {a: b}", "environment": "environment: prod",
		"uses": "uses: o/r/.github/workflows/w.yml@v1", "with": "with: {a: b}", "secrets": "secrets: {a: b}",
	}
	var otherKeys []string
	switch m.NPath {
	case "jobs.*.steps[]":
		own, otherKeys = c13StepRun, c13StepAction
		if has("uses") || has("with") {
			own, otherKeys = c13StepAction, c13StepRun
		}
	case "jobs.*":
		own, otherKeys = c13JobOrdinary, c13JobCall
		if has("uses") {
			own, otherKeys = c13JobCall, c13JobOrdinary
		}
		values = jobValues
	default:
		return nil, nil
	}
	for _, k := range otherKeys {
		if !has(k) {
			other = append(other, values[k])
		}
	}
	return own, other
}

func c13Judge(r *vReport, c *vCatalogue, m *vPos, sch vMappingSchema, mu *c13Mut, sib *vPos) {
	src := mu.src
	sibLine, sibLo, sibHi := 0, 0, 0
	if sib != nil {
		lines := strings.Split(src, "\n")
		sibLine = mu.lineMap(sib.Line)
		text := c03QuoteCopy("${{ a + }}")
		l := lines[sibLine-1]
		if sib.Col-1+sib.Len > len(l) || l[sib.Col-1:sib.Col-1+sib.Len] != c.Lines[sib.Line-1][sib.Col-1:sib.Col-1+sib.Len] {
			r.HarnessError("C13: sibling %s moved unexpectedly in mutation %s of %s", sib.Path, mu.kind, m.Path)
			return
		}
		lines[sibLine-1] = l[:sib.Col-1] + text + l[sib.Col-1+sib.Len:]
		sibLo, sibHi = sib.Col, sib.Col+len(text)-1
		src = strings.Join(lines, "\n")
	}
	res := vLint(src, nil)
	r.Evaluations++
	r.Transitions++
	r.Validated++
	sibPath := ""
	if sib != nil {
		sibPath = sib.Path
	}
	replay := map[string]any{"seed": c.Seed, "mapping": m.Path, "mutation": mu.kind, "key": mu.key, "sibling": sibPath, "src": src,
		"exp_line": mu.expLine, "exp_col": mu.expCol, "sib_line": sibLine, "sib_lo": sibLo, "sib_hi": sibHi, "closed": sch.Closed, "alt_lines": mu.altLines}
	if res.Panic != "" || res.Err != nil {
		r.Violation("failure", fmt.Sprintf("%s %s %s: panic=%q err=%v", c.Seed, m.Path, mu.kind, vTrunc(res.Panic, 300), res.Err), replay)
		return
	}
	c13Verdict(r, res.Errs, replay, m.NPath)
	cls := mu.kind
	if sib != nil {
		cls += "+sibling"
	}
	r.Class(m.NPath+" "+cls, true)
}

// c13Verdict evaluates the oracle from the replay payload (used by both the run and the replay).
func c13Verdict(r *vReport, errs []*Error, rp map[string]any, npath string) {
	kind, key := rp["mutation"].(string), rp["key"].(string)
	expLine, expCol := vInt(rp["exp_line"]), vInt(rp["exp_col"])
	ds := vDiags(errs)
	where := fmt.Sprintf("%v mapping %q", rp["seed"], rp["mapping"])
	switch {
	case strings.HasPrefix(kind, "foreign"):
		found := false
		for _, d := range ds {
			if d.Line == expLine && d.Col == expCol && d.Kind == "syntax-check" {
				found = true
			}
		}
		if !found {
			r.Violation("foreign-key-not-reported:"+npath, fmt.Sprintf("%s: key %q outside the key set (%s) is not reported at %d:%d; diagnostics: %s", where, key, kind, expLine, expCol, vTrunc(fmt.Sprint(ds), 400)), rp)
		}
	case kind == "variant-pair":
		for off := 0; off < 2; off++ {
			found := false
			for _, d := range ds {
				if d.Line == expLine+off && d.Kind == "syntax-check" {
					found = true
				}
			}
			if !found {
				r.Violation("other-variant-key-not-reported:"+npath+":second-of-pair", fmt.Sprintf("%s: keys %q of the other variant were added together (lines %d and %d); the one at line %d is not reported; diagnostics: %s", where, key, expLine, expLine+1, expLine+off, vTrunc(fmt.Sprint(ds), 400)), rp)
			}
		}
	case strings.HasPrefix(kind, "variant"):
		lines := map[int]bool{expLine: true}
		if al, ok := rp["alt_lines"].([]int); ok {
			for _, l := range al {
				lines[l] = true
			}
		} else if al, ok := rp["alt_lines"].([]any); ok {
			for _, l := range al {
				lines[vInt(l)] = true
			}
		}
		found := false
		for _, d := range ds {
			if lines[d.Line] && d.Kind == "syntax-check" {
				found = true
			}
		}
		if !found {
			r.Violation("other-variant-key-not-reported:"+npath+":"+key, fmt.Sprintf("%s: key %q belongs to the other variant of this mapping (%s) but neither it (line %d) nor a conflicting key of this variant is reported; diagnostics: %s", where, key, kind, expLine, vTrunc(fmt.Sprint(ds), 400)), rp)
		}
		if key == "steps" && npath == "jobs.*" {
			// the steps: added to a call job hold a step with a foreign key of its own (zzinner): rejecting
			// the section as a whole does not hide what is wrong inside it
			inner := false
			for _, d := range ds {
				if strings.Contains(d.Msg, "zzinner") {
					inner = true
				}
			}
			if !inner {
				r.Violation("inner-defect-of-other-variant-key-hidden:"+npath+":"+key, fmt.Sprintf("%s: steps: added to a job that calls a reusable workflow (%s): the foreign key inside its step is not reported; diagnostics: %s", where, kind, vTrunc(fmt.Sprint(ds), 400)), rp)
			}
		}
	case strings.HasPrefix(kind, "dup"):
		found := false
		for _, d := range ds {
			if d.Line == expLine && d.Col == expCol && strings.Contains(d.Msg, "duplicate") {
				found = true
			}
		}
		if !found {
			r.Violation("duplicate-key-not-reported:"+npath, fmt.Sprintf("%s: repeated key %q (%s) is not reported at the repetition %d:%d; diagnostics: %s", where, key, kind, expLine, expCol, vTrunc(fmt.Sprint(ds), 400)), rp)
		}
	case kind == "remove+extra":
		parts := strings.SplitN(key, "+", 2)
		foundMissing, foundExtra := false, false
		for _, d := range ds {
			if strings.Contains(strings.ToLower(d.Msg), strings.ToLower(parts[0])) && d.Line != expLine {
				foundMissing = true
			}
			if d.Line == expLine && d.Kind == "syntax-check" {
				foundExtra = true
			}
		}
		if !foundMissing {
			r.Violation("missing-key-hidden-by-extra-key:"+npath+"."+parts[0], fmt.Sprintf("%s: mandatory key %q removed and key %q added: no diagnostic about the missing key; diagnostics: %s", where, parts[0], parts[1], vTrunc(fmt.Sprint(ds), 400)), rp)
		}
		if !foundExtra {
			r.Violation("extra-key-hidden-by-missing-key:"+npath+"."+parts[1], fmt.Sprintf("%s: mandatory key %q removed and key %q added at line %d: the added key is not reported; diagnostics: %s", where, parts[0], parts[1], expLine, vTrunc(fmt.Sprint(ds), 400)), rp)
		}
	case kind == "remove-pair":
		for _, one := range strings.Split(key, "+") {
			found := false
			for _, d := range ds {
				if strings.Contains(strings.ToLower(d.Msg), strings.ToLower(one)) {
					found = true
				}
			}
			if !found {
				r.Violation("missing-key-not-reported:"+npath+"."+one+":removed-with-another", fmt.Sprintf("%s: mandatory keys %q removed together but no diagnostic mentions %q; diagnostics: %s", where, key, one, vTrunc(fmt.Sprint(ds), 400)), rp)
			}
		}
	case kind == "remove":
		found := false
		for _, d := range ds {
			if strings.Contains(strings.ToLower(d.Msg), strings.ToLower(key)) {
				found = true
			}
		}
		if !found {
			r.Violation("missing-key-not-reported:"+npath+"."+key, fmt.Sprintf("%s: mandatory key %q removed but no diagnostic mentions it; diagnostics: %s", where, key, vTrunc(fmt.Sprint(ds), 400)), rp)
		}
	}
	if sl := vInt(rp["sib_line"]); sl > 0 {
		lo, hi := vInt(rp["sib_lo"]), vInt(rp["sib_hi"])
		found := false
		for _, d := range ds {
			if d.Line == sl && d.Col >= lo && d.Col <= hi {
				found = true
			}
		}
		if !found {
			r.Violation("sibling-suppressed:"+npath+":"+kind, fmt.Sprintf("%s: with the %s mutation of key %q, the diagnostic of sibling %v (malformed placeholder at %d:%d) disappeared; diagnostics: %s", where, kind, key, rp["sibling"], sl, lo, vTrunc(fmt.Sprint(ds), 400)), rp)
		}
	}
}

func c03QuoteCopy(s string) string { return "'" + strings.ReplaceAll(s, "'", "''") + "'" }

func TestVerifC13(t *testing.T) {
	r := vNewReport("C13")
	defer r.Write(t)
	r.Extra["rule"] = "every mapping node of the 4 maximal seeds x {foreign key first/middle/last in 3 forms (scalar, nested, null value; closed mappings), near-miss keys built from the keys present in the mapping (-ignore partner, plural / singular, _ for -, doubled), every key duplicated verbatim / re-cased (case-insensitive sections), every mandatory key removed, every pair of mandatory keys removed together} x {alone, plus a malformed placeholder in each sibling scalar (direct values and the first scalar below each sibling section)}; oracle from the schema of appendix C; class = (schema path of the mapping, mutation); all classes non-trivial"
	r.Extra["assumptions"] = []string{"block-style mappings of the seeds only; open mappings get no foreign-key expectation; on: event names are left to the events rule"}
	if raw := vReplayInput(); raw != nil {
		var rp map[string]any
		if err := jsonUnmarshal(raw, &rp); err != nil {
			t.Fatal(err)
		}
		for k := 0; k < 2; k++ {
			res := vLint(rp["src"].(string), nil)
			fmt.Printf("replay %d:\n%s\ndiagnostics: %v\n", k, rp["src"], vDiagStrings(res.Errs))
			c13Verdict(r, res.Errs, rp, "replay")
		}
		r.Class("replay", true)
		return
	}
	cats, err := vAllCatalogues()
	if err != nil {
		r.HarnessError("%v", err)
		return
	}
	var idx int64
	mappings := 0
	for _, c := range cats {
		for _, m := range c.Mappings {
			var keyNames []string
			for _, k := range m.Keys {
				keyNames = append(keyNames, k.Value)
			}
			sch, ok := vMappingSchemaOf(m.NPath, keyNames)
			if !ok {
				r.HarnessError("no mapping schema for %s (%s)", m.NPath, m.Path)
				continue
			}
			if sch.Free {
				continue
			}
			mappings++
			// sibling scalars (non-exempt): the direct values of this mapping's keys and, for keys
			// that hold sections, the first scalar found below each of them
			var sibs []*vPos
			deep := map[int]bool{}
			for _, s := range c.Scalars {
				if ss, ok := vSchemaOf(s.NPath); !ok || ss.Exempt {
					continue
				}
				if s.Parent == m && !s.IsKey {
					sibs = append(sibs, s)
					continue
				}
				for ki, k := range m.Keys {
					if s.Line >= k.Line && s.Line <= k.EndLine && !deep[ki] && s.Parent != m && (strings.HasPrefix(s.Path, k.Path+".") || strings.HasPrefix(s.Path, k.Path+"[")) {
						deep[ki] = true
						sibs = append(sibs, s)
					}
				}
			}
			for _, mu := range c13Mutations(c, m, sch) {
				mu := mu
				idx++
				if r.Mine(idx) {
					r.Begin(func() string { return fmt.Sprintf("%s %s %s %s", c.Seed, m.Path, mu.kind, mu.key) })
					c13Judge(r, c, m, sch, &mu, nil)
					if idx%97 == 0 {
						r.Sample(map[string]any{"seed": c.Seed, "mapping": m.Path, "schema_path": m.NPath, "mutation": mu.kind, "key": mu.key, "expected_at": []int{mu.expLine, mu.expCol}})
					}
				}
				if mu.kind == "remove" || mu.kind == "remove-pair" || mu.kind == "remove+extra" || mu.kind == "foreign-recased" {
					continue // (re-casing a key takes its whole subtree out of the parse)
				}
				for _, s := range sibs {
					if strings.HasPrefix(mu.kind, "dup") && strings.EqualFold(lastSeg(s.Path), mu.key) {
						continue // the duplicated key's own value
					}
					if strings.HasPrefix(mu.kind, "variant") && c13BelowVariantKey(m, s) {
						continue // the values of the conflicting keys themselves are not siblings
					}
					idx++
					if !r.Mine(idx) {
						continue
					}
					c13Judge(r, c, m, sch, &mu, s)
				}
			}
		}
	}
	r.Bounds["mappings"] = mappings
	// the block mappings of the repository's own clean workflows whose place in the schema is known:
	// the same key mutations (without the sibling dimension)
	repo := os.Getenv("VERIF_REPO")
	if repo == "" {
		repo = "/repo"
	}
	corpus := vCorpusCatalogues(repo, true)
	r.Bounds["corpus_workflows"] = len(corpus)
	cm, skippedYAML := 0, 0
	for _, c := range corpus {
		for _, m := range c.Mappings {
			if m.Flow || len(m.Keys) == 0 {
				continue
			}
			complete := true
			var keyNames []string
			for _, k := range m.Keys {
				keyNames = append(keyNames, k.Value)
				if k.Len != len(k.Value) || k.EndLine < k.Line {
					complete = false // quoted / unlocatable key: line arithmetic not safe
				}
			}
			// every line of the mapping must belong to one of its keys at the mapping's indentation
			// (no comments or blank lines in between: insertion points are computed from key lines)
			for l := m.Line; complete && l <= m.EndLine && l <= len(c.Lines); l++ {
				t := strings.TrimSpace(c.Lines[l-1])
				if t == "" || strings.HasPrefix(t, "#") {
					complete = false
				}
			}
			sch, ok := vMappingSchemaOf(m.NPath, keyNames)
			if !ok || sch.Free || !complete {
				continue
			}
			cm++
			for _, mu := range c13Mutations(c, m, sch) {
				mu := mu
				idx++
				if !r.Mine(idx) {
					continue
				}
				if idx%512 == 0 && r.Expired() {
					return
				}
				var probe yaml.Node
				if yaml.Unmarshal([]byte(mu.src), &probe) != nil {
					skippedYAML++ // the line arithmetic does not fit this file (block scalars, comments): not a case
					continue
				}
				r.Begin(func() string { return fmt.Sprintf("%s %s %s %s", c.Seed, m.Path, mu.kind, mu.key) })
				c13Judge(r, c, m, sch, &mu, nil)
			}
		}
	}
	r.Extra["sum_corpus_mutations_not_yaml_skipped"] = float64(skippedYAML)
	r.Bounds["corpus_mappings"] = cm
}

func lastSeg(p string) string {
	if i := strings.LastIndex(p, "."); i >= 0 {
		return p[i+1:]
	}
	return p
}

// c13BelowVariantKey reports whether scalar s lies below a variant-only key of mapping m.
func c13BelowVariantKey(m *vPos, s *vPos) bool {
	rest := strings.TrimPrefix(strings.TrimPrefix(s.Path, m.Path), ".")
	head := rest
	if i := strings.IndexAny(rest, ".["); i >= 0 {
		head = rest[:i]
	}
	for _, set := range [][]string{c13StepRun, c13StepAction, c13JobOrdinary, c13JobCall} {
		for _, k := range set {
			if strings.EqualFold(k, head) {
				return true
			}
		}
	}
	return false
}
