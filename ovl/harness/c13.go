//go:build go1.23

package actionlint

// C13 — unknown, duplicate and missing keys are reported in every section.
//
// Space: every mapping node of every maximal seed x {foreign key inserted first / middle / last,
// each existing key duplicated verbatim and (case-insensitive sections) re-cased, each mandatory
// key removed} x {alone, together with a malformed placeholder in each direct sibling scalar}.
// Oracle from the schema: closed mapping -> diagnostic at the foreign key (schedule: at the item);
// duplicate -> diagnostic at the repetition; mandatory -> a diagnostic naming the key; the
// sibling's own diagnostic survives.

import (
	"fmt"
	"strings"
	"testing"
)

type c13Mut struct {
	kind    string // foreign-first|foreign-middle|foreign-last|dup|dup-recased|remove
	key     string
	src     string
	expLine int // expected diagnostic line (0 = anywhere)
	expCol  int
	lineMap func(int) int // original line -> new line
}

func c13Indent(n int) string { return strings.Repeat(" ", n) }

// c13Mutations builds all key mutations of mapping m.
func c13Mutations(c *vCatalogue, m *vPos, sch vMappingSchema) []c13Mut {
	var out []c13Mut
	if len(m.Keys) == 0 {
		return nil
	}
	first := m.Keys[0]
	lineOfFirst := c.Lines[first.Line-1]
	seqItem := strings.Contains(lineOfFirst[:first.Col-1], "-") // "- key: ..." form
	ind := c13Indent(m.Indent - 1)
	ins := func(after int, lines []string) (string, func(int) int) {
		n := len(lines)
		return c.InsertLinesAfter(after, lines), func(l int) int {
			if l > after {
				return l + n
			}
			return l
		}
	}
	if sch.Closed {
		foreign := ind + "zzforeign: 1"
		foreignForms := []string{foreign, ind + "ZZFOREIGN: {a: [b]}", ind + "zzforeign:"}
		type place struct {
			name  string
			after int
		}
		var places []place
		if !seqItem {
			places = append(places, place{"foreign-first", first.Line - 1})
		}
		if len(m.Keys) > 1 {
			places = append(places, place{"foreign-middle", m.Keys[0].EndLine})
		}
		places = append(places, place{"foreign-last", m.EndLine})
		for _, pl := range places {
			for fi, ff := range foreignForms {
				src, lm := ins(pl.after, []string{ff})
				name := pl.name
				if fi > 0 {
					name = fmt.Sprintf("%s-form%d", pl.name, fi)
				}
				mu := c13Mut{kind: name, key: strings.TrimSuffix(strings.Fields(ff)[0], ":"), src: src, expLine: pl.after + 1, expCol: m.Indent, lineMap: lm}
				if sch.AtItem {
					mu.expLine, mu.expCol = lm(m.Line), m.Col
				}
				out = append(out, mu)
			}
		}
	}
	for ki, k := range m.Keys {
		variants := []string{"dup"}
		if sch.CI && strings.ToUpper(k.Value) != k.Value {
			variants = append(variants, "dup-recased")
		}
		for _, v := range variants {
			var cp []string
			for l := k.Line; l <= k.EndLine; l++ {
				cp = append(cp, c.Lines[l-1])
			}
			if ki == 0 && seqItem {
				// "- key:" -> "  key:"
				cp[0] = strings.Repeat(" ", first.Col-1) + cp[0][first.Col-1:]
			}
			if v == "dup-recased" {
				cp[0] = cp[0][:k.Col-1] + strings.ToUpper(k.Value) + cp[0][k.Col-1+k.Len:]
			}
			src, lm := ins(m.EndLine, cp)
			out = append(out, c13Mut{kind: v, key: k.Value, src: src, expLine: m.EndLine + 1, expCol: k.Col, lineMap: lm})
		}
	}
	for ki, k := range m.Keys {
		mand := false
		for _, mk := range sch.Mandatory {
			if strings.EqualFold(mk, k.Value) {
				mand = true
			}
		}
		if !mand {
			continue
		}
		if ki == 0 && seqItem {
			continue // removing the first key of a sequence item changes the sequence itself
		}
		if len(m.Keys) == 1 {
			continue // would leave an empty mapping (different YAML structure)
		}
		n := k.EndLine - k.Line + 1
		kk := k
		out = append(out, c13Mut{kind: "remove", key: k.Value, src: c.DeleteKeys([]*vPos{k}), lineMap: func(l int) int {
			if l > kk.EndLine {
				return l - n
			}
			return l
		}})
	}
	return out
}

func c13Judge(r *vReport, c *vCatalogue, m *vPos, sch vMappingSchema, mu *c13Mut, sib *vPos) {
	src := mu.src
	sibLine, sibLo, sibHi := 0, 0, 0
	if sib != nil {
		lines := strings.Split(src, "\n")
		sibLine = mu.lineMap(sib.Line)
		text := c03QuoteCopy("${{ a + }}")
		l := lines[sibLine-1]
		if sib.Col-1+sib.Len > len(l) || l[sib.Col-1:sib.Col-1+sib.Len] != c.Lines[sib.Line-1][sib.Col-1:sib.Col-1+sib.Len] {
			r.HarnessError("C13: sibling %s moved unexpectedly in mutation %s of %s", sib.Path, mu.kind, m.Path)
			return
		}
		lines[sibLine-1] = l[:sib.Col-1] + text + l[sib.Col-1+sib.Len:]
		sibLo, sibHi = sib.Col, sib.Col+len(text)-1
		src = strings.Join(lines, "\n")
	}
	res := vLint(src, nil)
	r.Evaluations++
	r.Transitions++
	r.Validated++
	sibPath := ""
	if sib != nil {
		sibPath = sib.Path
	}
	replay := map[string]any{"seed": c.Seed, "mapping": m.Path, "mutation": mu.kind, "key": mu.key, "sibling": sibPath, "src": src,
		"exp_line": mu.expLine, "exp_col": mu.expCol, "sib_line": sibLine, "sib_lo": sibLo, "sib_hi": sibHi, "closed": sch.Closed}
	if res.Panic != "" || res.Err != nil {
		r.Violation("failure", fmt.Sprintf("%s %s %s: panic=%q err=%v", c.Seed, m.Path, mu.kind, vTrunc(res.Panic, 300), res.Err), replay)
		return
	}
	c13Verdict(r, res.Errs, replay, m.NPath)
	cls := mu.kind
	if sib != nil {
		cls += "+sibling"
	}
	r.Class(m.NPath+" "+cls, true)
}

// c13Verdict evaluates the oracle from the replay payload (used by both the run and the replay).
func c13Verdict(r *vReport, errs []*Error, rp map[string]any, npath string) {
	kind, key := rp["mutation"].(string), rp["key"].(string)
	expLine, expCol := vInt(rp["exp_line"]), vInt(rp["exp_col"])
	ds := vDiags(errs)
	where := fmt.Sprintf("%v mapping %q", rp["seed"], rp["mapping"])
	switch {
	case strings.HasPrefix(kind, "foreign"):
		found := false
		for _, d := range ds {
			if d.Line == expLine && d.Col == expCol && d.Kind == "syntax-check" {
				found = true
			}
		}
		if !found {
			r.Violation("foreign-key-not-reported:"+npath, fmt.Sprintf("%s: key %q outside the key set (%s) is not reported at %d:%d; diagnostics: %s", where, key, kind, expLine, expCol, vTrunc(fmt.Sprint(ds), 400)), rp)
		}
	case strings.HasPrefix(kind, "dup"):
		found := false
		for _, d := range ds {
			if d.Line == expLine && d.Col == expCol && strings.Contains(d.Msg, "duplicate") {
				found = true
			}
		}
		if !found {
			r.Violation("duplicate-key-not-reported:"+npath, fmt.Sprintf("%s: repeated key %q (%s) is not reported at the repetition %d:%d; diagnostics: %s", where, key, kind, expLine, expCol, vTrunc(fmt.Sprint(ds), 400)), rp)
		}
	case kind == "remove":
		found := false
		for _, d := range ds {
			if strings.Contains(strings.ToLower(d.Msg), strings.ToLower(key)) {
				found = true
			}
		}
		if !found {
			r.Violation("missing-key-not-reported:"+npath+"."+key, fmt.Sprintf("%s: mandatory key %q removed but no diagnostic mentions it; diagnostics: %s", where, key, vTrunc(fmt.Sprint(ds), 400)), rp)
		}
	}
	if sl := vInt(rp["sib_line"]); sl > 0 {
		lo, hi := vInt(rp["sib_lo"]), vInt(rp["sib_hi"])
		found := false
		for _, d := range ds {
			if d.Line == sl && d.Col >= lo && d.Col <= hi {
				found = true
			}
		}
		if !found {
			r.Violation("sibling-suppressed:"+npath+":"+kind, fmt.Sprintf("%s: with the %s mutation of key %q, the diagnostic of sibling %v (malformed placeholder at %d:%d) disappeared; diagnostics: %s", where, kind, key, rp["sibling"], sl, lo, vTrunc(fmt.Sprint(ds), 400)), rp)
		}
	}
}

func c03QuoteCopy(s string) string { return "'" + strings.ReplaceAll(s, "'", "''") + "'" }

func TestVerifC13(t *testing.T) {
	r := vNewReport("C13")
	defer r.Write(t)
	r.Extra["rule"] = "every mapping node of the 4 maximal seeds x {foreign key first/middle/last in 3 forms (scalar, nested, null value; closed mappings), every key duplicated verbatim / re-cased (case-insensitive sections), every mandatory key removed} x {alone, plus a malformed placeholder in each sibling scalar (direct values and the first scalar below each sibling section)}; oracle from the schema of appendix C; class = (schema path of the mapping, mutation); all classes non-trivial"
	r.Extra["assumptions"] = []string{"block-style mappings of the seeds only; open mappings get no foreign-key expectation; on: event names are left to the events rule"}
	if raw := vReplayInput(); raw != nil {
		var rp map[string]any
		if err := jsonUnmarshal(raw, &rp); err != nil {
			t.Fatal(err)
		}
		for k := 0; k < 2; k++ {
			res := vLint(rp["src"].(string), nil)
			fmt.Printf("replay %d:\n%s\ndiagnostics: %v\n", k, rp["src"], vDiagStrings(res.Errs))
			c13Verdict(r, res.Errs, rp, "replay")
		}
		r.Class("replay", true)
		return
	}
	cats, err := vAllCatalogues()
	if err != nil {
		r.HarnessError("%v", err)
		return
	}
	var idx int64
	mappings := 0
	for _, c := range cats {
		for _, m := range c.Mappings {
			var keyNames []string
			for _, k := range m.Keys {
				keyNames = append(keyNames, k.Value)
			}
			sch, ok := vMappingSchemaOf(m.NPath, keyNames)
			if !ok {
				r.HarnessError("no mapping schema for %s (%s)", m.NPath, m.Path)
				continue
			}
			if sch.Free {
				continue
			}
			mappings++
			// sibling scalars (non-exempt): the direct values of this mapping's keys and, for keys
			// that hold sections, the first scalar found below each of them
			var sibs []*vPos
			deep := map[int]bool{}
			for _, s := range c.Scalars {
				if ss, ok := vSchemaOf(s.NPath); !ok || ss.Exempt {
					continue
				}
				if s.Parent == m && !s.IsKey {
					sibs = append(sibs, s)
					continue
				}
				for ki, k := range m.Keys {
					if s.Line >= k.Line && s.Line <= k.EndLine && !deep[ki] && s.Parent != m && (strings.HasPrefix(s.Path, k.Path+".") || strings.HasPrefix(s.Path, k.Path+"[")) {
						deep[ki] = true
						sibs = append(sibs, s)
					}
				}
			}
			for _, mu := range c13Mutations(c, m, sch) {
				mu := mu
				idx++
				if r.Mine(idx) {
					r.Begin(func() string { return fmt.Sprintf("%s %s %s %s", c.Seed, m.Path, mu.kind, mu.key) })
					c13Judge(r, c, m, sch, &mu, nil)
					if idx%97 == 0 {
						r.Sample(map[string]any{"seed": c.Seed, "mapping": m.Path, "schema_path": m.NPath, "mutation": mu.kind, "key": mu.key, "expected_at": []int{mu.expLine, mu.expCol}})
					}
				}
				if mu.kind == "remove" {
					continue
				}
				for _, s := range sibs {
					if strings.HasPrefix(mu.kind, "dup") && strings.EqualFold(lastSeg(s.Path), mu.key) {
						continue // the duplicated key's own value
					}
					idx++
					if !r.Mine(idx) {
						continue
					}
					c13Judge(r, c, m, sch, &mu, s)
				}
			}
		}
	}
	r.Bounds["mappings"] = mappings
}

func lastSeg(p string) string {
	if i := strings.LastIndex(p, "."); i >= 0 {
		return p[i+1:]
	}
	return p
}
