//go:build go1.23

package actionlint

// C02 — output is a deterministic function of the inputs.
//
// Engine A: (1) map orders: every range-over-map of package actionlint is a choice point; for each
// input all executions with at most D non-identity orders are run and must observe the same bytes
// as the identity execution; (2) interleavings: multi-file LintFiles runs sharing callees, all
// schedules up to the preemption bound must print the same bytes; (3) histories: one Linter value
// reused for sequences of Lint/LintFile/LintFiles calls must answer each call as a fresh Linter.

import (
	"bytes"
	"fmt"
	"os"
	"path/filepath"
	"regexp"
	"runtime"
	"sort"
	"strings"
	"testing"
	"time"

	"github.com/rhysd/actionlint/verifshim/vexec"
	"github.com/rhysd/actionlint/verifshim/vsched"
)

var c02Collision = map[string]string{
	"format-placeholders":   "on: push\njobs:\n  a:\n    runs-on: ubuntu-latest\n    steps:\n      - run: echo ${{ format('{1} {2} {3}', 'a') }}\n",
	"action-missing-inputs": "on: push\njobs:\n  a:\n    runs-on: ubuntu-latest\n    steps:\n      - uses: actions/upload-release-asset@v1\n      - uses: actions/upload-release-asset@v1\n        with:\n          bogus_one: 1\n          bogus_two: 2\n",
	"runner-label-conflict": "on: push\njobs:\n  a:\n    runs-on: [linux, ubuntu-22.04, windows-2022, macos-13]\n    steps:\n      - run: echo\n",
	// the same kind of input laid out over several lines, so that "earlier in the source" and
	// "smaller column" disagree
	"runner-label-conflict-wrapped":     "on: push\njobs:\n  a:\n    runs-on: [self-hosted, linux,\n      ubuntu-22.04, windows-2022,\n   macos-13]\n    steps:\n      - run: echo\n",
	"runner-label-matrix-include-first": "on: push\njobs:\n  a:\n    strategy:\n      matrix:\n        include:\n          - os: macos-14\n        os: [ubuntu-22.04,\n   windows-2022]\n    runs-on: [\"${{ matrix.os }}\", ubuntu-24.04]\n    steps:\n      - run: echo\n",
	"webhook-types-wrapped":             "on:\n  pull_request:\n    types: [bogus, nope,\n wrong]\n    branches: ['[',\n 'a b']\njobs:\n  a:\n    runs-on: ubuntu-latest\n    steps:\n      - run: echo\n",
	"needs-wrapped":                     "on: push\njobs:\n  a:\n    needs: [x, b,\n y, c]\n    runs-on: ubuntu-latest\n    steps:\n      - run: echo\n  b:\n    needs: [c,\n a]\n    runs-on: ubuntu-latest\n    steps:\n      - run: echo\n  c:\n    needs: [a]\n    runs-on: ubuntu-latest\n    steps:\n      - run: echo\n",
	// object filters whose candidates have different shapes (any choice among them must not show)
	"object-filter-candidates":     "on: push\njobs:\n  build:\n    runs-on: ubuntu-latest\n    outputs:\n      version: v\n    steps:\n      - run: echo\n  test:\n    runs-on: ubuntu-latest\n    outputs:\n      report: r\n    steps:\n      - run: echo\n  lint:\n    runs-on: ubuntu-latest\n    outputs:\n      version: v\n      extra: e\n    steps:\n      - run: echo\n  last:\n    needs: [build, test, lint]\n    runs-on: ubuntu-latest\n    strategy:\n      matrix:\n        cfg: [{name: a}]\n        other: [{flag: b}]\n    services:\n      db:\n        image: pg\n      cache:\n        image: redis\n    steps:\n      - id: s1\n        uses: actions/checkout@v4\n      - id: s2\n        uses: actions/cache@v4\n        with:\n          path: p\n          key: k\n      - run: echo ${{ toJSON(needs.*.outputs.version) }} ${{ join(needs.*.outputs.report, ',') }} ${{ toJSON(needs.*.outputs.nosuch) }} ${{ toJSON(needs.*.result) }}\n      - run: echo ${{ toJSON(steps.*.outputs.ref) }} ${{ toJSON(steps.*.outputs.cache-hit) }} ${{ toJSON(matrix.*.name) }} ${{ toJSON(matrix.*.flag) }} ${{ toJSON(job.services.*.id) }} ${{ toJSON(job.services.*.nosuch) }}\n",
	"needs-two-disjoint-cycles":    "on: push\njobs:\n  a:\n    needs: b\n    runs-on: ubuntu-latest\n    steps:\n      - run: echo\n  b:\n    needs: a\n    runs-on: ubuntu-latest\n    steps:\n      - run: echo\n  c:\n    needs: d\n    runs-on: ubuntu-latest\n    steps:\n      - run: echo\n  d:\n    needs: c\n    runs-on: ubuntu-latest\n    steps:\n      - run: echo\n",
	"needs-overlapping-cycles":     "on: push\njobs:\n  a:\n    needs: [b, c]\n    runs-on: ubuntu-latest\n    steps:\n      - run: echo\n  b:\n    needs: [a]\n    runs-on: ubuntu-latest\n    steps:\n      - run: echo\n  c:\n    needs: [a, b]\n    runs-on: ubuntu-latest\n    steps:\n      - run: echo\n",
	"needs-dangling":               "on: push\njobs:\n  a:\n    needs: [x, y]\n    runs-on: ubuntu-latest\n    steps:\n      - run: echo\n  b:\n    needs: [z, a, w]\n    runs-on: ubuntu-latest\n    steps:\n      - run: echo\n",
	"permissions-unknown":          "on: push\npermissions:\n  foo: read\n  bar: write\n  contents: bogus\njobs:\n  a:\n    permissions:\n      baz: read\n      qux: none\n    runs-on: ubuntu-latest\n    steps:\n      - run: echo\n",
	"duplicate-ids":                "on: push\njobs:\n  a:\n    runs-on: ubuntu-latest\n    steps:\n      - id: s\n        run: echo\n      - id: S\n        run: echo\n      - id: s\n        run: echo\n  A:\n    runs-on: ubuntu-latest\n    steps:\n      - run: echo\n",
	"object-filter-untrusted":      "on: pull_request\njobs:\n  a:\n    runs-on: ubuntu-latest\n    steps:\n      - run: echo ${{ github.event.*.body }} ${{ github.event.pull_request.*.ref }} ${{ github.event.commits.*.author.* }}\n      - run: echo ${{ toJSON(github.event.*.title) }}\n",
	"undefined-things":             "on: push\njobs:\n  a:\n    runs-on: ubuntu-latest\n    strategy:\n      matrix:\n        x: [1, 2]\n        y: [a, b]\n        z: [c]\n    steps:\n      - run: echo ${{ matrix.nope }} ${{ steps.nope.outputs.x }} ${{ needs.nope }} ${{ nosuch.x }} ${{ nosuchfn() }} ${{ env.FOO.bar }}\n        env:\n          'a b': 1\n          'c=d': 2\n          'e&f': 3\n",
	"matrix-duplicates":            "on: push\njobs:\n  a:\n    runs-on: ubuntu-latest\n    strategy:\n      matrix:\n        x: [1, 1, 2, 2]\n        y: [{a: 1, b: 2}, {b: 2, a: 1}]\n        include:\n          - x: 1\n            w: 2\n        exclude:\n          - nope: 1\n            nada: 2\n          - x: 3\n            y: 4\n    steps:\n      - run: echo\n",
	"webhook-types":                "on:\n  issues:\n    types: [bogus, nope]\n  pull_request:\n    types: [wrong]\n    branches: ['[', 'a b']\n  bogus_event:\n  workflow_dispatch:\n    inputs:\n      a:\n        type: choice\n      b:\n        type: nope\n        options: [x]\njobs:\n  a:\n    runs-on: ubuntu-latest\n    steps:\n      - run: echo ${{ inputs.a }} ${{ inputs.zzz }} ${{ github.event.inputs.qqq }}\n",
	"shell-names":                  "on: push\ndefaults:\n  run:\n    shell: nosuch\njobs:\n  a:\n    runs-on: windows-latest\n    defaults:\n      run:\n        shell: zsh\n    steps:\n      - run: echo\n        shell: fish\n      - run: echo\n  b:\n    runs-on: [ubuntu-latest, windows-latest]\n    steps:\n      - run: echo\n        shell: cmd\n",
	"with-unknown-inputs":          "on: push\njobs:\n  a:\n    runs-on: ubuntu-latest\n    steps:\n      - uses: actions/checkout@v4\n        with:\n          bogus_one: 1\n          bogus_two: 2\n          BOGUS_three: 3\n      - uses: actions/cache@v4\n",
	"deprecated+ifcond":            "on: push\njobs:\n  a:\n    runs-on: ubuntu-latest\n    if: ${{ true }} && false\n    steps:\n      - run: |\n          echo '::set-output name=a::b'\n          echo '::save-state name=a::b'\n          echo '::set-env name=a::b'\n          echo '::add-path::b'\n        if: ${{ false }} || true\n",
	"credentials+container":        "on: push\njobs:\n  a:\n    runs-on: ubuntu-latest\n    container:\n      image: x\n      credentials:\n        username: u\n        password: plain\n    services:\n      s1:\n        image: y\n        credentials:\n          username: u\n          password: plain\n      s2:\n        image: z\n        credentials:\n          username: u\n          password: plain2\n    steps:\n      - run: echo\n",
	"matrix-include-type-merge":    "on: push\njobs:\n  a:\n    runs-on: ubuntu-latest\n    strategy:\n      matrix:\n        include:\n          - ${{ env }}\n          - ${{ fromJSON('{\"a\":1,\"b\":true,\"c\":\"x\",\"d\":null}') }}\n          - ${{ vars }}\n          - ${{ fromJSON('{\"a\":\"s\",\"e\":[1],\"f\":{\"g\":1}}') }}\n          - a: 1.5\n            h: {i: j}\n    steps:\n      - run: echo ${{ matrix.zz.yy }} ${{ matrix.a.b }} ${{ matrix.e.f }} ${{ matrix.f.g.h }} ${{ matrix.h.i.j }} ${{ toJSON(matrix) == 1 }}\n",
	"fromjson-case-colliding-keys": "on: push\njobs:\n  a:\n    runs-on: ubuntu-latest\n    steps:\n      - run: |\n          echo ${{ fromJSON('{\"Cfg\": 1, \"cfg\": true, \"CFG\": \"s\"}').cfg.x }} ${{ fromJSON('{\"A\": {\"p\": 1}, \"a\": [1], \"á\": null, \"a\": {\"q\": true}}').a.r }} ${{ fromJSON('[{\"K\": 1, \"k\": \"s\", \"k\": [true]}]')[0].k.z }}\n",
	// a line break ESCAPED in a double-quoted scalar: the position of a diagnostic inside it is computed
	// as if the break were in the source, and lands on the position of the next entry's diagnostic
	"escaped-line-break-tie":      "on: push\njobs:\n  t:\n    runs-on: ubuntu-latest\n    env:\n      A: \"${{\\nfoo }}\"\n      B: ${{ bar }}\n    steps:\n      - run: echo\n",
	"escaped-line-break-tie-with": "on: push\njobs:\n  t:\n    runs-on: ubuntu-latest\n    steps:\n      - uses: actions/checkout@v4\n        with:\n          ref: \"${{\\nfoo }}\"\n          key: ${{ bar }}\n",
	// the same text as a ref filter and as a path filter, valid as one and not as the other
	"filter-text-shared-by-refs-and-paths": "on:\n  push:\n    branches: ['docs/', '/src', 'a b', 'ok']\n    paths: ['docs/', '/src', 'a b', 'ok']\n  pull_request:\n    paths-ignore: ['docs/', 'x~y']\n    tags-ignore: ['x~y', 'docs/']\njobs:\n  a:\n    runs-on: ubuntu-latest\n    steps:\n      - run: echo\n",
	// inputs of workflow_dispatch (kept in a Go map) whose values refer to each other
	"dispatch-inputs-referring-to-each-other": "on:\n  workflow_dispatch:\n    inputs:\n      environment:\n        type: string\n        default: ${{ inputs.region }}-${{ inputs.tier }}\n      region:\n        type: string\n        description: ${{ inputs.environment }} ${{ github.event.inputs.tier }}\n      tier:\n        type: choice\n        options: ['${{ inputs.region }}', b]\n        default: ${{ inputs.environment }}\njobs:\n  a:\n    runs-on: ubuntu-latest\n    steps:\n      - run: echo ${{ inputs.region }}\n",
	"workflow-call-self":                      "on:\n  workflow_call:\n    inputs:\n      a:\n        type: string\n      b:\n        type: number\n        required: true\n    secrets:\n      s:\n        required: true\n    outputs:\n      o1:\n        value: ${{ jobs.a.outputs.nope }}\n      o2:\n        value: ${{ jobs.nope.outputs.x }}\njobs:\n  a:\n    runs-on: ubuntu-latest\n    outputs:\n      x: y\n    steps:\n      - run: echo ${{ inputs.zzz }} ${{ secrets.qqq }}\n",
}

// project-based collision inputs (paths relative to the tree root of C10's layout)
var c02Tree = map[string]string{
	// a second repository with another configuration, and a file outside any repository in a
	// directory above both
	// a repository whose configuration has several defects at once: which one the fatal error names
	// must not depend on map order
	"badcfg/.git/HEAD":               "ref: refs/heads/main\n",
	"badcfg/.github/actionlint.yaml": "paths:\n  '[a':\n    ignore: []\n  '[b':\n    ignore: []\n  '[c':\n    ignore: []\n",
	"badcfg/.github/workflows/w.yml": "on: push\njobs:\n  a:\n    runs-on: ubuntu-latest\n    steps:\n      - run: echo\n",
	// jobs written in flow style on ONE line (their positions differ in the column only), sharing a broken local action
	"p/.github/workflows/same-line-jobs.yml":         "on: push\njobs: {zjob: {runs-on: ubuntu-latest, steps: [{uses: ./.github/actions/broken}]}, ajob: {runs-on: ubuntu-latest, steps: [{uses: ./.github/actions/broken}, {uses: ./.github/actions/req}]}, mjob: {runs-on: nosuchlabel, steps: [{uses: ./.github/actions/req}]}}\n",
	"p/.github/workflows/not-yaml.yml":               "on: push\njobs: [\n",
	"q/.git/HEAD":                                    "ref: refs/heads/main\n",
	"q/.github/actionlint.yaml":                      "self-hosted-runner:\n  labels:\n    - qqq\nconfig-variables:\n  - QVAR\n",
	"q/.github/workflows/other.yml":                  "on: push\njobs:\n  a:\n    runs-on: qqq\n    steps:\n      - run: echo ${{ vars.QVAR }} ${{ vars.ZZZ }}\n  b:\n    runs-on: zzz\n    steps:\n      - run: echo\n",
	"top.yml":                                        "on: push\njobs:\n  a:\n    runs-on: zzz\n    steps:\n      - run: echo ${{ vars.ANY }}\n",
	"p/.git/HEAD":                                    "ref: refs/heads/main\n",
	"p/.github/actionlint.yaml":                      "self-hosted-runner:\n  labels:\n    - zzz\n    - aaa\nconfig-variables:\n  - ZZZ\n  - AAA\n",
	"p/.github/actions/broken/action.yml":            "name: [broken\n",
	"p/.github/actions/req/action.yml":               "name: req\ndescription: d\ninputs:\n  zeta:\n    required: true\n  alpha:\n    required: true\n  mid:\n    required: true\nruns:\n  using: node20\n  main: index.js\n",
	"p/.github/actions/req/index.js":                 "",
	"p/.github/workflows/callee.yml":                 "on:\n  workflow_call:\n    inputs:\n      zeta:\n        type: string\n        required: true\n      alpha:\n        type: string\n        required: True\n    secrets:\n      zs:\n        required: TRUE\n      as:\n        required: true\njobs:\n  j:\n    runs-on: ubuntu-latest\n    steps:\n      - run: echo\n",
	"p/.github/workflows/two-jobs-broken-action.yml": "on: push\njobs:\n  zjob:\n    runs-on: ubuntu-latest\n    steps:\n      - uses: ./.github/actions/broken\n  ajob:\n    runs-on: ubuntu-latest\n    steps:\n      - uses: ./.github/actions/broken\n  mjob:\n    uses: ./.github/workflows/missing.yml\n  njob:\n    uses: ./.github/workflows/missing.yml\n",
	"p/.github/workflows/missing-required.yml":       "on: push\njobs:\n  a:\n    runs-on: ubuntu-latest\n    steps:\n      - uses: ./.github/actions/req\n      - run: echo ${{ vars.NOPE }}\n  c:\n    uses: ./.github/workflows/callee.yml\n  d:\n    uses: ./.github/workflows/callee.yml\n    with:\n      bogus1: 1\n      bogus2: 2\n    secrets:\n      bogus3: x\n      bogus4: y\n",
	// run: steps for the tool integrations; in the scenarios that lint them every tool process fails
	// (exit status 2, no output): WHICH failure the fatal error names must not depend on the schedule
	"p/.github/workflows/tools-a.yml": "on: push\njobs:\n  a:\n    runs-on: ubuntu-latest\n    steps:\n      - run: echo a\n      - run: x = 1\n        shell: python\n      - run: echo b\n        shell: sh\n",
	"p/.github/workflows/tools-b.yml": "on: push\njobs:\n  b:\n    runs-on: ubuntu-latest\n    steps:\n      - run: echo c\n",
	"p/.github/workflows/tools-c.yml": "on: push\njobs:\n  c:\n    runs-on: ubuntu-latest\n    steps:\n      - run: echo d\n      - run: echo e\n",
	"p/.github/workflows/second.yml":  "on: push\njobs:\n  a:\n    runs-on: ubuntu-latest\n    steps:\n      - uses: ./.github/actions/broken\n      - uses: ./.github/actions/req\n  c:\n    uses: ./.github/workflows/missing.yml\n",
}

type c02Input struct {
	Name string
	Path string // "" = lint src as <stdin>; else LintFile(path)
	Src  string
}

// c02Observe renders everything the property calls "the result": output bytes in the default
// format, the returned list, and the error.
func c02Observe(in *c02Input, root string) string {
	var out bytes.Buffer
	l, err := NewLinter(&out, &LinterOptions{WorkingDir: root})
	if err != nil {
		return "newlinter: " + err.Error()
	}
	var errs []*Error
	if in.Path == "" {
		errs, err = l.Lint("<stdin>", []byte(in.Src), nil)
	} else {
		errs, err = l.LintFile(in.Path, nil)
	}
	var b strings.Builder
	for _, e := range errs {
		fmt.Fprintf(&b, "%s:%d:%d: %s [%s]\n", e.Filepath, e.Line, e.Column, e.Message, e.Kind)
	}
	if err != nil {
		b.WriteString("ERR " + err.Error() + "\n")
	}
	b.WriteString("--- output\n")
	b.Write(out.Bytes())
	// the same input through a custom -format template that also lists the rule kinds
	var out2 bytes.Buffer
	l2, err := NewLinter(&out2, &LinterOptions{WorkingDir: root, Format: "{{range $e := .}}{{$e.Filepath}}:{{$e.Line}}:{{$e.Column}}:{{$e.Kind}}:{{json $e.Message}}{{end}}kinds={{range $k := allKinds}}{{$k.Name}},{{end}}\n"})
	if err == nil {
		if in.Path == "" {
			_, err = l2.Lint("<stdin>", []byte(in.Src), nil)
		} else {
			_, err = l2.LintFile(in.Path, nil)
		}
	}
	b.WriteString("--- format\n")
	b.Write(out2.Bytes())
	if err != nil {
		b.WriteString("ERR " + err.Error() + "\n")
	}
	return b.String()
}

func c02FirstDiff(a, b string) string {
	la, lb := strings.Split(a, "\n"), strings.Split(b, "\n")
	for i := 0; i < len(la) && i < len(lb); i++ {
		if la[i] != lb[i] {
			return fmt.Sprintf("line %d: identity order prints %q, this order prints %q", i+1, vTrunc(la[i], 260), vTrunc(lb[i], 260))
		}
	}
	return fmt.Sprintf("outputs have %d vs %d lines", len(la), len(lb))
}

var c02HeaderPosRe = regexp.MustCompile(`^([^:\s]+:\d+:\d+):`)

// c02TieSwap reports whether two outputs hold the same lines and first differ at two header lines
// that carry the same file:line:column (two diagnostics the position order cannot tell apart,
// printed in the other order).
func c02TieSwap(a, b string) bool {
	la, lb := strings.Split(a, "\n"), strings.Split(b, "\n")
	if len(la) != len(lb) {
		return false
	}
	sa, sb := append([]string{}, la...), append([]string{}, lb...)
	sort.Strings(sa)
	sort.Strings(sb)
	if strings.Join(sa, "\n") != strings.Join(sb, "\n") {
		return false
	}
	for i := range la {
		if la[i] != lb[i] {
			ma, mb := c02HeaderPosRe.FindStringSubmatch(la[i]), c02HeaderPosRe.FindStringSubmatch(lb[i])
			return ma != nil && mb != nil && ma[1] == mb[1]
		}
	}
	return false
}

// c02TimeZones: the time zone of the machine is not an input: scheduled events are judged the same
// wherever the linter runs (time.Local is set by the harness; cases run sequentially).
func c02TimeZones(r *vReport) {
	crons := []string{"0,2 0 * * *", "58,59 23 * * *", "*/7 3 * * *", "0 0 * * *", "1,3 12 1 1 *", "*/4 * * * *", "0,1 0,9,15,19 * * *"}
	saved := time.Local
	defer func() { time.Local = saved }()
	zones := []*time.Location{time.UTC, time.FixedZone("east9", 9*3600), time.FixedZone("west5", -5*3600), time.FixedZone("nepal", 5*3600+45*60), time.FixedZone("west11", -11*3600), time.FixedZone("east14", 14*3600)}
	for _, c := range crons {
		src := "on:\n  schedule:\n    - cron: '" + c + "'\njobs:\n  a:\n    runs-on: ubuntu-latest\n    steps:\n      - run: echo\n"
		var first string
		for zi, z := range zones {
			time.Local = z
			res := vLint(src, nil)
			r.Evaluations++
			r.Transitions++
			r.Validated++
			obs := strings.Join(vDiagStrings(res.Errs), "\n")
			if zi == 0 {
				first = obs
			} else if obs != first {
				r.Violation("time-zone", fmt.Sprintf("cron %q: diagnostics differ between a machine in UTC and one in zone %s\n UTC: %s\n %s: %s", c, z, first, z, obs), map[string]any{"time_zone": true, "choices": []int{}})
			}
		}
		r.Class("time zone / cron "+c, first != "")
	}
}

func TestVerifC02(t *testing.T) {
	r := vNewReport("C02")
	defer r.Write(t)
	repo := os.Getenv("VERIF_REPO")
	if repo == "" {
		repo = "/repo"
	}
	devCollision, devBreadth, maxPreempt, histDepth := 2, 1, 2, 2
	if vThorough() {
		devCollision, devBreadth, maxPreempt, histDepth = 3, 2, 3, 3
	}
	r.Bounds["map_order_deviations_collision_corpus"] = devCollision
	r.Bounds["map_order_deviations_breadth_corpus"] = devBreadth
	r.Bounds["preemptions"] = maxPreempt
	r.Bounds["history_depth"] = histDepth
	r.Extra["rule"] = "inputs = collision corpus (same-position / several-candidate diagnostics) + every workflow under testdata/examples|ok|err + project files; per input every execution with <= D non-identity iteration orders over all range-over-map sites (all k! orders for k<=4 keys, identity/reverse/rotations otherwise) must print the identity execution's bytes, and so must a second identical run (default format with snippets, returned list, and a custom -format template listing all rule kinds); multi-file LintFiles runs: all interleavings up to the preemption bound must print identical bytes; histories: each call on a reused Linter equals the call on a fresh one; 7 cron schedules under 6 machine time zones. class = (input, number of distinct outputs); non-trivial = input whose diagnostics include two at one position or that reaches >= 5 map-order sites"
	r.Extra["assumptions"] = []string{"map iteration inside third-party packages (yaml.v3, doublestar, cron) is not controlled", "GOMAXPROCS / repeated runs are covered through interleavings and iteration orders under data-race freedom"}
	sites := vLoadSites()
	siteName := func(id int) string {
		for _, s := range sites {
			if s.ID == id {
				return fmt.Sprintf("%s:%d", s.File, s.Line)
			}
		}
		return fmt.Sprintf("site%d", id)
	}
	siteExpr := func(id int) string {
		for _, s := range sites {
			if s.ID == id {
				return s.Expr
			}
		}
		return ""
	}
	if r.Shard == 0 && vReplayInput() == nil {
		c02Comparators(r)
		c02TimeZones(r)
	}
	root := vTempDir(t, "c02-")
	vWriteFiles(t, root, c02Tree)

	var inputs []*c02Input
	for _, k := range vSortedKeys(c02Collision) {
		inputs = append(inputs, &c02Input{Name: "collision/" + k, Src: c02Collision[k]})
	}
	for _, f := range []string{"two-jobs-broken-action.yml", "missing-required.yml", "same-line-jobs.yml"} {
		inputs = append(inputs, &c02Input{Name: "collision/project/" + f, Path: filepath.Join(root, "p/.github/workflows", f)})
	}
	inputs = append(inputs, &c02Input{Name: "collision/project/config-with-three-invalid-globs", Path: filepath.Join(root, "badcfg/.github/workflows/w.yml")})
	nCollision := len(inputs)
	for _, g := range []string{"testdata/examples/*.yaml", "testdata/ok/*.yaml", "testdata/err/*.yaml"} {
		m, _ := filepath.Glob(filepath.Join(repo, g))
		sort.Strings(m)
		for _, f := range m {
			b, err := os.ReadFile(f)
			if err != nil {
				r.HarnessError("%v", err)
				return
			}
			inputs = append(inputs, &c02Input{Name: strings.TrimPrefix(f, repo+"/"), Src: string(b)})
		}
	}
	if len(inputs) < 200 {
		r.HarnessError("breadth corpus too small: %d inputs", len(inputs))
	}

	var replay struct {
		Input    string   `json:"input"`
		Scenario string   `json:"scenario"`
		Choices  []int    `json:"choices"`
		History  []string `json:"history"`
		Procs    bool     `json:"processors"`
		Repeat   bool     `json:"repeat"`
	}
	isReplay := false
	if raw := vReplayInput(); raw != nil {
		if err := jsonUnmarshal(raw, &replay); err != nil {
			t.Fatal(err)
		}
		isReplay = true
		var cmp struct {
			Comparator string `json:"comparator"`
		}
		var tz struct {
			TZ bool `json:"time_zone"`
		}
		if jsonUnmarshal(raw, &tz) == nil && tz.TZ {
			c02TimeZones(r)
			c02TimeZones(r)
			return
		}
		if jsonUnmarshal(raw, &cmp) == nil && cmp.Comparator != "" {
			c02Comparators(r)
			c02Comparators(r)
			return
		}
	}

	// ---- (1) map orders
	sitesTouched := map[int]int64{}
	for i, in := range inputs {
		if isReplay {
			if replay.Input != in.Name {
				continue
			}
			if replay.Repeat {
				_, o1 := vsched.Replay(vsched.Config{}, nil, func(x *vsched.Exec) string { return c02Observe(in, root) })
				_, o2 := vsched.Replay(vsched.Config{}, nil, func(x *vsched.Exec) string { return c02Observe(in, root) })
				fmt.Printf("replay: first and second run equal=%v\n%s\n", o1 == o2, c02FirstDiff(o1, o2))
				// (the first run of THIS process; earlier runs of the failing process may be needed to differ)
				if o1 != o2 {
					r.Violation("repeat", c02FirstDiff(o1, o2), map[string]any{"input": in.Name, "repeat": true, "choices": []int{}})
				}
				r.Class("replay", true)
				continue
			}
			cfg := vsched.Config{MaxDev: 99}
			var ident string
			for k := 0; k < 2; k++ {
				_, ident = vsched.Replay(cfg, nil, func(x *vsched.Exec) string { return c02Observe(in, root) })
				x, obs := vsched.Replay(cfg, replay.Choices, func(x *vsched.Exec) string { return c02Observe(in, root) })
				fmt.Printf("replay %d: deviations=%v equal=%v\n%s\n", k, x.Deviations(), obs == ident, c02FirstDiff(ident, obs))
				if obs != ident {
					key := "map-order:" + siteName(x.Deviations()[0][0])
					if c02TieSwap(ident, obs) {
						key = "map-order:equal-position-tie:" + siteExpr(x.Deviations()[0][0])
					}
					r.Violation(key, c02FirstDiff(ident, obs), map[string]any{"input": in.Name, "choices": replay.Choices})
				}
			}
			r.Class("replay", true)
			continue
		}
		if !r.Mine(int64(i)) {
			continue
		}
		if r.Expired() {
			break
		}
		// the same input linted twice in a row, with a fresh Linter each time (default order everywhere):
		// nothing may be remembered from one run to the next
		{
			_, o1 := vsched.Replay(vsched.Config{}, nil, func(x *vsched.Exec) string { return c02Observe(in, root) })
			_, o2 := vsched.Replay(vsched.Config{}, nil, func(x *vsched.Exec) string { return c02Observe(in, root) })
			r.Transitions += 2
			if o1 != o2 {
				r.Violation("repeat", fmt.Sprintf("input %s: the second of two identical runs (fresh Linter values) prints different bytes: %s", in.Name, c02FirstDiff(o1, o2)), map[string]any{"input": in.Name, "repeat": true, "choices": []int{}})
			}
		}
		dev := devBreadth
		if i < nCollision {
			dev = devCollision
		} else if dev > 1 {
			// the deeper bound is applied to breadth inputs whose bound-1 exploration is small
			// (<= 400 executions); larger inputs stay at bound 1 (recorded per input in the classes)
			probe := vsched.Explore(vsched.Config{MaxDev: 1}, func(x *vsched.Exec) string { return c02Observe(in, root) })
			if probe.Execs > 400 {
				dev = 1
			}
		}
		var ident string
		first := true
		badPrefix := map[string]bool{}
		cfg := vsched.Config{MaxDev: dev, MaxPreempt: 0}
		res := vExploreMap(r, in.Name, cfg, func(x *vsched.Exec) string {
			o := c02Observe(in, root)
			if first {
				ident, first = o, false
			}
			return o
		}, func(x *vsched.Exec, obs string) string {
			if obs == ident {
				return ""
			}
			d := x.Deviations()
			names := []string{}
			for _, s := range d {
				names = append(names, siteName(s[0]))
			}
			// attribute to the smallest culprit: executions are explored prefix-first, so when the
			// same deviations minus the last one already differed, that shorter set is the culprit
			cul := len(d) - 1
			if len(d) > 1 && badPrefix[fmt.Sprint(d[:len(d)-1])] {
				badPrefix[fmt.Sprint(d)] = true
				return "" // already reported for the shorter deviation set
			}
			badPrefix[fmt.Sprint(d)] = true
			key := "map-order:" + names[cul]
			if c02TieSwap(ident, obs) {
				// two diagnostics of one rule at ONE position, found in map order: the final (stable)
				// sort by position keeps the order of arrival
				key = "map-order:equal-position-tie:" + siteExpr(d[cul][0])
			}
			return key + "\x00" + fmt.Sprintf("input %s: output depends on the iteration order of %s at %s (deviating sites %v): %s", in.Name, siteExpr(d[cul][0]), names[cul], names, c02FirstDiff(ident, obs))
		}, map[string]any{"input": in.Name})
		for s, n := range res.MapSites {
			sitesTouched[s] += n
		}
		if i < nCollision && strings.Contains(ident, "could not parse as YAML") {
			// a collision input that is not YAML reaches no rule at all
			r.HarnessError("collision input %s is not valid YAML: %s", in.Name, vTrunc(ident, 300))
		}
		samePos := false
		seen := map[string]bool{}
		for _, l := range strings.Split(ident, "\n") {
			if j := strings.Index(l, ": "); j > 0 && !strings.HasPrefix(l, "---") {
				if seen[l[:j]] {
					samePos = true
				}
				seen[l[:j]] = true
			}
		}
		r.Class(fmt.Sprintf("%s outputs=%d dev=%d", in.Name, len(res.Outcomes), dev), samePos || len(res.MapSites) >= 5)
		if i%40 == 0 {
			r.Sample(map[string]any{"input": in.Name, "executions": res.Execs, "map_sites_reached": len(res.MapSites), "distinct_outputs": len(res.Outcomes), "deviation_bound": dev})
		}
	}
	st := map[string]int64{}
	for s, n := range sitesTouched {
		st[siteName(s)] = n
	}
	r.Extra["map_sites_reached_this_shard"] = len(st)

	// ---- (2) interleavings of multi-file runs
	files := []string{"two-jobs-broken-action.yml", "missing-required.yml", "second.yml", "callee.yml", "../../../q/.github/workflows/other.yml", "../../../top.yml", "does-not-exist-1.yml", "does-not-exist-2.yml", "tools-a.yml", "tools-b.yml", "tools-c.yml"}
	var idx int64
	for _, order := range [][]int{{0, 2}, {2, 0}, {1, 2, 3}, {3, 1}, {2, 1, 0}, {1, 4}, {4, 1}, {5, 1, 4}, {5, 4}, {6, 7}, {7, 2, 6}, {8}, {10, 9}} { // 8..10: files with run: steps, linted with both tool integrations on, every tool process failing // 6, 7: files that cannot be read (which one does the fatal error name?)
		identByCPUs := map[int]string{}
		for _, cpus := range []int{1, 2} {
			idx++
			var paths []string
			var names []string
			for _, k := range order {
				paths = append(paths, filepath.Join(root, "p/.github/workflows", files[k]))
				names = append(names, files[k])
			}
			name := fmt.Sprintf("multifile|%s|cpus=%d", strings.Join(names, ","), cpus)
			if isReplay && replay.Scenario != name {
				continue
			}
			if r.Expired() {
				break
			}
			withTools := false
			for _, k := range order {
				withTools = withTools || k >= 8
			}
			body := func(x *vsched.Exec) string {
				var out bytes.Buffer
				opts := &LinterOptions{WorkingDir: root}
				if withTools {
					opts.Shellcheck, opts.Pyflakes = "shellcheck", "pyflakes"
					vexec.LookPathFn = func(file string) (string, error) { return "/fake/" + file, nil }
					vexec.Handler = func(name string, args []string) vexec.Outcome {
						return vexec.Outcome{ExitCode: 2, Stderr: []byte("boom")}
					}
					defer func() { vexec.LookPathFn, vexec.Handler = nil, nil }()
				}
				l, err := NewLinter(&out, opts)
				if err != nil {
					panic(err)
				}
				errs, err := l.LintFiles(paths, nil)
				var b strings.Builder
				for _, e := range errs {
					fmt.Fprintf(&b, "%s:%d:%d: %s [%s]\n", e.Filepath, e.Line, e.Column, e.Message, e.Kind)
				}
				if err != nil {
					b.WriteString("ERR " + err.Error() + "\n")
				}
				b.Write(out.Bytes())
				return b.String()
			}
			var ident string
			first := true
			cfg := vsched.Config{MaxPreempt: maxPreempt, MaxDev: 0, DevSites: map[int]bool{}, NumCPU: cpus}
			if isReplay && replay.Procs {
				c1 := cfg
				c1.NumCPU = 1
				for k := 0; k < 2; k++ {
					_, o1 := vsched.Replay(c1, nil, body)
					_, o2 := vsched.Replay(cfg, nil, body)
					fmt.Printf("replay %d: 1 processor vs %d processors equal=%v %s\n", k, cpus, o1 == o2, c02FirstDiff(o1, o2))
					if o1 != o2 {
						r.Violation("processors:"+c02SchedClass(o1, o2), c02FirstDiff(o1, o2), map[string]any{"scenario": name, "choices": []int{}, "processors": true})
					}
				}
				continue
			}
			if isReplay {
				for k := 0; k < 2; k++ {
					_, ident = vsched.Replay(cfg, nil, body)
					x, obs := vsched.Replay(cfg, replay.Choices, body)
					fmt.Printf("replay %d: equal=%v %s\ntrace:\n  %s\n", k, obs == ident, c02FirstDiff(ident, obs), strings.Join(x.Trace(), "\n  "))
					if obs != ident {
						r.Violation("schedule:"+c02SchedClass(ident, obs), c02FirstDiff(ident, obs), map[string]any{"scenario": name, "choices": replay.Choices})
					}
				}
				continue
			}
			res := vExplore(r, &vScenario{Name: name, Cfg: cfg,
				Body: func(x *vsched.Exec) string {
					o := body(x)
					if first {
						ident, first = o, false
					}
					return o
				},
				Check: func(x *vsched.Exec, obs string) string {
					if obs == ident {
						return ""
					}
					return "schedule:" + c02SchedClass(ident, obs) + "\x00" + "multi-file run prints different bytes under another interleaving: " + c02FirstDiff(ident, obs)
				}})
			r.Class(fmt.Sprintf("%s outputs=%d", name, len(res.Outcomes)), true)
			r.Sample(map[string]any{"scenario": name, "executions": res.Execs, "pruned": res.Pruned, "distinct_outputs": len(res.Outcomes), "threads": res.MaxThreads})
			identByCPUs[cpus] = ident
			// the number of processors (runtime.NumCPU / GOMAXPROCS, both answered by the scenario)
			// is not an input: the default schedule prints the same bytes for 1 and 2
			if o1, ok := identByCPUs[1]; ok && cpus == 2 && r.Shard == 0 && o1 != ident {
				r.Violation("processors:"+c02SchedClass(o1, ident), "multi-file run prints different bytes with 1 and with 2 processors (default schedule): "+c02FirstDiff(o1, ident), map[string]any{"scenario": name, "choices": []int{}, "processors": true})
			}
		}
	}

	// ---- (3) histories: a reused Linter answers like a fresh one
	if isReplay && len(replay.History) == 0 {
		return
	}
	type call struct {
		name string
		run  func(l *Linter) ([]*Error, error)
	}
	p := func(f string) string { return filepath.Join(root, "p/.github/workflows", f) }
	calls := []call{
		{"Lint(stdin)", func(l *Linter) ([]*Error, error) {
			return l.Lint("<stdin>", []byte(c02Collision["undefined-things"]), nil)
		}},
		{"LintFile(missing-required)", func(l *Linter) ([]*Error, error) { return l.LintFile(p("missing-required.yml"), nil) }},
		{"LintFile(second)", func(l *Linter) ([]*Error, error) { return l.LintFile(p("second.yml"), nil) }},
		{"LintFiles(second,callee)", func(l *Linter) ([]*Error, error) {
			return l.LintFiles([]string{p("second.yml"), p("callee.yml")}, nil)
		}},
		{"LintFile(not-yaml)", func(l *Linter) ([]*Error, error) { return l.LintFile(p("not-yaml.yml"), nil) }},
	}
	render := func(errs []*Error, err error, out string) string {
		var b strings.Builder
		for _, e := range errs {
			fmt.Fprintf(&b, "%s:%d:%d: %s [%s]\n", e.Filepath, e.Line, e.Column, e.Message, e.Kind)
		}
		if err != nil {
			b.WriteString("ERR " + err.Error())
		}
		return b.String() + "---\n" + out
	}
	// two option sets: default output, and a -format template that also lists the known rule kinds
	histFormat := "{{range $e := .}}{{$e.Filepath}}:{{$e.Line}}:{{$e.Column}}:{{$e.Kind}}\n{{end}}kinds={{range $k := allKinds}}{{$k.Name}},{{end}}\n"
	for _, withFormat := range []bool{false, true} {
		hopts := func() *LinterOptions {
			if withFormat {
				return &LinterOptions{WorkingDir: root, Format: histFormat}
			}
			return &LinterOptions{WorkingDir: root}
		}
		fresh := map[string]string{}
		for _, c := range calls {
			var out bytes.Buffer
			l, _ := NewLinter(&out, hopts())
			errs, err := c.run(l)
			fresh[c.name] = render(errs, err, out.String())
		}
		var seqs [][]int
		var gen func(prefix []int, d int)
		gen = func(prefix []int, d int) {
			if len(prefix) > 0 {
				seqs = append(seqs, append([]int{}, prefix...))
			}
			if d == 0 {
				return
			}
			for i := range calls {
				gen(append(prefix, i), d-1)
			}
		}
		gen(nil, histDepth)
		for si, seq := range seqs {
			if !r.Mine(int64(si)) && !isReplay {
				continue
			}
			var names []string
			for _, k := range seq {
				names = append(names, calls[k].name)
			}
			if isReplay && strings.Join(names, ";") != strings.Join(replay.History, ";") {
				continue
			}
			var out bytes.Buffer
			l, _ := NewLinter(&out, hopts())
			for step, k := range seq {
				out.Reset()
				errs, err := calls[k].run(l)
				got := render(errs, err, out.String())
				r.Evaluations++
				r.Transitions++
				r.Validated++
				if got != fresh[calls[k].name] {
					hkey := "history:" + calls[k].name
					if withFormat {
						hkey = "history-with-format:" + c02HistClass(fresh[calls[k].name], got)
					}
					r.Violation(hkey, fmt.Sprintf("call %d (%s) of history %v on a reused Linter differs from the same call on a fresh Linter: %s", step+1, calls[k].name, names, c02FirstDiff(fresh[calls[k].name], got)), map[string]any{"history": names})
				}
			}
			r.Class(fmt.Sprintf("history len=%d format=%v", len(seq), withFormat), len(seq) > 1)
		}
	}
}

// c02HistClass: "kinds-list-only" when the two renderings differ in nothing but the line that
// lists the rule kinds known to the formatter, else "other".
func c02HistClass(a, b string) string {
	strip := func(s string) string {
		var out []string
		for _, l := range strings.Split(s, "\n") {
			if !strings.HasPrefix(l, "kinds=") {
				out = append(out, l)
			}
		}
		return strings.Join(out, "\n")
	}
	if strip(a) == strip(b) {
		return "kinds-list-only"
	}
	return "other"
}

// c02SchedClass classifies a schedule-dependent difference: "shared-callee-defect-reporter" when
// the only lines that differ are once-per-run defects of a shared local action / reusable workflow
// (which file or rule reports them), otherwise the diagnostic kinds that moved.
var c02SnippetLineRe = regexp.MustCompile(`^ *\d* *\|( .*)?$`)

func c02SchedClass(a, b string) string {
	la, lb := strings.Split(a, "\n"), strings.Split(b, "\n")
	cnt := map[string]int{}
	for _, l := range la {
		cnt[l]++
	}
	for _, l := range lb {
		cnt[l]--
	}
	kinds := map[string]bool{}
	onlyCallee := true
	any := false
	for l, n := range cnt {
		if n == 0 {
			continue
		}
		any = true
		callee := false
		for _, frag := range []string{"could not parse action metadata in", "could not read reusable workflow file for", "error while parsing reusable workflow", "is required in metadata of", "is required in action metadata"} {
			if strings.Contains(l, frag) {
				callee = true
			}
		}
		// the snippet lines printed below a diagnostic move with it; every other differing line
		// (another diagnostic, the text of a fatal error, ...) is not covered by that class
		if !callee && !c02SnippetLineRe.MatchString(l) && l != "" {
			onlyCallee = false
		}
		if strings.HasPrefix(l, "ERR ") {
			kinds["fatal-error-text"] = true
		} else if i := strings.LastIndex(l, "["); i >= 0 && strings.HasSuffix(l, "]") {
			kinds[l[i+1:len(l)-1]] = true
		}
	}
	if !any {
		return "order-only"
	}
	if onlyCallee {
		return "shared-callee-defect-reporter"
	}
	ks := make([]string, 0, len(kinds))
	for k := range kinds {
		ks = append(ks, k)
	}
	sort.Strings(ks)
	return strings.Join(ks, "+")
}

// vExploreMap runs a map-order exploration (no threads) and folds it into the report.
func vExploreMap(r *vReport, name string, cfg vsched.Config, body func(x *vsched.Exec) string, check func(x *vsched.Exec, obs string) string, replay map[string]any) *vsched.Result {
	if !r.deadline.IsZero() {
		cfg.Deadline = r.deadline
	}
	cfg.Check = check
	res := vsched.Explore(cfg, func(x *vsched.Exec) string {
		r.Begin(func() string { return "map-order exploration of " + name + " (execution in progress)" })
		return body(x)
	})
	if res.HarnessErr != "" {
		r.HarnessError("%s: %s", name, vTrunc(res.HarnessErr, 1500))
	}
	r.Evaluations += res.Execs
	r.Transitions += res.Execs
	r.Validated += res.Execs
	if !res.Exhaustive {
		r.Exhaustive = false
		r.Caps = append(r.Caps, fmt.Sprintf("%s stopped by %s after %d executions", name, res.Cap, res.Execs))
	}
	for _, v := range res.Violations {
		key, msg := vMonitorKey(v.Msg), v.Msg
		if i := strings.Index(v.Msg, "\x00"); i >= 0 {
			key, msg = v.Msg[:i], v.Msg[i+1:]
		}
		rp := map[string]any{"choices": v.Choices}
		for k, val := range replay {
			rp[k] = val
		}
		r.Violation(key, vTrunc(msg, 900), rp)
	}
	return res
}

// c02Comparators checks, over a complete small grid, that the two position comparators used to
// order map-derived data are strict orders: otherwise the result of sorting / of picking the
// minimum depends on the arrival (map iteration) order.
func c02Comparators(r *vReport) {
	var ps []*Pos
	for l := 1; l <= 3; l++ {
		for c := 1; c <= 3; c++ {
			ps = append(ps, &Pos{Line: l, Col: c})
		}
	}
	ref := func(a, b *Pos) bool { return a.Line < b.Line || a.Line == b.Line && a.Col < b.Col }
	for _, a := range ps {
		for _, b := range ps {
			r.Evaluations++
			r.Transitions++
			r.Validated++
			if got, want := a.IsBefore(b), ref(a, b); got != want {
				r.Violation("comparator:Pos.IsBefore", fmt.Sprintf("Pos.IsBefore is not the (line, column) order: (%v).IsBefore(%v) = %v, expected %v; minimum selection and sorting of map-derived positions then depend on the iteration order", a, b, got, want), map[string]any{"comparator": "Pos.IsBefore", "a": []int{a.Line, a.Col}, "b": []int{b.Line, b.Col}})
			}
		}
	}
	var es []*Error
	for _, f := range []string{"a", "b"} {
		for l := 1; l <= 2; l++ {
			for c := 1; c <= 2; c++ {
				es = append(es, &Error{Filepath: f, Line: l, Column: c})
			}
		}
	}
	for i := range es {
		for j := range es {
			r.Evaluations++
			r.Transitions++
			r.Validated++
			a, b := es[i], es[j]
			want := a.Filepath < b.Filepath || a.Filepath == b.Filepath && (a.Line < b.Line || a.Line == b.Line && a.Column < b.Column)
			if got := ByErrorPosition(es).Less(i, j); got != want {
				r.Violation("comparator:ByErrorPosition", fmt.Sprintf("ByErrorPosition.Less is not the (file, line, column) order for %v vs %v: %v, expected %v", a, b, got, want), map[string]any{"comparator": "ByErrorPosition", "i": i, "j": j})
			}
		}
	}
	r.Class("comparators", true)
}

// TestVerifC02Race is the free-running pass of C02 (built with -race by vcheck): the multi-file
// orders of part (2) under real goroutines. Unsynchronised accesses are outside the model of the
// cooperative scheduler (its hand-offs are happens-before edges); this pass is where the race
// detector can see them. Sampling: it supports the data-race-freedom assumption, it does not decide it.
func TestVerifC02Race(t *testing.T) {
	root := vTempDir(t, "c02race-")
	vWriteFiles(t, root, c02Tree)
	files := []string{"two-jobs-broken-action.yml", "missing-required.yml", "second.yml", "callee.yml", "../../../q/.github/workflows/other.yml", "../../../top.yml"}
	reps := vEnvInt("VERIF_RACE_REPS", 6)
	runs := 0
	for _, procs := range []int{2, 4, 16} {
		old := runtime.GOMAXPROCS(procs)
		for rep := 0; rep < reps; rep++ {
			for _, order := range [][]int{{0, 2}, {1, 2, 3}, {1, 4}, {4, 1}, {5, 1, 4}, {5, 4}, {0, 1, 2, 3, 4, 5}} {
				var paths []string
				for _, k := range order {
					paths = append(paths, filepath.Join(root, "p/.github/workflows", files[k]))
				}
				var out bytes.Buffer
				l, err := NewLinter(&out, &LinterOptions{WorkingDir: root})
				if err != nil {
					t.Fatal(err)
				}
				if _, err := l.LintFiles(paths, nil); err != nil {
					t.Fatal(err)
				}
				runs++
			}
		}
		runtime.GOMAXPROCS(old)
	}
	fmt.Printf("VERIF-RACE-RUNS %d\n", runs)
}
