//go:build go1.23

package actionlint

// Deep structural fingerprint (reflection walk, slice order included, map keys sorted) used to
// detect modification of shared read-only data.

import (
	"fmt"
	"hash/fnv"
	"reflect"
	"sort"
)

type vFP struct {
	h    uint64
	seen map[uintptr]bool
}

func (f *vFP) add(s string) {
	h := fnv.New64a()
	h.Write([]byte(s))
	f.h = f.h*1099511628211 ^ h.Sum64()
}

func (f *vFP) walk(v reflect.Value) {
	if !v.IsValid() {
		f.add("<invalid>")
		return
	}
	switch v.Kind() {
	case reflect.Pointer:
		if v.IsNil() {
			f.add("nil")
			return
		}
		p := v.Pointer()
		if f.seen[p] {
			f.add("cycle")
			return
		}
		f.seen[p] = true
		f.add("ptr")
		f.walk(v.Elem())
		delete(f.seen, p)
	case reflect.Interface:
		if v.IsNil() {
			f.add("nil")
			return
		}
		f.add(v.Elem().Type().String())
		f.walk(v.Elem())
	case reflect.Struct:
		f.add("struct")
		for i := 0; i < v.NumField(); i++ {
			f.walk(v.Field(i))
		}
	case reflect.Slice, reflect.Array:
		f.add(fmt.Sprintf("seq%d", v.Len()))
		for i := 0; i < v.Len(); i++ {
			f.walk(v.Index(i))
		}
	case reflect.Map:
		f.add(fmt.Sprintf("map%d", v.Len()))
		keys := v.MapKeys()
		ks := make([]string, len(keys))
		for i, k := range keys {
			sub := &vFP{seen: map[uintptr]bool{}}
			sub.walk(k)
			ks[i] = fmt.Sprintf("%016x", sub.h)
		}
		idx := make([]int, len(keys))
		for i := range idx {
			idx[i] = i
		}
		sort.Slice(idx, func(a, b int) bool { return ks[idx[a]] < ks[idx[b]] })
		for _, i := range idx {
			f.add(ks[i])
			f.walk(v.MapIndex(keys[i]))
		}
	case reflect.String:
		f.add("s:" + v.String())
	case reflect.Bool:
		f.add(fmt.Sprint("b:", v.Bool()))
	case reflect.Int, reflect.Int8, reflect.Int16, reflect.Int32, reflect.Int64:
		f.add(fmt.Sprint("i:", v.Int()))
	case reflect.Uint, reflect.Uint8, reflect.Uint16, reflect.Uint32, reflect.Uint64, reflect.Uintptr:
		f.add(fmt.Sprint("u:", v.Uint()))
	case reflect.Float32, reflect.Float64:
		f.add(fmt.Sprint("f:", v.Float()))
	case reflect.Func, reflect.Chan, reflect.UnsafePointer:
		f.add("opaque")
	default:
		f.add("kind:" + v.Kind().String())
	}
}

func vFingerprint(vals ...any) uint64 {
	f := &vFP{seen: map[uintptr]bool{}}
	for _, v := range vals {
		f.walk(reflect.ValueOf(v))
	}
	return f.h
}

// vSharedTables names every package-level table that concurrent checks read.
func vSharedTables() map[string]any {
	return map[string]any{
		"AllWebhookTypes":                   AllWebhookTypes,
		"BuiltinGlobalVariableTypes":        BuiltinGlobalVariableTypes,
		"BuiltinFuncSignatures":             BuiltinFuncSignatures,
		"BuiltinUntrustedInputs":            BuiltinUntrustedInputs,
		"PopularActions":                    PopularActions,
		"OutdatedPopularActionSpecs":        OutdatedPopularActionSpecs,
		"SpecialFunctionNames":              SpecialFunctionNames,
		"allWorkflowKeys":                   allWorkflowKeys,
		"BrandingColors":                    BrandingColors,
		"BrandingIcons":                     BrandingIcons,
		"allPermissionScopes":               allPermissionScopes,
		"allGitHubHostedRunnerLabels":       allGitHubHostedRunnerLabels,
		"selfHostedRunnerPresetOSLabels":    selfHostedRunnerPresetOSLabels,
		"selfHostedRunnerPresetOtherLabels": selfHostedRunnerPresetOtherLabels,
		"defaultRunnerOSCompats":            defaultRunnerOSCompats,
	}
}

// vTableFingerprints fingerprints each table separately (so that a change can be attributed).
func vTableFingerprints() map[string]uint64 {
	out := map[string]uint64{}
	for k, v := range vSharedTables() {
		out[k] = vFingerprint(v)
	}
	return out
}

func vDiffFingerprints(a, b map[string]uint64) []string {
	var d []string
	for _, k := range vSortedKeys(a) {
		if a[k] != b[k] {
			d = append(d, k)
		}
	}
	return d
}
