//go:build go1.23

package actionlint

// C01 — no input makes actionlint panic, crash or hang.
//
// Space: four input channels (workflow, local action metadata, local reusable workflow,
// actionlint.yaml as repository config and as -config-file). (a) every catalogue position (values
// and keys) of the channel's seeds x an alphabet of YAML fragments (every node kind, explicit tags
// with arbitrary text, anchors / aliases / merge keys, deep nesting, invalid UTF-8, block forms);
// (b) all byte strings of length <= 2 on each channel; (c) all token sequences / character strings
// of C04 inside a ${{ }} placeholder and a bare if: condition through the whole Linter.
// (d) every needs graph on <= 3 (thorough 4) jobs; (e) every workflow of the repository's testdata
// with one line at a time re-cased.
// Oracle: no panic; result is ([]*Error, nil) or (nil, error); termination (watchdog);
// unrecoverable runtime errors are caught by vcheck through the progress file.

import (
	"bytes"
	"fmt"
	"os"
	"path/filepath"
	"sort"
	"strings"
	"testing"
)

const c01Anchors = "x-anchors: &manc {akey: &sanc aval, bkey: &lanc [l1, l2]}\n"

func c01Deep(open, close string, n int) string {
	return strings.Repeat(open, n) + "x" + strings.Repeat(close, n)
}

// c01Inline are fragments that replace a scalar in place (value or key position).
var c01Inline = []string{
	"", "~", "null", "true", "false", "1", "-1", "0", "0x10", "0o17", "1.5", ".nan", ".inf", "-.inf", "1e999", "99999999999999999999", "-0",
	"2001-01-01", "yes", "on", "=", "<<", "${{ a }}", "'${{'", "'}}'", "'${{ a }}'", "'${{ a + }}'", "'${{ }}'", "''", `""`, `"\0"`, `"a\nb"`, `"a\rb"`, `"\u0001"`, "\"\xff\xfe\"", "'\xc3\x28'",
	"é", "'あ'", strings.Repeat("a", 5000),
	"!!float nan", "!!float inf", "!!float x", "!!float 1", "!!float ''", "!!int x", "!!int 99999999999999999999", "!!int 0x1", "!!int 1.5", "!!int ''",
	"!!bool x", "!!bool yes", "!!bool ''", "!!null x", "!!null ''", "!!str 1", "!!str", "!!binary x", "!!binary aGk=", "!!timestamp x", "!!timestamp 2001-01-01", "!custom x", "! x",
	"!!map {}", "!!seq []", "!!set {a, b}", "!!omap [a: 1]", "!!float [1]", "!!str {a: b}", "!!int {}", "!!bool []",
	"[]", "{}", "[a]", "[[a]]", "[[[[a]]]]", "{a: b}", "{a: {b: c}}", "[{a: b}]", "{a: [b]}", "[~]", "[1, true, ~, 1.5]", "{? [a] : b}", "{1: a}", "{true: a}", "{~: a}", "{a: ~}", "{A: 1, a: 2}", "[a, [b], {c: d}]",
	"&newanc v", "*sanc", "*manc", "*lanc", "[*sanc, *lanc]", "{<<: *manc}", "{<<: [*manc, *manc]}", "{<<: *sanc}", "{k: *manc}", "&self [*self]", "*undefined",
	"'${{ fromJSON(' ) }}'", "'${{ github.event.*.body }}'", "'${{ matrix.*.* }}'",
	// schedule spellings beyond the five fields (handled by a third-party parser)
	"TZ=UTC", "'CRON_TZ=Asia/Tokyo'", "TZ=", "'TZ=UTC 0 0 * * *'", "'@every 1s'", "'@daily'", "'* * * * * *'", "'0 0 31 2 *'", "'*/0 * * * *'", "'1-0 * * * *'", "'? ? ? ? ?'",
	// text of several bytes per character before a broken / undefined expression: positions inside
	// a scalar are byte offsets, the snippet printer meets them on a line with fewer characters
	"'日本語のなまえ ${{ foo( }}'", "'ééééééééé ${{ nosuch }}'", "日本語のなまえの長い名前 ${{ nosuch.x }}", "'😀😀😀😀 ${{ a + }}'", "'${{ nosuch }} 日本語 ${{ b + }}'",
}

// c01Block are fragments that replace the rest of a `key: value` line by block-style content.
var c01Block = []string{
	"|\n%s  text\n%s  more", ">-\n%s  folded\n%s  text", "\n%s  sub: x\n%s  other: y", "\n%s  - x\n%s  - y", "\n%s  - a: b\n%s    c: d", "\n%s  ? [complex]\n%s  : v", "|+\n%s  keep\n%s", "\n%s  <<: *manc\n%s  k: v",
	// block scalars whose text, read on its own, is no YAML value: comments only, document markers
	"|\n%s  # only a comment\n%s  # and another", ">-\n%s  # folded comment\n%s", "|-\n%s  ---\n%s", "|\n%s  ...\n%s  ---", "|-\n%s  %%YAML 1.2\n%s  ---",
}

type c01Channel struct {
	name  string
	seeds map[string]string
	// run lints with the channel's file set to content; it must not panic out
	run func(t testing.TB, dir string, content string) vLintResult
}

const c01Caller = `on: push
jobs:
  a:
    runs-on: ubuntu-latest
    steps:
      - uses: ./act
        id: s
        with:
          in1: x
      - run: echo ${{ steps.s.outputs.out1 }}
  b:
    uses: ./.github/workflows/callee.yml
    with:
      cin: x
      cnum: ${{ 1 }}
      cbool: true
    secrets:
      csec: x
  c:
    needs: b
    runs-on: foo
    steps:
      - run: echo ${{ needs.b.outputs.cout }} ${{ vars.VAR1 }} ${{ nosuchcontext.x }}
`

var c01ActionSeeds = map[string]string{
	"action-composite": "name: act\ndescription: d\nauthor: me\nbranding:\n  icon: edit\n  color: white\ninputs:\n  in1:\n    description: d\n    required: true\n    default: x\n    deprecationMessage: m\noutputs:\n  out1:\n    description: d\n    value: v\nruns:\n  using: composite\n  steps:\n    - run: echo\n      shell: bash\n",
	"action-node":      "name: act\ndescription: d\ninputs:\n  in1:\n    required: false\noutputs:\n  out1:\n    description: d\nruns:\n  using: node20\n  main: index.js\n  pre: pre.js\n  pre-if: always()\n  post: post.js\n  post-if: always()\n",
	"action-docker":    "name: act\ndescription: d\ninputs:\n  in1:\n    default: x\nruns:\n  using: docker\n  image: Dockerfile\n  pre-entrypoint: pre.sh\n  entrypoint: main.sh\n  post-entrypoint: post.sh\n  args:\n    - a\n  env:\n    K: v\n",
}

var c01CalleeSeeds = map[string]string{
	"callee": "on:\n  workflow_call:\n    inputs:\n      cin:\n        description: d\n        required: true\n        default: x\n        type: string\n      cnum:\n        type: number\n      cbool:\n        type: boolean\n        default: false\n    secrets:\n      csec:\n        description: d\n        required: true\n    outputs:\n      cout:\n        description: d\n        value: ${{ jobs.j.outputs.o }}\njobs:\n  j:\n    runs-on: ubuntu-latest\n    outputs:\n      o: x\n    steps:\n      - run: echo\n",
}

var c01ConfigSeeds = map[string]string{
	"config": "self-hosted-runner:\n  labels:\n    - foo\nconfig-variables:\n  - VAR1\npaths:\n  .github/workflows/**/*.yml:\n    ignore:\n      - abc.+\n",
}

func c01Project(t testing.TB, dir string) {
	vWriteFiles(t, dir, map[string]string{
		".git/HEAD":                    "ref: refs/heads/main\n",
		".github/workflows/caller.yml": c01Caller,
		".github/workflows/callee.yml": c01CalleeSeeds["callee"],
		"act/action.yml":               c01ActionSeeds["action-composite"],
		"act/index.js":                 "",
		"act/pre.js":                   "",
		"act/post.js":                  "",
		"act/Dockerfile":               "FROM alpine\n",
		".github/actionlint.yaml":      c01ConfigSeeds["config"],
	})
}

func c01LintFile(dir, path string, opts LinterOptions) (res vLintResult) {
	defer func() {
		if r := recover(); r != nil {
			res.Panic = fmt.Sprintf("%v\n%s", r, vStack())
		}
	}()
	var out bytes.Buffer
	opts.WorkingDir = dir
	l, err := NewLinter(&out, &opts)
	if err != nil {
		res.Err = err
		return
	}
	res.Errs, res.Err = l.LintFile(path, nil)
	res.Out = out.String()
	return
}

func c01Channels() []*c01Channel {
	write := func(t testing.TB, p, content string) {
		if err := os.WriteFile(p, []byte(content), 0o644); err != nil {
			t.Fatal(err)
		}
	}
	wfSeeds := map[string]string{}
	for k, v := range vSeeds {
		wfSeeds[k] = v
	}
	return []*c01Channel{
		{"workflow", wfSeeds, func(t testing.TB, dir, content string) vLintResult { return vLint(content, nil) }},
		// the workflow itself, linted inside the repository: what it passes to the local action and
		// to the local reusable workflow is checked against their (known) interfaces
		{"workflow-in-project", map[string]string{"caller": c01Caller}, func(t testing.TB, dir, content string) vLintResult {
			write(t, filepath.Join(dir, ".github/workflows/caller.yml"), content)
			return c01LintFile(dir, filepath.Join(dir, ".github/workflows/caller.yml"), LinterOptions{})
		}},
		{"action-metadata", c01ActionSeeds, func(t testing.TB, dir, content string) vLintResult {
			write(t, filepath.Join(dir, "act/action.yml"), content)
			return c01LintFile(dir, filepath.Join(dir, ".github/workflows/caller.yml"), LinterOptions{})
		}},
		{"reusable-workflow", c01CalleeSeeds, func(t testing.TB, dir, content string) vLintResult {
			write(t, filepath.Join(dir, ".github/workflows/callee.yml"), content)
			return c01LintFile(dir, filepath.Join(dir, ".github/workflows/caller.yml"), LinterOptions{})
		}},
		{"config-repo", c01ConfigSeeds, func(t testing.TB, dir, content string) vLintResult {
			write(t, filepath.Join(dir, ".github/actionlint.yaml"), content)
			return c01LintFile(dir, filepath.Join(dir, ".github/workflows/caller.yml"), LinterOptions{})
		}},
		{"config-file-option", c01ConfigSeeds, func(t testing.TB, dir, content string) vLintResult {
			p := filepath.Join(dir, "custom-config.yaml")
			write(t, p, content)
			return c01LintFile(dir, filepath.Join(dir, ".github/workflows/caller.yml"), LinterOptions{ConfigFile: p})
		}},
	}
}

func c01Oracle(r *vReport, ch *c01Channel, what string, res vLintResult, replay map[string]any) {
	r.Evaluations++
	r.Transitions++
	r.Validated++
	switch {
	case res.Panic != "":
		first := res.Panic
		if i := strings.Index(first, "\n"); i >= 0 {
			first = first[:i]
		}
		r.Violation("panic:"+ch.name+":"+c01PanicSite(res.Panic), fmt.Sprintf("%s channel, %s: panic: %s", ch.name, what, vTrunc(res.Panic, 1200)), replay)
		r.Class(ch.name+":panic", true)
	case res.Err != nil && res.Errs != nil:
		r.Violation("error-and-diagnostics:"+ch.name, fmt.Sprintf("%s channel, %s: both a fatal error and diagnostics were returned", ch.name, what), replay)
	case res.Err != nil:
		r.Class(ch.name+":fatal-error", true)
	case len(res.Errs) > 0:
		r.Class(ch.name+":diagnostics", true)
	default:
		r.Class(ch.name+":clean", false)
	}
}

// c01PanicSite extracts the first actionlint frame of a panic stack (file:line) as class key.
func c01PanicSite(stack string) string {
	for _, l := range strings.Split(stack, "\n") {
		l = strings.TrimSpace(l)
		if strings.HasPrefix(l, "/repo/") && !strings.Contains(l, "zz_verif_") && !strings.Contains(l, "verifshim") {
			if i := strings.Index(l, " "); i > 0 {
				l = l[:i]
			}
			return strings.TrimPrefix(l, "/repo/")
		}
	}
	return "unknown"
}

func TestVerifC01(t *testing.T) {
	r := vNewReport("C01")
	defer r.Write(t)
	tokN, chrN := 3, 3
	if vThorough() {
		tokN, chrN = 5, 5
	}
	r.Bounds["byte_strings_up_to"] = 2
	r.Bounds["inline_fragments"] = len(c01Inline) + 6
	r.Bounds["block_fragments"] = len(c01Block)
	r.Bounds["expression_token_sequences_up_to"] = tokN
	r.Bounds["expression_char_strings_up_to"] = chrN
	r.Bounds["pairs_of_substitutions"] = vThorough()
	r.Extra["rule"] = "channels {workflow, workflow inside a repository with a local action and a local reusable workflow, action metadata, reusable workflow, repo config, -config-file} x (every value and key position of the channel's seeds x ~115 YAML fragments incl. explicit tags, anchors/aliases/merge keys, nesting to depth 5000, invalid UTF-8, block forms; all byte strings <= 2; thorough: all pairs of fragments in sibling positions of one mapping) + all expression token sequences / character strings up to a bound inside ${{ }} and bare if: through the whole Linter. + every list of 1-3 runner labels out of 10 x 3 forms of runs-on x 7 shell names at step / job defaults + accessor chains of <= 4 steps on 5 roots in 7 wrappers. oracle: no panic, result shape, termination. class = (channel, result kind); non-trivial = anything but a clean lint"
	r.Extra["assumptions"] = []string{"inputs above the stated bounds (all byte strings <= 64 KiB) are out of reach of enumeration", "yaml.v3 is exercised only as far as these inputs drive it", "a case running longer than 120 s counts as a hang"}
	dir := vTempDir(t, "c01-")
	c01Project(t, dir)
	chans := c01Channels()

	if raw := vReplayInput(); raw != nil {
		var rp struct {
			Channel string `json:"channel"`
			Content string `json:"content"`
			Case    string `json:"case"`
		}
		if err := jsonUnmarshal(raw, &rp); err != nil {
			t.Fatal(err)
		}
		for _, ch := range chans {
			if ch.name == rp.Channel {
				for k := 0; k < 2; k++ {
					c01Project(t, dir)
					res := ch.run(t, dir, rp.Content)
					fmt.Printf("replay %d: errs=%d err=%v panic=%s\n", k, len(res.Errs), res.Err, vTrunc(res.Panic, 2000))
					c01Oracle(r, ch, "replay", res, map[string]any{"channel": ch.name, "content": rp.Content})
				}
			}
		}
		if rp.Channel == "" {
			fmt.Printf("crash replay: re-run the check; recorded case: %s\n", rp.Case)
			r.Class("replay", true)
		}
		return
	}

	deepFrags := []string{c01Deep("[", "]", 100), c01Deep("[", "]", 1000), c01Deep("[", "]", 5000), c01Deep("{a: ", "}", 100), c01Deep("{a: ", "}", 2000), "'${{ " + c01Deep("(", ")", 3000) + " }}'"}
	var idx int64
	for _, ch := range chans {
		for _, sname := range vSortedKeys(ch.seeds) {
			base := ch.seeds[sname]
			src := c01Anchors + base
			cat, err := vBuildCatalogue(sname, src)
			if err != nil {
				r.HarnessError("C01 catalogue of %s: %v", sname, err)
				continue
			}
			var positions []*vPos
			for _, p := range cat.Scalars {
				if p.Line > 1 {
					positions = append(positions, p)
				}
			}
			for _, p := range cat.Keys {
				if p.Line > 1 {
					positions = append(positions, p)
				}
			}
			// whole sections replaced: every key that introduces a block (its value spans further
			// lines) gets a scalar / null / empty collection instead of that block
			for _, k := range cat.Keys {
				if k.EndLine <= k.Line || k.Line <= 1 {
					continue
				}
				keyLine := cat.Lines[k.Line-1]
				if !strings.HasSuffix(strings.TrimRight(keyLine, " "), ":") {
					continue
				}
				for _, f := range []string{"", " ~", " null", " []", " {}", " x", " 1", " true", " [~]", " {a: ~}", " ''", " *sanc", " !!map {}", " |\n" + strings.Repeat(" ", k.Col+1) + "text"} {
					idx++
					if !r.Mine(idx) {
						continue
					}
					lines := append([]string{}, cat.Lines[:k.Line-1]...)
					lines = append(lines, strings.TrimRight(keyLine, " ")+f)
					lines = append(lines, cat.Lines[k.EndLine:]...)
					content := strings.Join(lines, "\n")
					what := fmt.Sprintf("seed %s section %s replaced by %q", sname, k.Path, f)
					r.Begin(func() string { return "channel=" + ch.name + " " + what })
					res := ch.run(t, dir, content)
					c01Oracle(r, ch, what, res, map[string]any{"channel": ch.name, "content": content})
				}
			}
			frags := append(append([]string{}, c01Inline...), deepFrags...)
			for _, p := range positions {
				for fi, f := range frags {
					idx++
					if !r.Mine(idx) {
						continue
					}
					if idx%256 == 0 && r.Expired() {
						return
					}
					content := cat.Replace(p, f)
					r.Begin(func() string {
						return fmt.Sprintf("channel=%s seed=%s position=%s key=%v fragment#%d=%s", ch.name, sname, p.Path, p.IsKey, fi, vTrunc(f, 60))
					})
					res := ch.run(t, dir, content)
					c01Oracle(r, ch, fmt.Sprintf("seed %s position %s (key=%v) fragment %q", sname, p.Path, p.IsKey, vTrunc(f, 60)), res, map[string]any{"channel": ch.name, "content": content})
					if idx%9001 == 0 {
						r.Sample(map[string]any{"channel": ch.name, "seed": sname, "position": p.Path, "is_key": p.IsKey, "fragment": vTrunc(f, 80), "diagnostics": len(res.Errs), "fatal": res.Err != nil})
					}
				}
				// block forms: only for mapping values that end their line
				if !p.IsKey && p.Parent != nil && strings.TrimSpace(cat.Lines[p.Line-1][p.Col-1+p.Len:]) == "" {
					ind := ""
					if p.Parent != nil {
						ind = strings.Repeat(" ", p.Parent.Indent-1)
					}
					for _, b := range c01Block {
						idx++
						if !r.Mine(idx) {
							continue
						}
						content := cat.Replace(p, fmt.Sprintf(b, ind, ind))
						r.Begin(func() string {
							return fmt.Sprintf("channel=%s seed=%s position=%s block fragment", ch.name, sname, p.Path)
						})
						res := ch.run(t, dir, content)
						c01Oracle(r, ch, fmt.Sprintf("seed %s position %s block fragment %q", sname, p.Path, b), res, map[string]any{"channel": ch.name, "content": content})
					}
				}
			}
			if vThorough() {
				// pairs of fragments in two sibling value positions of one mapping (reduced alphabet)
				small := []string{"", "~", "!!float nan", "!!int x", "!!bool x", "[]", "{}", "{a: b}", "[a]", "*manc", "*sanc", "{<<: *manc}", "'${{ a + }}'", "\"\xff\"", "!!str", "1.5"}
				for _, m := range cat.Mappings {
					var kids []*vPos
					for _, s := range cat.Scalars {
						if s.Parent == m && s.Line > 1 {
							kids = append(kids, s)
						}
					}
					for i := 0; i < len(kids); i++ {
						for j := i + 1; j < len(kids); j++ {
							if kids[i].Line == kids[j].Line {
								continue
							}
							for _, f1 := range small {
								for _, f2 := range small {
									idx++
									if !r.Mine(idx) {
										continue
									}
									if idx%256 == 0 && r.Expired() {
										return
									}
									lines := append([]string{}, cat.Lines...)
									for _, e := range []struct {
										p *vPos
										f string
									}{{kids[i], f1}, {kids[j], f2}} {
										l := lines[e.p.Line-1]
										lines[e.p.Line-1] = l[:e.p.Col-1] + e.f + l[e.p.Col-1+e.p.Len:]
									}
									content := strings.Join(lines, "\n")
									r.Begin(func() string {
										return fmt.Sprintf("channel=%s seed=%s pair %s+%s", ch.name, sname, kids[i].Path, kids[j].Path)
									})
									res := ch.run(t, dir, content)
									c01Oracle(r, ch, fmt.Sprintf("seed %s pair %s=%q %s=%q", sname, kids[i].Path, f1, kids[j].Path, f2), res, map[string]any{"channel": ch.name, "content": content})
								}
							}
						}
					}
				}
			}
		}
		// restore the channel's file
		c01Project(t, dir)
		// (b) all byte strings of length <= 2
		buf := make([]byte, 0, 2)
		for l := 0; l <= 2; l++ {
			total := 1
			for i := 0; i < l; i++ {
				total *= 256
			}
			for v := 0; v < total; v++ {
				idx++
				if !r.Mine(idx) {
					continue
				}
				if idx%1024 == 0 && r.Expired() {
					return
				}
				buf = buf[:0]
				x := v
				for i := 0; i < l; i++ {
					buf = append(buf, byte(x%256))
					x /= 256
				}
				content := string(buf)
				r.Begin(func() string { return fmt.Sprintf("channel=%s bytes=%q", ch.name, content) })
				res := ch.run(t, dir, content)
				c01Oracle(r, ch, fmt.Sprintf("bytes %q", content), res, map[string]any{"channel": ch.name, "content": content})
			}
		}
		c01Project(t, dir)
	}

	// (c2) other line breaks: the YAML reader also breaks lines at CR, NEL, LS and PS, so line numbers
	// of nodes can exceed the number of LF-separated lines. Every workflow seed, plain and with an
	// anchored / tagged scalar at every value position, under 7 renderings of its line breaks
	{
		wf := chans[0]
		renderings := []struct {
			name string
			f    func(string) string
		}{
			{"CR", func(s string) string { return strings.ReplaceAll(s, "\n", "\r") }},
			{"CRLF", func(s string) string { return strings.ReplaceAll(s, "\n", "\r\n") }},
			{"NEL", func(s string) string { return strings.ReplaceAll(s, "\n", "\u0085") }},
			{"LS-in-leading-comment", func(s string) string { return "# a\u2028# b\u2028# c\u2029# d\n" + strings.TrimSuffix(s, "\n") }},
			{"CR-in-leading-comment", func(s string) string { return "# a\r# b\r# c\n" + strings.TrimSuffix(s, "\n") }},
			{"mixed", func(s string) string {
				var b strings.Builder
				for i, l := range strings.Split(s, "\n") {
					b.WriteString(l + []string{"\n", "\r", "\r\n", "\u0085"}[i%4])
				}
				return b.String()
			}},
			{"no-final-break", func(s string) string {
				return "# x\u2028# y\n" + strings.TrimRight(s, "\n") + "\nx-last: &lastanc !!str v"
			}},
		}
		for _, sname := range vSortedKeys(wf.seeds) {
			src := c01Anchors + wf.seeds[sname]
			cat, err := vBuildCatalogue(sname, src)
			if err != nil {
				continue
			}
			variants := []string{src}
			for _, p := range cat.Scalars {
				if p.Line > 1 {
					variants = append(variants, cat.Replace(p, "&lb"+fmt.Sprint(p.Line)+" !!str v"), cat.Replace(p, "!!str \"${{ a + }}\""))
				}
			}
			for vi, v := range variants {
				for _, rd := range renderings {
					idx++
					if !r.Mine(idx) {
						continue
					}
					if idx%1024 == 0 && r.Expired() {
						return
					}
					content := rd.f(v)
					what := fmt.Sprintf("seed %s variant %d line breaks %s", sname, vi, rd.name)
					r.Begin(func() string { return "channel=workflow " + what })
					res := wf.run(t, dir, content)
					c01Oracle(r, wf, what, res, map[string]any{"channel": wf.name, "content": content})
				}
			}
		}
	}

	// (d) structured families whose shapes the fragment alphabet cannot build: every needs graph on
	// up to 3 jobs (thorough: 4), self loops included, through the whole Linter
	graphN := 3
	if vThorough() {
		graphN = 4
	}
	r.Bounds["needs_graph_jobs"] = graphN
	for n := 1; n <= graphN; n++ {
		for mask := 0; mask < 1<<(n*n); mask++ {
			idx++
			if !r.Mine(idx) {
				continue
			}
			if idx%1024 == 0 && r.Expired() {
				return
			}
			var b strings.Builder
			b.WriteString("on: push\njobs:\n")
			for i := 0; i < n; i++ {
				fmt.Fprintf(&b, "  j%d:\n", i)
				var deps []string
				for j := 0; j < n; j++ {
					if mask&(1<<(i*n+j)) != 0 {
						deps = append(deps, fmt.Sprintf("j%d", j))
					}
				}
				if len(deps) > 0 {
					b.WriteString("    needs: [" + strings.Join(deps, ", ") + "]\n")
				}
				b.WriteString("    runs-on: ubuntu-latest\n    steps:\n      - run: echo ${{ needs.j0.result }}\n")
			}
			src := b.String()
			what := fmt.Sprintf("needs graph n=%d mask=%#x", n, mask)
			r.Begin(func() string { return what })
			res := vLint(src, nil)
			c01Oracle(r, chans[0], what, res, map[string]any{"channel": "workflow", "content": src})
		}
	}

	// (d2) every list of 1-3 runner labels out of 10 (both operating-system families, generic and
	// self-hosted labels, an expression, an unknown one) x the 3 forms of runs-on x a shell name at the
	// step / the job defaults / nowhere: rules that combine what the labels say with the shell
	{
		labels := []string{"ubuntu-latest", "windows-latest", "macos-latest", "self-hosted", "linux", "windows", "macOS", "x64", "${{ matrix.os }}", "nosuchlabel"}
		shells := []string{"", "bash", "pwsh", "cmd", "nosuchshell", "bash -e {0}", "${{ matrix.sh }}"}
		var lists [][]string
		for a := range labels {
			lists = append(lists, []string{labels[a]})
			for b := range labels {
				if b == a {
					continue
				}
				lists = append(lists, []string{labels[a], labels[b]})
				for c := range labels {
					if c == a || c == b || !(a < 3 || b < 3 || c < 3) {
						continue // triples: at least one label of an operating-system family
					}
					lists = append(lists, []string{labels[a], labels[b], labels[c]})
				}
			}
		}
		r.Bounds["runner_label_lists"] = len(lists)
		for _, ls := range lists {
			for form := 0; form < 3; form++ {
				if form == 0 && len(ls) != 1 {
					continue // scalar form holds one label
				}
				for _, sh := range shells {
					for where := 0; where < 2; where++ {
						if sh == "" && where == 1 {
							continue
						}
						idx++
						if !r.Mine(idx) {
							continue
						}
						if idx%1024 == 0 && r.Expired() {
							return
						}
						q := func(x string) string { return "'" + x + "'" }
						var ro string
						switch form {
						case 0:
							ro = "    runs-on: " + q(ls[0]) + "\n"
						case 1:
							var qs []string
							for _, l := range ls {
								qs = append(qs, q(l))
							}
							ro = "    runs-on: [" + strings.Join(qs, ", ") + "]\n"
						case 2:
							ro = "    runs-on:\n      group: g\n      labels:\n"
							for _, l := range ls {
								ro += "        - " + q(l) + "\n"
							}
						}
						src := "on: push\njobs:\n  a:\n" + ro + "    strategy:\n      matrix:\n        os: [ubuntu-latest]\n        sh: [bash]\n"
						if sh != "" && where == 1 {
							src += "    defaults:\n      run:\n        shell: " + q(sh) + "\n"
						}
						src += "    steps:\n      - run: echo\n"
						if sh != "" && where == 0 {
							src += "        shell: " + q(sh) + "\n"
						}
						what := fmt.Sprintf("runner labels %v form %d shell %q at %d", ls, form, sh, where)
						r.Begin(func() string { return what })
						res := vLint(src, nil)
						c01Oracle(r, chans[0], what, res, map[string]any{"channel": "workflow", "content": src})
					}
				}
			}
		}
	}

	// (d3) accessor chains of up to 4 steps over {.*, a defined property, an undefined one, [0], a second
	// property} on 5 roots with element types of different strictness (matrix rows that are arrays of
	// mappings, a JSON literal, steps, needs, the webhook payload), bare and inside 6 wrappers that look at
	// the result's type: what a rejected step leaves behind must be a type the next step can work on
	{
		accs := []string{".*", ".name", ".nmae", "[0]", ".first"}
		roots := []string{"matrix.pkgs", "fromJSON('[{\"name\":\"a\",\"dir\":[1]}]')", "steps", "needs", "github.event.commits"}
		wraps := []string{"%s", "contains(%s, 'a')", "join(%s, ',')", "toJSON(%s)", "%s == 1", "format('{0}', %s)", "%s && true || %s"}
		chains := []string{""}
		frontier := []string{""}
		for l := 0; l < 4; l++ {
			var next []string
			for _, f := range frontier {
				for _, a := range accs {
					next = append(next, f+a)
				}
			}
			chains = append(chains, next...)
			frontier = next
		}
		r.Bounds["accessor_chains"] = len(chains)
		for _, root := range roots {
			for _, ch := range chains {
				for _, w := range wraps {
					idx++
					if !r.Mine(idx) {
						continue
					}
					if idx%1024 == 0 && r.Expired() {
						return
					}
					expr := strings.ReplaceAll(w, "%s", root+ch)
					src := "on: push\njobs:\n  up:\n    runs-on: ubuntu-latest\n    outputs:\n      name: v\n    steps:\n      - run: echo\n  a:\n    needs: [up]\n    runs-on: ubuntu-latest\n    strategy:\n      matrix:\n        pkgs: [[{name: a, dir: x}], [{name: b, dir: y}]]\n    steps:\n      - id: name\n        run: echo\n      - run: echo ${{ " + expr + " }}\n        if: ${{ " + expr + " }}\n"
					what := "accessor chain " + expr
					r.Begin(func() string { return what })
					res := vLint(src, nil)
					c01Oracle(r, chans[0], what, res, map[string]any{"channel": "workflow", "content": src})
				}
			}
		}
	}

	// (e) the repository's own workflows (every rule has examples there) with one line at a time
	// re-cased (upper case / capitalised words / lower case, the key of a "key: value" line kept):
	// strings that reach a rule's special handling in a spelling its tests do not use
	repoDir := os.Getenv("VERIF_REPO")
	if repoDir == "" {
		repoDir = "/repo"
	}
	var corpusFiles []string
	for _, g := range []string{"testdata/examples/*.yaml", "testdata/ok/*.yaml", "testdata/err/*.yaml"} {
		m, _ := filepath.Glob(filepath.Join(repoDir, g))
		corpusFiles = append(corpusFiles, m...)
	}
	sort.Strings(corpusFiles)
	r.Bounds["corpus_files_recased_line_by_line"] = len(corpusFiles)
	if len(corpusFiles) < 150 {
		r.HarnessError("corpus too small: %d files", len(corpusFiles))
	}
	title := func(s string) string {
		b := []byte(strings.ToLower(s))
		up := true
		for i, c := range b {
			if up && c >= 'a' && c <= 'z' {
				b[i] = c - 32
			}
			up = !(c >= 'a' && c <= 'z' || c >= 'A' && c <= 'Z')
		}
		return string(b)
	}
	for _, f := range corpusFiles {
		raw, err := os.ReadFile(f)
		if err != nil {
			continue
		}
		lines := strings.Split(string(raw), "\n")
		for li, line := range lines {
			trim := strings.TrimLeft(line, " -")
			if trim == "" || strings.HasPrefix(trim, "#") {
				continue
			}
			head := line[:len(line)-len(trim)]
			// keep the key of "key: value" lines
			if i := strings.Index(trim, ": "); i > 0 && !strings.ContainsAny(trim[:i], " '\"{[") {
				head += trim[:i+2]
				trim = trim[i+2:]
			} else if strings.HasSuffix(trim, ":") {
				continue
			}
			for vi, variant := range []string{strings.ToUpper(trim), title(trim), strings.ToLower(trim)} {
				if variant == trim {
					continue
				}
				idx++
				if !r.Mine(idx) {
					continue
				}
				if idx%512 == 0 && r.Expired() {
					return
				}
				mod := append(append([]string{}, lines[:li]...), head+variant)
				mod = append(mod, lines[li+1:]...)
				src := strings.Join(mod, "\n")
				what := fmt.Sprintf("%s line %d variant %d", strings.TrimPrefix(f, repoDir+"/"), li+1, vi)
				r.Begin(func() string { return what })
				res := vLint(src, nil)
				c01Oracle(r, chans[0], what, res, map[string]any{"channel": "workflow", "content": src})
			}
		}
	}

	// (c) expression text through the whole Linter (semantic checker, untrusted-input checker, if-cond rule)
	wf := chans[0]
	exprCase := func(expr string) {
		idx++
		if !r.Mine(idx) {
			return
		}
		q := "'" + strings.ReplaceAll(expr, "'", "''") + "'"
		for _, src := range []string{
			"on: pull_request\njobs:\n  a:\n    runs-on: ubuntu-latest\n    strategy:\n      matrix:\n        ab: [1]\n    steps:\n      - run: " + "'echo ${{ " + strings.ReplaceAll(expr, "'", "''") + " }}'" + "\n",
			"on: push\njobs:\n  a:\n    runs-on: ubuntu-latest\n    steps:\n      - run: echo\n        if: " + q + "\n",
		} {
			r.Begin(func() string { return fmt.Sprintf("expression %q", expr) })
			res := vLint(src, nil)
			c01Oracle(r, wf, fmt.Sprintf("expression %q", expr), res, map[string]any{"channel": "workflow", "content": src})
		}
	}
	toks := []string{"Ab", "github", "matrix", "true", "null", "'s'", "1", "1.5", "(", ")", "[", "]", ".", "!", "<", "==", "&&", "||", "*", ",", "format", "fromJSON", "contains", "event", "body"}
	seq := make([]string, 0, tokN)
	for l := 0; l <= tokN; l++ {
		total := 1
		for i := 0; i < l; i++ {
			total *= len(toks)
		}
		for v := 0; v < total; v++ {
			if v%4096 == 0 && r.Expired() {
				return
			}
			seq = seq[:0]
			x := v
			for i := 0; i < l; i++ {
				seq = append(seq, toks[x%len(toks)])
				x /= len(toks)
			}
			exprCase(strings.Join(seq, " "))
			exprCase(strings.Join(seq, ""))
		}
	}
	chars := []byte("aex019.-+_'\" ()[]!<>=&|*,}{$")
	cb := make([]byte, 0, chrN)
	for l := 1; l <= chrN; l++ {
		total := 1
		for i := 0; i < l; i++ {
			total *= len(chars)
		}
		for v := 0; v < total; v++ {
			if v%4096 == 0 && r.Expired() {
				return
			}
			cb = cb[:0]
			x := v
			for i := 0; i < l; i++ {
				cb = append(cb, chars[x%len(chars)])
				x /= len(chars)
			}
			exprCase(string(cb))
		}
	}
}
