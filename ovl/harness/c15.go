//go:build go1.23

package actionlint

// C15 — ignore patterns are an exact filter; results do not depend on the cwd.
//
// Complete product: 5 workflows (0 / 2 / 4 diagnostics, not YAML, ties at one position) x 17 CLI -ignore
// sets x 7 `paths` globs x 5 config pattern sets x cwd in {root, parent, nested, unrelated} x path
// spelling in {relative, ./relative, absolute}, each through Command.Main. Oracle: reference
// filter (set difference in unchanged order; a paths entry applies iff its glob matches the path
// relative to the repository root - match bits are part of the scenario table); exit status.

import (
	"bytes"
	"fmt"
	"os"
	"path/filepath"
	"regexp"
	"sort"
	"strings"
	"testing"
)

var c15Workflows = map[string]string{
	"w0.yml": "on: push\njobs:\n  a:\n    runs-on: ubuntu-latest\n    steps:\n      - run: echo\n",
	"w2.yml": "on: push\njobs:\n  a:\n    runs-on: ubuntu-latest\n    steps:\n      - run: echo ${{ nosuchvar }}\n      - run: echo\n        shell: nosuchshell\n",
	"w4.yml": "on: push\njobs:\n  a:\n    runs-on: nosuchlabel\n    steps:\n      - run: echo ${{ nosuchvar }}\n      - run: echo\n        shell: nosuchshell\n      - uses: actions/checkout@v4\n        with:\n          bogusinput: 1\n",
}

// wbad.yml is not YAML at all: its single diagnostic comes from the reader, not from a rule
func init() {
	c15Workflows["wbad.yml"] = "on: push\njobs:\n  a:\n    runs-on: [ubuntu-latest\n    steps:\n      - run: echo\n"
	// wtie.yml has diagnostics of different rules at the SAME position (twice), after one that stands
	// alone: "unchanged order" includes the order of diagnostics that sorting by position cannot tell apart
	c15Workflows["wtie.yml"] = "on: push\njobs:\n  a:\n    foo: 1\n    runs-on: ubuntu-latest\n    steps:\n      - run: echo\n  b:\n    runs-on: ''\n    steps:\n      - run: echo\n  c:\n    runs-on: ''\n    steps:\n      - run: echo\n"
}

var c15CLISets = [][]string{
	nil, {"matches nothing at all"}, {"undefined variable"}, {"undefined variable", "shell name"}, {".*"}, {"^shell name \"nosuchshell\" is invalid"}, {"label \"nosuchlabel\"", "bogusinput"}, {"(?i)UNDEFINED VARIABLE"}, {"could not parse as YAML"},
	// patterns are independent of each other: an inline flag, a quotation or a group of one must
	// not reach the next
	{"(?i)SHELL NAME", "UNDEFINED VARIABLE"}, {"\\Qshell name", "undefined variable"}, {"(?U)shell.*name", "undefined.*variable$"}, {"^shell name|zzz", "variable"},
	{"unexpected key"}, {"should not be empty"},
	// a literal anchored at both ends matches a whole message only, not a message that contains it
	{"^undefined variable$"}, {"\\Ashell name\\z", "^(?:bogusinput)$", "^(?s:is unknown)$"},
}

type c15Glob struct {
	glob    string
	matches map[string]bool // by workflow file name, for the path relative to the repository root
}

var c15Globs = []c15Glob{
	{".github/workflows/*.yml", map[string]bool{"w0.yml": true, "w2.yml": true, "w4.yml": true, "wbad.yml": true, "wtie.yml": true}},
	{"**/w2.yml", map[string]bool{"w2.yml": true}},
	{"nomatch/**", map[string]bool{}},
	{".github/workflows/w4.yml", map[string]bool{"w4.yml": true}},
	// the rest of the glob syntax: alternation with and without a wildcard after it, an escaped
	// character, a character class and a single-character wildcard
	{".github/workflows/{w0,w2}.yml", map[string]bool{"w0.yml": true, "w2.yml": true}},
	{"{.github,.gitea}/work*/w\\4.yml", map[string]bool{"w4.yml": true}},
	{".github/workflow?/w[2b]*.yml", map[string]bool{"w2.yml": true, "wbad.yml": true}},
}

var c15CfgSets = [][]string{nil, {"undefined variable"}, {"shell name", "is not defined in action"}, {".*"}, {"^undefined variable$", "^shell name$"}}

type c15Diag struct {
	line, col int
	msg, kind string
}

var c15LineRe = regexp.MustCompile(`^(.*?):(\d+):(\d+): (.*) \[([^\]\s]+)\]$`)

func c15Parse(out string) ([]c15Diag, []string) {
	var ds []c15Diag
	var paths []string
	for _, l := range strings.Split(strings.TrimSuffix(out, "\n"), "\n") {
		if l == "" {
			continue
		}
		m := c15LineRe.FindStringSubmatch(l)
		if m == nil {
			ds = append(ds, c15Diag{-1, -1, l, "unparsed"})
			continue
		}
		var ln, col int
		fmt.Sscan(m[2], &ln)
		fmt.Sscan(m[3], &col)
		ds = append(ds, c15Diag{ln, col, m[4], m[5]})
		paths = append(paths, m[1])
	}
	return ds, paths
}

func c15Main(cwd string, args []string) (int, string, string) {
	return c15MainIn(cwd, args, "")
}

func c15MainIn(cwd string, args []string, stdin string) (int, string, string) {
	if err := os.Chdir(cwd); err != nil {
		panic(err)
	}
	var stdout, stderr bytes.Buffer
	cmd := Command{Stdin: strings.NewReader(stdin), Stdout: &stdout, Stderr: &stderr}
	code := func() (code int) {
		defer func() {
			if p := recover(); p != nil {
				code = -99
				stderr.WriteString(fmt.Sprintf("panic: %v\n%s", p, vStack()))
			}
		}()
		return cmd.Main(append([]string{"actionlint"}, args...))
	}()
	return code, stdout.String(), stderr.String()
}

// c15OnelineTemplate prints what -oneline prints.
const c15OnelineTemplate = "{{range $ := .}}{{$.Filepath}}:{{$.Line}}:{{$.Column}}: {{$.Message}} [{{$.Kind}}]\n{{end}}"

func TestVerifC15(t *testing.T) {
	r := vNewReport("C15")
	defer r.Write(t)
	r.Extra["rule"] = "5 workflows (one of them not YAML at all, one with diagnostics of different rules at the same position) x 17 -ignore sets x 7 paths globs (literal, *, **, {a,b} alternation with and without a later wildcard, escaped character, class, ?) x 5 config ignore sets given by the repository's actionlint.yaml or by -config-file (repository without its own) x {no further entry, a further matching entry, a further non-matching entry, patterns given as YAML aliases} x 4 working directories x 7 path spellings (relative, ./relative, absolute; piped through stdin with a relative / absolute -stdin-filename; through a symbolic link to the repository's root, absolute / relative) through Command.Main (-oneline -no-color), complete product; oracle: unfiltered list minus diagnostics matched by a CLI pattern or by a config pattern whose glob matches the root-relative path, order preserved, exit 1 iff non-empty; plus every ordered pair / triple of files of 6 different locations (repository, sibling repository, nested repository, no repository, repositories whose .git is a file: alone and nested) x 3 working directories x relative / absolute spelling x {-oneline, equivalent -format template} in one invocation; plus exit-status rows (invalid flag 2; unreadable file, bad config, bad -ignore regexp, bad config regexp, non-string ignore element 3). class = (remaining diagnostics, exit status); non-trivial = something is filtered"
	r.Extra["assumptions"] = []string{"glob match bits are part of the scenario table (written by hand for 7 globs x 5 files)", "working directory is process-global: cases run sequentially inside each worker process"}
	orig, _ := os.Getwd()
	defer os.Chdir(orig)
	base := vTempDir(t, "c15-")
	root := filepath.Join(base, "parent", "proj")
	files := map[string]string{"parent/proj/.git/HEAD": "x\n", "other/.keep": "",
		// further repositories for invocations with several files: a sibling whose configuration
		// ignores everything, a repository nested in proj with its own configuration, a file outside
		// any repository
		"parent/quiet/.git/HEAD":                  "x\n",
		"parent/quiet/.github/actionlint.yaml":    "paths:\n  '.github/workflows/*.yml':\n    ignore:\n      - '.*'\n",
		"parent/quiet/.github/workflows/q.yml":    c15Workflows["w2.yml"],
		"parent/proj/sub/.git/HEAD":               "x\n",
		"parent/proj/sub/.github/actionlint.yaml": "paths:\n  '.github/workflows/s.yml':\n    ignore:\n      - 'undefined variable'\n",
		"parent/proj/sub/.github/workflows/s.yml": c15Workflows["w2.yml"],
		"other/loose.yml":                         c15Workflows["w2.yml"],
		// a repository whose .git is a FILE (linked worktree / submodule), standing alone and nested in proj
		"parent/wt/.git":                          "gitdir: /somewhere/.git/worktrees/wt\n",
		"parent/wt/.github/actionlint.yaml":       "paths:\n  '.github/workflows/t.yml':\n    ignore:\n      - 'shell name'\n",
		"parent/wt/.github/workflows/t.yml":       c15Workflows["w2.yml"],
		"parent/proj/mod/.git":                    "gitdir: ../.git/modules/mod\n",
		"parent/proj/mod/.github/actionlint.yaml": "paths:\n  '**/m.yml':\n    ignore:\n      - 'undefined variable'\n      - 'shell name'\n",
		"parent/proj/mod/.github/workflows/m.yml": c15Workflows["w2.yml"],
	}
	for n, c := range c15Workflows {
		files["parent/proj/.github/workflows/"+n] = c
	}
	vWriteFiles(t, base, files)
	linkRoot := filepath.Join(base, "parent", "link-to-proj")
	if err := os.Symlink(root, linkRoot); err != nil {
		r.HarnessError("symlink: %v", err)
		return
	}
	cfgPath := filepath.Join(root, ".github", "actionlint.yaml")
	cwds := map[string]string{"root": root, "parent": filepath.Join(base, "parent"), "nested": filepath.Join(root, ".github", "workflows"), "unrelated": filepath.Join(base, "other")}
	common := []string{"-oneline", "-no-color", "-shellcheck=", "-pyflakes="}

	// second: 3 = the patterns are YAML aliases of anchors set in a further entry that matches nothing;
	// second: 0 = no further entry; 1 = a further entry whose glob matches every workflow and ignores
	// the runner-label message; 2 = a further entry whose glob matches nothing and ignores everything
	customCfg := filepath.Join(base, "custom-config.yaml")
	cfgTarget := cfgPath // where writeCfg puts the configuration: the repository's own file or a file given with -config-file
	writeCfg := func(g *c15Glob, pats []string, second int) {
		os.Remove(cfgPath)
		os.Remove(customCfg)
		if (g == nil || len(pats) == 0) && (second == 0 || second == 3) {
			return
		}
		var b strings.Builder
		b.WriteString("paths:\n")
		if second == 2 {
			b.WriteString("  'nomatch2/**/*.yml':\n    ignore:\n      - '.*'\n")
		}
		if second == 3 {
			// the patterns are anchored in an entry that matches nothing and given as aliases below
			b.WriteString("  'nomatch3/**/*.yml':\n    ignore:\n")
			for i, p := range pats {
				b.WriteString(fmt.Sprintf("      - &p%d '%s'\n", i, strings.ReplaceAll(p, "'", "''")))
			}
		}
		if g != nil && len(pats) > 0 {
			b.WriteString("  '" + g.glob + "':\n    ignore:\n")
			for i, p := range pats {
				if second == 3 {
					b.WriteString(fmt.Sprintf("      - *p%d\n", i))
					continue
				}
				b.WriteString("      - '" + strings.ReplaceAll(p, "'", "''") + "'\n")
			}
		}
		if second == 1 {
			b.WriteString("  '**/*.yml':\n    ignore:\n      - 'label \"nosuchlabel\"'\n")
		}
		if err := os.WriteFile(cfgTarget, []byte(b.String()), 0o644); err != nil {
			t.Fatal(err)
		}
	}

	if raw := vReplayInput(); raw != nil {
		var rp struct {
			Cwd, Config string
			Via         string
			Stdin       string
			Args        []string
			Want        []string
			Multi       []string
			WantExit    int `json:"want_exit"`
		}
		jsonUnmarshal(raw, &rp)
		for k := 0; k < 2; k++ {
			os.Remove(cfgPath)
			os.Remove(customCfg)
			if rp.Config != "" {
				target := cfgPath
				if rp.Via == "flag" {
					target = customCfg
				}
				os.WriteFile(target, []byte(rp.Config), 0o644)
			}
			code, out, errOut := c15MainIn(cwds[rp.Cwd], rp.Args, rp.Stdin)
			fmt.Printf("replay %d: cwd=%s args=%v exit=%d (want %d)\nstdout:\n%s\nstderr:\n%s\nwant: %v\n", k, rp.Cwd, rp.Args, code, rp.WantExit, out, errOut, rp.Want)
			ds, _ := c15Parse(out)
			var got []string
			for _, d := range ds {
				got = append(got, fmt.Sprintf("%d:%d:%s", d.line, d.col, d.msg))
			}
			if rp.Multi != nil {
				var gm []string
				_, paths := c15Parse(out)
				for i, d := range ds {
					frag := "other"
					for _, f := range []string{"undefined variable", "shell name"} {
						if strings.Contains(d.msg, f) {
							frag = f
						}
					}
					pb := "?"
					if i < len(paths) {
						pb = filepath.Base(paths[i])
					}
					gm = append(gm, pb+":"+frag)
				}
				sort.Strings(gm)
				if strings.Join(gm, "|") != strings.Join(rp.Multi, "|") || code != rp.WantExit {
					r.Violation("replay-mismatch", fmt.Sprintf("remaining %v, expected %v", gm, rp.Multi), rp)
				}
				continue
			}
			if strings.Join(got, "\n") != strings.Join(rp.Want, "\n") || code != rp.WantExit {
				r.Violation("replay-mismatch", "output or exit status differs from the reference filter", rp)
			}
		}
		r.Class("replay", true)
		return
	}

	// unfiltered reference lists
	writeCfg(nil, nil, 0)
	unfiltered := map[string][]c15Diag{}
	for n := range c15Workflows {
		code, out, errOut := c15Main(root, append(append([]string{}, common...), filepath.Join(root, ".github/workflows", n)))
		ds, _ := c15Parse(out)
		unfiltered[n] = ds
		want := map[string]int{"w0.yml": 0, "w2.yml": 2, "w4.yml": 4, "wbad.yml": 1, "wtie.yml": 5}[n]
		if len(ds) != want || (code != 0) != (want > 0) {
			r.HarnessError("C15 seed %s: expected %d diagnostics, got %d (exit %d, stderr %q): %v", n, want, len(ds), code, errOut, ds)
			return
		}
	}

	var idx int64
	for _, wf := range vSortedKeys(c15Workflows) {
		for ci, cli := range c15CLISets {
			for gi := range c15Globs {
				g := &c15Globs[gi]
				for pi, cfgPats := range c15CfgSets {
					for _, cwdName := range []string{"root", "parent", "nested", "unrelated"} {
						for _, spelling := range []string{"relative", "dot-relative", "absolute", "stdin-relative", "stdin-absolute", "symlink-absolute", "symlink-relative"} {
							for second := 0; second < 4; second++ {
								for _, via := range []string{"repo", "flag"} {
									cfgTarget = cfgPath
									if via == "flag" {
										cfgTarget = customCfg
									}
									idx++
									if !r.Mine(idx) {
										continue
									}
									if idx%256 == 0 && r.Expired() {
										return
									}
									abs := filepath.Join(root, ".github/workflows", wf)
									if strings.HasPrefix(spelling, "symlink-") {
										// the repository reached through a symbolic link to its root directory
										abs = filepath.Join(linkRoot, ".github/workflows", wf)
									}
									arg := abs
									// stdin-*: the workflow is piped in and the path is given with -stdin-filename
									viaStdin := strings.HasPrefix(spelling, "stdin-")
									if spelling != "absolute" && spelling != "stdin-absolute" && spelling != "symlink-absolute" {
										rel, err := filepath.Rel(cwds[cwdName], abs)
										if err != nil {
											continue
										}
										arg = rel
										if spelling == "dot-relative" {
											arg = "./" + rel
										}
									}
									writeCfg(g, cfgPats, second)
									args := append([]string{}, common...)
									if via == "flag" {
										if _, err := os.Stat(customCfg); err == nil {
											args = append(args, "-config-file", customCfg)
										}
									}
									for _, p := range cli {
										args = append(args, "-ignore", p)
									}
									stdin := ""
									if viaStdin {
										args = append(args, "-stdin-filename", arg, "-")
										stdin = c15Workflows[wf]
									} else {
										args = append(args, arg)
									}
									r.Begin(func() string { return fmt.Sprintf("cwd=%s args=%v glob=%s cfg=%v", cwdName, args, g.glob, cfgPats) })
									code, out, errOut := c15MainIn(cwds[cwdName], args, stdin)
									r.Evaluations++
									r.Transitions++
									r.Validated++
									// reference filter
									var want []string
									for _, d := range unfiltered[wf] {
										drop := false
										for _, p := range cli {
											if regexp.MustCompile(p).MatchString(d.msg) {
												drop = true
											}
										}
										if g.matches[wf] {
											for _, p := range cfgPats {
												if regexp.MustCompile(p).MatchString(d.msg) {
													drop = true
												}
											}
										}
										if second == 1 && strings.Contains(d.msg, `label "nosuchlabel"`) {
											drop = true
										}
										if !drop {
											want = append(want, fmt.Sprintf("%d:%d:%s", d.line, d.col, d.msg))
										}
									}
									wantExit := 0
									if len(want) > 0 {
										wantExit = 1
									}
									ds, _ := c15Parse(out)
									var got []string
									for _, d := range ds {
										got = append(got, fmt.Sprintf("%d:%d:%s", d.line, d.col, d.msg))
									}
									cfgText := ""
									if b, err := os.ReadFile(cfgTarget); err == nil {
										cfgText = string(b)
									}
									replay := map[string]any{"cwd": cwdName, "args": args, "config": cfgText, "want": want, "want_exit": wantExit, "stdin": stdin, "via": via}
									desc := fmt.Sprintf("%s cwd=%s spelling=%s -ignore=%v paths[%s].ignore=%v second-entry=%d config-via=%s", wf, cwdName, spelling, cli, g.glob, cfgPats, second, via)
									if strings.Join(got, "\n") != strings.Join(want, "\n") {
										kind := "filter-mismatch"
										if len(got) > len(want) {
											kind = "not-filtered"
										} else if len(got) < len(want) {
											kind = "over-filtered"
										}
										feature := "cli"
										if len(cfgPats) > 0 {
											feature = fmt.Sprintf("config:cwd=%s:glob-matches=%v", cwdName, g.matches[wf])
										}
										r.Violation(kind+":"+feature, fmt.Sprintf("%s: output has %d diagnostics, the reference filter leaves %d\n got: %v\nwant: %v\nstderr: %s", desc, len(got), len(want), got, want, vTrunc(errOut, 200)), replay)
									} else if code != wantExit {
										r.Violation("exit-status", fmt.Sprintf("%s: exit status %d, expected %d (%d diagnostics remain); stderr %s", desc, code, wantExit, len(want), vTrunc(errOut, 200)), replay)
									}
									r.Class(fmt.Sprintf("remaining=%d/%d exit=%d", len(want), len(unfiltered[wf]), wantExit), len(want) < len(unfiltered[wf]))
									_, _ = ci, pi
									if idx%577 == 0 {
										r.Sample(map[string]any{"case": desc, "remaining": len(want), "exit": wantExit})
									}
								}
							}
						}
					}
				}
			}
		}
	}

	// invocations with several files of different repositories: each file is filtered by the
	// configuration of the repository that contains it, whatever comes first
	cfgTarget = cfgPath
	if r.Shard == 0 {
		writeCfg(&c15Globs[0], []string{"shell name"}, 0)
		cfgText := ""
		if b, err := os.ReadFile(cfgPath); err == nil {
			cfgText = string(b)
		}
		type mf struct {
			path string
			keep []string // message fragments that remain
		}
		mfs := []mf{
			{filepath.Join(root, ".github/workflows/w2.yml"), []string{"undefined variable"}},
			{filepath.Join(base, "parent/quiet/.github/workflows/q.yml"), nil},
			{filepath.Join(root, "sub/.github/workflows/s.yml"), []string{"shell name"}},
			{filepath.Join(base, "other/loose.yml"), []string{"undefined variable", "shell name"}},
			{filepath.Join(base, "parent/wt/.github/workflows/t.yml"), []string{"undefined variable"}},
			{filepath.Join(root, "mod/.github/workflows/m.yml"), nil},
		}
		var orders [][]int
		for a := range mfs {
			for b := range mfs {
				if a != b {
					orders = append(orders, []int{a, b})
					for c := range mfs {
						if c != a && c != b {
							orders = append(orders, []int{a, b, c})
						}
					}
				}
			}
		}
		for _, ord := range orders {
			for _, cwdName := range []string{"parent", "unrelated", "nested"} {
				for _, abs := range []bool{true, false} {
					for _, custom := range []bool{false, true} {
						args := append([]string{}, common...)
						if custom {
							// the same lines through a -format template instead of -oneline
							args = []string{"-no-color", "-shellcheck=", "-pyflakes=", "-format", c15OnelineTemplate}
						}
						var want []string
						for _, k := range ord {
							p := mfs[k].path
							if !abs {
								rel, err := filepath.Rel(cwds[cwdName], p)
								if err != nil {
									continue
								}
								p = rel
							}
							args = append(args, p)
							for _, frag := range mfs[k].keep {
								want = append(want, filepath.Base(mfs[k].path)+":"+frag)
							}
						}
						code, out, errOut := c15Main(cwds[cwdName], args)
						r.Evaluations++
						r.Transitions++
						r.Validated++
						ds, paths := c15Parse(out)
						var got []string
						for i, d := range ds {
							frag := "other"
							for _, f := range []string{"undefined variable", "shell name"} {
								if strings.Contains(d.msg, f) {
									frag = f
								}
							}
							pb := "?"
							if i < len(paths) {
								pb = filepath.Base(paths[i])
							}
							got = append(got, pb+":"+frag)
						}
						wantExit := 0
						if len(want) > 0 {
							wantExit = 1
						}
						sort.Strings(got)
						ws := append([]string{}, want...)
						sort.Strings(ws)
						replay := map[string]any{"cwd": cwdName, "args": args, "config": cfgText, "want": nil, "want_exit": wantExit, "multi": ws}
						if strings.Join(got, "|") != strings.Join(ws, "|") {
							r.Violation("multi-file:first="+filepath.Base(mfs[ord[0]].path), fmt.Sprintf("cwd=%s args=%v: remaining diagnostics %v, each file filtered by its own repository's configuration leaves %v; stderr %s", cwdName, args[3:], got, ws, vTrunc(errOut, 200)), replay)
						} else if code != wantExit {
							r.Violation("multi-file:exit-status", fmt.Sprintf("cwd=%s args=%v: exit status %d, expected %d", cwdName, args[3:], code, wantExit), replay)
						}
						r.Class(fmt.Sprintf("multi-file files=%d custom-format=%v", len(ord), custom), true)
					}
				}
			}
		}
	}

	// exit-status rows
	if r.Shard == 0 {
		writeCfg(nil, nil, 0)
		w2 := filepath.Join(root, ".github/workflows/w2.yml")
		rows := []struct {
			name string
			pre  func()
			args []string
			want int
		}{
			{"invalid-flag", nil, []string{"-no-such-flag", w2}, 2},
			{"unreadable-file", nil, []string{filepath.Join(root, ".github/workflows/missing.yml")}, 3},
			{"bad-ignore-regexp", nil, []string{"-ignore", "(unclosed", w2}, 3},
			{"bad-config-yaml", func() { os.WriteFile(cfgPath, []byte("paths: [\n"), 0o644) }, []string{w2}, 3},
			{"bad-config-regexp", func() {
				os.WriteFile(cfgPath, []byte("paths:\n  '**/*.yml':\n    ignore:\n      - '(unclosed'\n"), 0o644)
			}, []string{w2}, 3},
			{"bad-config-nonstring-ignore", func() {
				os.WriteFile(cfgPath, []byte("paths:\n  '**/*.yml':\n    ignore:\n      - [nomatch]\n"), 0o644)
			}, []string{w2}, 3},
			{"bad-config-mapping-ignore", func() {
				os.WriteFile(cfgPath, []byte("paths:\n  '**/*.yml':\n    ignore:\n      - {a: b}\n"), 0o644)
			}, []string{w2}, 3},
			{"bad-config-glob", func() { os.WriteFile(cfgPath, []byte("paths:\n  '[':\n    ignore: []\n"), 0o644) }, []string{w2}, 3},
			{"bad-config-file-option", nil, []string{"-config-file", filepath.Join(base, "nope.yaml"), w2}, 3},
			{"problems-with-format", nil, []string{"-format", c15OnelineTemplate, w2}, 1},
			{"two-files-with-format", nil, []string{"-format", c15OnelineTemplate, filepath.Join(root, ".github/workflows/w0.yml"), w2}, 1},
			{"two-clean-files-with-format", nil, []string{"-format", c15OnelineTemplate, filepath.Join(root, ".github/workflows/w0.yml"), filepath.Join(root, ".github/workflows/w0.yml")}, 0},
			{"repository-mode", nil, nil, 1},
			{"repository-mode-with-format", nil, []string{"-format", c15OnelineTemplate}, 1},
			{"clean-file", nil, []string{filepath.Join(root, ".github/workflows/w0.yml")}, 0},
			{"problems", nil, []string{w2}, 1},
		}
		for _, row := range rows {
			writeCfg(nil, nil, 0)
			if row.pre != nil {
				row.pre()
			}
			code, out, errOut := c15Main(root, append(append([]string{}, common...), row.args...))
			r.Evaluations++
			r.Transitions++
			r.Validated++
			if code != row.want {
				r.Violation("exit-status-row:"+row.name, fmt.Sprintf("%s: exit status %d, expected %d; stdout %q stderr %q", row.name, code, row.want, vTrunc(out, 200), vTrunc(errOut, 300)), map[string]any{"cwd": "root", "args": row.args, "config": "", "want": nil, "want_exit": row.want})
			}
			r.Class("exit-row "+row.name, true)
		}
		writeCfg(nil, nil, 0)
	}
}
