//go:build go1.23

package actionlint

// Glue between the Engine A explorer (vsched) and the check reports.

import (
	"fmt"
	"os"
	"sort"
	"strings"

	"github.com/rhysd/actionlint/verifshim/vsched"
)

// vScenario is one closed driver explored exhaustively within the budgets of Cfg.
type vScenario struct {
	Name string
	Cfg  vsched.Config
	Body func(x *vsched.Exec) string
	// Check returns "" or "key\x00message" for one finished execution.
	Check func(x *vsched.Exec, obs string) string
	// MinOutcomes, when > 0, is a vacuity guard: fewer distinct observations is a harness error.
	MinOutcomes int
	Meta        map[string]any
}

type vScenarioResult struct {
	Res *vsched.Result
}

// vExplore runs one scenario and folds the result into the report. Violation keys are
// "<scenario class>:<key>"; the replay payload holds the scenario name and the choice list.
func vExplore(r *vReport, sc *vScenario) *vsched.Result {
	cfg := sc.Cfg
	if !r.deadline.IsZero() {
		cfg.Deadline = r.deadline
	}
	cfg.Shard, cfg.NShards = r.Shard, r.NShards // shards split the children of the root execution
	if os.Getenv("VERIF_NOCACHE") != "" {
		cfg.NoStateCache = true
	}
	cfg.Check = func(x *vsched.Exec, obs string) string {
		if sc.Check == nil {
			return ""
		}
		return sc.Check(x, obs)
	}
	r.Begin(func() string { return "scenario " + sc.Name })
	res := vsched.Explore(cfg, func(x *vsched.Exec) string {
		r.Begin(func() string { return "scenario " + sc.Name + " (execution in progress)" })
		return sc.Body(x)
	})
	if res.HarnessErr != "" {
		r.HarnessError("scenario %s: %s", sc.Name, vTrunc(res.HarnessErr, 2000))
	}
	r.Evaluations += res.Execs
	r.Extra["sum_pruned_executions"] = vF(r.Extra["sum_pruned_executions"]) + float64(res.Pruned)
	r.Extra["sum_hb_states"] = vF(r.Extra["sum_hb_states"]) + float64(res.States)
	r.Transitions += res.Steps
	r.Validated += res.Execs
	if !res.Exhaustive {
		r.Exhaustive = false
		c := fmt.Sprintf("scenario %s stopped by %s after %d executions", sc.Name, res.Cap, res.Execs)
		r.Caps = append(r.Caps, c)
	}
	for _, v := range res.Violations {
		key, msg := "monitor", v.Msg
		if i := strings.Index(v.Msg, "\x00"); i >= 0 {
			key, msg = v.Msg[:i], v.Msg[i+1:]
		} else {
			key = vMonitorKey(v.Msg)
		}
		tr := v.Trace
		if len(tr) > 80 {
			tr = append(append([]string{}, tr[:40]...), append([]string{"..."}, tr[len(tr)-40:]...)...)
		}
		r.Violation(key, fmt.Sprintf("scenario %s: %s | choices=%v", sc.Name, vTrunc(msg, 600), v.Choices),
			map[string]any{"scenario": sc.Name, "choices": v.Choices, "trace": tr, "observation": vTrunc(v.Obs, 2000)})
		if n := res.ViolationCount[key]; n > 1 {
			r.vkeys[key].Count += n - 1
		}
	}
	if sc.MinOutcomes > 0 && r.NShards <= 1 && len(res.Outcomes) < sc.MinOutcomes && res.Exhaustive && len(res.Violations) == 0 {
		r.HarnessError("scenario %s is vacuous: %d distinct observations, expected >= %d", sc.Name, len(res.Outcomes), sc.MinOutcomes)
	}
	return res
}

func vMonitorKey(msg string) string {
	switch {
	case strings.HasPrefix(msg, "deadlock"):
		return "deadlock"
	case strings.HasPrefix(msg, "panic in"):
		return "panic"
	case strings.Contains(msg, "WaitGroup.Add from zero"):
		return "wg-add-after-wait"
	case strings.Contains(msg, "negative WaitGroup"):
		return "wg-negative"
	case strings.Contains(msg, "semaphore"):
		return "semaphore-misuse"
	case strings.Contains(msg, "unlock") || strings.Contains(msg, "Unlock"):
		return "unlock-misuse"
	case strings.Contains(msg, "horizon"):
		return "horizon"
	}
	return "monitor"
}

func vSortedCopy(ss []string) []string {
	out := append([]string{}, ss...)
	sort.Strings(out)
	return out
}

func vF(v any) float64 {
	f, _ := v.(float64)
	return f
}
