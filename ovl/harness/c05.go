//go:build go1.23

package actionlint

// C05 — references to steps / needs / matrix / inputs / secrets / jobs resolve by scope.
//
// Five small-scope families, each enumerated completely; the generator knows what it defined
// where, so the oracle is the scope rule of the statement computed over the generated structure.

import (
	"bytes"
	"fmt"
	"os"
	"path/filepath"
	"regexp"

	"gopkg.in/yaml.v3"
	"strings"
	"testing"
)

type c05Ref struct {
	Line    int    `json:"line"`
	Name    string `json:"name"` // property whose definedness is asserted (lower case)
	Defined bool   `json:"defined"`
	What    string `json:"what"`
}

var c05UndefRe = regexp.MustCompile(`^property "([^"]+)" is not defined in object type`)

var (
	c05PlaceholderRe = regexp.MustCompile(`\$\{\{.*?\}\}`)
	c05CtxDotRe      = regexp.MustCompile(`(?i)\b(steps|needs|matrix|inputs|secrets|jobs)\.([A-Za-z_][A-Za-z0-9_-]*)`)
	c05OutputsDotRe  = regexp.MustCompile(`(?i)\.(outputs)\.([A-Za-z_][A-Za-z0-9_-]*)`)
)

// c05IndexForm rewrites every reference inside the placeholders of src from dotted to index
// spelling (steps.S1.outputs.O -> steps['S1'].outputs['O']): resolution by scope is the same.
func c05IndexForm(src string) string {
	return c05PlaceholderRe.ReplaceAllStringFunc(src, func(ph string) string {
		ph = c05CtxDotRe.ReplaceAllString(ph, "$1['$2']")
		return c05OutputsDotRe.ReplaceAllString(ph, ".$1['$2']")
	})
}

func c05Judge(r *vReport, family, desc, src string, refs []c05Ref, ignoreKinds map[string]bool) {
	c05JudgeOne(r, family, desc, src, refs)
	// the same workflow with every reference in index spelling (skipped where the quotes of the
	// index spelling do not fit the YAML scalar the placeholder stands in)
	if alt := c05IndexForm(src); alt != src && !strings.Contains(family, "index-form") {
		var probe any
		if yaml.Unmarshal([]byte(alt), &probe) == nil {
			c05JudgeOne(r, family+":index-form", desc, alt, refs)
		} else {
			n, _ := r.Extra["sum_index_form_skipped_not_yaml"].(float64)
			r.Extra["sum_index_form_skipped_not_yaml"] = n + 1
		}
	}
}

// c05Lint, when set, lints the generated workflow as a file of a repository (project families).
var c05Lint func(src string) vLintResult

func c05JudgeOne(r *vReport, family, desc, src string, refs []c05Ref) {
	res := vLintResult{}
	if c05Lint != nil {
		res = c05Lint(src)
	} else {
		res = vLint(src, nil)
	}
	r.Evaluations++
	r.Transitions++
	r.Validated++
	replay := map[string]any{"family": family, "desc": desc, "src": src, "ref_list": refs}
	if res.Panic != "" || res.Err != nil {
		r.Violation("failure", fmt.Sprintf("%s %s: panic=%q err=%v", family, desc, vTrunc(res.Panic, 200), res.Err), replay)
		return
	}
	for _, ref := range refs {
		reported := false
		for _, d := range vDiags(res.Errs) {
			if d.Line != ref.Line {
				continue
			}
			if m := c05UndefRe.FindStringSubmatch(d.Msg); m != nil && strings.ToLower(m[1]) == ref.Name { // the index spelling echoes the name as written
				reported = true
			}
		}
		switch {
		case ref.Defined && reported:
			r.Violation("false-undefined:"+family+":"+ref.What, fmt.Sprintf("%s %s: %q is in scope (%s) but reported as undefined at line %d\n%s", family, desc, ref.Name, ref.What, ref.Line, src), replay)
		case !ref.Defined && !reported:
			r.Violation("missed-undefined:"+family+":"+ref.What, fmt.Sprintf("%s %s: %q is out of scope (%s) but not reported at line %d; diagnostics %v\n%s", family, desc, ref.Name, ref.What, ref.Line, vDiagStrings(res.Errs), src), replay)
		}
		r.Class(fmt.Sprintf("%s %s defined=%v", family, ref.What, ref.Defined), !ref.Defined)
	}
}

// ---------------------------------------------------------------------------------------------
// (a) steps

var c05StepFields = []string{"run", "name", "if", "env", "with", "working-directory", "timeout-minutes", "continue-on-error"}

func c05Steps(r *vReport, idx *int64, maxSteps int) {
	// shapes: steps per job
	var shapes [][]int
	for a := 1; a <= maxSteps; a++ {
		shapes = append(shapes, []int{a})
		for b := 1; b <= maxSteps; b++ {
			shapes = append(shapes, []int{a, b})
		}
	}
	for _, shape := range shapes {
		total := 0
		for _, n := range shape {
			total += n
		}
		for mask := 0; mask < 1<<total; mask++ {
			// ids: step (j,k) has id "sJK" iff bit set
			idOf := func(j, k int) string {
				bit := k
				for q := 0; q < j; q++ {
					bit += shape[q]
				}
				if mask&(1<<bit) != 0 {
					return fmt.Sprintf("s%d%d", j, k)
				}
				return ""
			}
			var targets []string
			for j := range shape {
				for k := 0; k < shape[j]; k++ {
					if id := idOf(j, k); id != "" {
						targets = append(targets, id)
					}
				}
			}
			targets = append(targets, "undef")
			// reference positions
			type pos struct {
				job, step int    // step -1: job-level position
				field     string // step field, or "outputs" / "environment-url"
			}
			var positions []pos
			for j := range shape {
				for k := 0; k < shape[j]; k++ {
					for _, f := range c05StepFields {
						positions = append(positions, pos{j, k, f})
					}
				}
				positions = append(positions, pos{j, -1, "outputs"}, pos{j, -1, "environment-url"})
			}
			for _, p := range positions {
				for _, tgt := range targets {
					for wrap := range c05Wraps {
						for early := 0; early < 2; early++ { // 1: the field with the reference is written before run:
							if early == 1 && (p.step == -1 || p.field == "run" || p.field == "with") {
								continue
							}
							*idx++
							if !r.Mine(*idx) {
								continue
							}
							if *idx%4096 == 0 && r.Expired() {
								return
							}
							expr := "${{ " + fmt.Sprintf(c05Wraps[wrap], "steps."+strings.ToUpper(tgt[:1])+tgt[1:]+".outputs.o") + " }}"
							var b strings.Builder
							line := 1
							w := func(s string) { b.WriteString(s + "\n"); line++ }
							w("on: push")
							w("jobs:")
							refLine := 0
							for j := range shape {
								w(fmt.Sprintf("  j%d:", j))
								w("    runs-on: ubuntu-latest")
								if p.job == j && p.field == "outputs" {
									w("    outputs:")
									refLine = line
									w("      o: " + expr)
								}
								if p.job == j && p.field == "environment-url" {
									w("    environment:")
									w("      name: prod")
									refLine = line
									w("      url: " + expr)
								}
								w("    steps:")
								for k := 0; k < shape[j]; k++ {
									first := true
									item := func(s string) {
										if first {
											w("      - " + s)
											first = false
										} else {
											w("        " + s)
										}
									}
									if id := idOf(j, k); id != "" {
										item("id: " + id)
									}
									here := p.job == j && p.step == k
									uses := here && p.field == "with"
									if uses {
										item("uses: actions/checkout@v4")
										item("with:")
										refLine = line
										w("          ref: " + expr)
									} else {
										// the field that carries the reference: written after run: or (early) before it
										field := func() {
											switch p.field {
											case "working-directory":
												refLine = line
												item("working-directory: " + expr)
											case "name":
												refLine = line
												item("name: " + expr)
											case "if":
												refLine = line
												item("if: " + strings.Replace(expr, " }}", " == 'x' }}", 1))
											case "env":
												item("env:")
												refLine = line
												w("          V: " + expr)
											case "timeout-minutes":
												refLine = line
												item("timeout-minutes: " + expr)
											case "continue-on-error":
												refLine = line
												item("continue-on-error: " + strings.Replace(expr, " }}", " == 'x' }}", 1))
											}
										}
										if here && early == 1 {
											field()
										}
										if here && p.field == "run" {
											refLine = line
											item("run: echo " + expr)
										} else {
											item("run: echo")
										}
										if here && early == 0 {
											field()
										}
									}
								}
							}
							// scope rule
							defined := false
							for k := 0; k < shape[p.job]; k++ {
								if idOf(p.job, k) == tgt && (p.step == -1 || k < p.step) {
									defined = true
								}
							}
							what := "step-field:" + p.field
							if p.step == -1 {
								what = "job-" + p.field
							}
							desc := fmt.Sprintf("shape=%v ids=%b ref at job %d step %d field %s (before run: %d) wrap %d -> %s", shape, mask, p.job, p.step, p.field, early, wrap, tgt)
							c05Judge(r, "steps", desc, b.String(), []c05Ref{{refLine, tgt, defined, what}}, nil)
							if *idx%15013 == 0 {
								r.Sample(map[string]any{"family": "steps", "case": desc, "in_scope": defined})
							}
						}
					}
				}
			}
		}
	}
}

// c05Wraps are the expression shapes a reference is embedded in: plain, and as an operand whose
// own type is narrowed away (it must still be resolved).
var c05Wraps = []string{"%s", "%s && 'a' || 'b'", "(%s || 'a') && 'b'", "!(%s && true) && 'y'"}

// ---------------------------------------------------------------------------------------------
// (b) needs

func c05Needs(r *vReport, idx *int64) {
	names := []string{"ja", "jb", "jc"}
	perms := [][]int{{0, 1, 2}, {0, 2, 1}, {1, 0, 2}, {1, 2, 0}, {2, 0, 1}, {2, 1, 0}}
	for mask := 0; mask < 64; mask++ {
		// edge i -> j (i needs j), i != j
		needs := func(i, j int) bool {
			if i == j {
				return false
			}
			bit := i*2 + j
			if j > i {
				bit--
			}
			return mask&(1<<bit) != 0
		}
		for _, perm := range perms {
			for callKind := 0; callKind < 2; callKind++ { // job jb is a step job (0) or a reusable workflow call (1)
				*idx++
				if !r.Mine(*idx) {
					continue
				}
				var b strings.Builder
				line := 1
				w := func(s string) { b.WriteString(s + "\n"); line++ }
				w("on: push")
				w("jobs:")
				var refs []c05Ref
				for _, ji := range perm {
					w("  " + names[ji] + ":")
					var ns []string
					for k := 0; k < 3; k++ {
						if needs(ji, k) {
							ns = append(ns, strings.ToUpper(names[k]))
						}
					}
					if len(ns) > 0 {
						w("    needs: [" + strings.Join(ns, ", ") + "]")
					}
					if ji == 1 && callKind == 1 {
						w("    uses: owner/repo/.github/workflows/w.yml@v1")
						continue
					}
					w("    runs-on: ubuntu-latest")
					w("    outputs:")
					w("      out" + names[ji] + ": v")
					w("    steps:")
					for k := 0; k < 3; k++ {
						if k == ji {
							continue
						}
						direct := needs(ji, k)
						refs = append(refs, c05Ref{line, names[k], direct, "needs.<job>.result"})
						w("      - run: echo ${{ needs." + names[k] + ".result }}")
						if direct {
							declared := !(k == 1 && callKind == 1)
							refs = append(refs, c05Ref{line, "out" + names[k], true, "needs.<job>.outputs.<declared>"})
							w("      - run: echo ${{ needs." + names[k] + ".outputs.OUT" + names[k] + " }}")
							// undeclared output: reported for a step job, not for a reusable workflow call
							refs = append(refs, c05Ref{line, "nodecl", !declared, "needs.<job>.outputs.<undeclared>"})
							w("      - run: echo ${{ needs." + names[k] + ".outputs.nodecl }}")
						}
					}
				}
				desc := fmt.Sprintf("edges=%06b order=%v jb-is-call=%d", mask, perm, callKind)
				c05Judge(r, "needs", desc, b.String(), refs, nil)
				if *idx%97 == 0 {
					r.Sample(map[string]any{"family": "needs", "case": desc, "refs": len(refs)})
				}
			}
		}
	}
}

// ---------------------------------------------------------------------------------------------
// (c) matrix

func c05Matrix(r *vReport, idx *int64) {
	type mcase struct {
		name   string
		matrix string   // lines below "strategy:" at 6 spaces
		def    []string // defined keys
		loose  bool     // defining section is (partly) an expression: nothing is reported
		nested map[string][]string
	}
	cases := []mcase{
		{"rows", "      matrix:\n        ka: [1]\n        kb: [x]\n", []string{"ka", "kb"}, false, nil},
		{"rows+include-same", "      matrix:\n        ka: [1]\n        include:\n          - ka: 2\n", []string{"ka"}, false, nil},
		{"rows+include-new", "      matrix:\n        ka: [1]\n        include:\n          - ka: 1\n            kinc: 2\n", []string{"ka", "kinc"}, false, nil},
		{"include-only", "      matrix:\n        include:\n          - kinc: 2\n          - kinc2: 3\n", []string{"kinc", "kinc2"}, false, nil},
		{"rows+exclude", "      matrix:\n        ka: [1, 2]\n        exclude:\n          - ka: 1\n", []string{"ka"}, false, nil},
		{"nested", "      matrix:\n        ka: [{nx: 1, ny: {nz: 2}}]\n", []string{"ka"}, false, map[string][]string{"ka": {"nx", "ny"}}},
		{"row-expression", "      matrix:\n        ka: ${{ fromJSON(vars.R) }}\n        kb: [1]\n", []string{"ka", "kb"}, false, map[string][]string{"ka": {"*"}}},
		{"include-expression", "      matrix:\n        ka: [1]\n        include: ${{ fromJSON(vars.I) }}\n", nil, true, nil},
		{"include-element-expression", "      matrix:\n        ka: [1]\n        include:\n          - ${{ fromJSON(vars.I) }}\n", nil, true, nil},
		{"matrix-expression", "      matrix: ${{ fromJSON(vars.M) }}\n", nil, true, nil},
		// include elements given by expressions whose type is an object with UNKNOWN keys (a map of
		// strings, an open object), next to a literal element / alone / after a literal element
		{"include-element-vars", "      matrix:\n        ka: [1]\n        include:\n          - ${{ vars }}\n", nil, true, nil},
		{"include-element-event", "      matrix:\n        ka: [1]\n        include:\n          - kinc: 1\n          - ${{ github.event }}\n", nil, true, nil},
		{"include-element-vars-first", "      matrix:\n        include:\n          - ${{ vars }}\n          - kinc: 1\n", nil, true, nil},
		{"include-element-vars-and-literal-json", "      matrix:\n        ka: [1]\n        include:\n          - ${{ vars }}\n          - ${{ fromJSON('{\"kj\": 1}') }}\n", nil, true, nil},
		{"include-element-client-payload", "      matrix:\n        ka: [1]\n        include:\n          - ${{ github.event.client_payload }}\n", nil, true, nil},
	}
	positions := []string{"step-run", "step-env", "step-if", "job-name", "job-env", "runs-on", "container-image"}
	// the same definitions with the keys spelled in mixed case (references stay upper-cased: names
	// are case-insensitive on both sides)
	recase := strings.NewReplacer("kinc2:", "KINC2:", "kinc:", "kInc:", "ka:", "Ka:", "kb:", "KB:", "nx:", "Nx:", "ny:", "nY:", "nz:", "NZ:")
	for _, mc := range append([]mcase{}, cases...) {
		mc.name += "/mixed-case-keys"
		mc.matrix = recase.Replace(mc.matrix)
		cases = append(cases, mc)
	}
	for _, mc := range cases {
		for _, pos := range positions {
			keys := append(append([]string{}, mc.def...), "kundef")
			if mc.loose {
				keys = []string{"ka", "kundef"}
			}
			for _, key := range keys {
				*idx++
				if !r.Mine(*idx) {
					continue
				}
				chains := []struct {
					expr    string
					name    string
					defined bool
				}{}
				isDef := mc.loose
				for _, d := range mc.def {
					if d == key {
						isDef = true
					}
				}
				chains = append(chains, struct {
					expr    string
					name    string
					defined bool
				}{"matrix." + strings.ToUpper(key), key, isDef})
				if sub, ok := mc.nested[key]; ok && isDef {
					if sub[0] == "*" {
						chains = append(chains, struct {
							expr    string
							name    string
							defined bool
						}{"matrix." + key + ".anything.deeper", "anything", true})
					} else {
						chains = append(chains, struct {
							expr    string
							name    string
							defined bool
						}{"matrix." + key + "." + sub[0], sub[0], true}, struct {
							expr    string
							name    string
							defined bool
						}{"matrix." + key + ".nundef", "nundef", false}, struct {
							expr    string
							name    string
							defined bool
						}{"matrix." + key + ".ny.nz", "nz", true}, struct {
							expr    string
							name    string
							defined bool
						}{"matrix." + key + ".ny.nundef2", "nundef2", false})
					}
				}
				for _, ch := range chains {
					e := "${{ " + ch.expr + " }}"
					var b strings.Builder
					line := 1
					w := func(s string) { b.WriteString(s + "\n"); line++ }
					refLine := 0
					w("on: push")
					w("jobs:")
					w("  j:")
					if pos == "job-name" {
						refLine = line
						w("    name: " + e)
					}
					if pos == "runs-on" {
						refLine = line
						w("    runs-on: " + e)
					} else {
						w("    runs-on: ubuntu-latest")
					}
					if pos == "job-env" {
						w("    env:")
						refLine = line
						w("      V: " + e)
					}
					if pos == "container-image" {
						w("    container:")
						refLine = line
						w("      image: " + e)
					}
					w("    strategy:")
					b.WriteString(mc.matrix)
					line += strings.Count(mc.matrix, "\n")
					w("    steps:")
					switch pos {
					case "step-run":
						refLine = line
						w("      - run: echo " + e)
					case "step-env":
						w("      - run: echo")
						w("        env:")
						refLine = line
						w("          V: " + e)
					case "step-if":
						w("      - run: echo")
						refLine = line
						w("        if: " + strings.Replace(e, " }}", " == 'x' }}", 1))
					default:
						w("      - run: echo")
					}
					desc := fmt.Sprintf("%s ref %s at %s", mc.name, ch.expr, pos)
					c05Judge(r, "matrix", desc, b.String(), []c05Ref{{refLine, ch.name, ch.defined, mc.name}}, nil)
				}
			}
		}
	}
}

// (c2) a job sees only its own matrix: jobs with and without a matrix side by side, both orders
// c05MatrixInvalidRows: a row key whose VALUE is not a list of values (empty list, mapping, nested
// empty list) is reported for its value - and is still a row key: references to it are in scope,
// references to other names are not.
func c05MatrixInvalidRows(r *vReport, idx *int64) {
	for _, bad := range []string{"[]", "{a: b}", "[[]]"} {
		for _, other := range []string{"", "        v: [1]\n", "        include:\n          - inc: 1\n"} {
			for _, first := range []bool{true, false} {
				*idx++
				if !r.Mine(*idx) {
					continue
				}
				rows := "        Bad: " + bad + "\n"
				if first {
					rows += other
				} else {
					rows = other + rows
				}
				src := "on: push\njobs:\n  a:\n    runs-on: ubuntu-latest\n    strategy:\n      matrix:\n" + rows + "    steps:\n"
				line := strings.Count(src, "\n") + 1
				src += "      - run: echo ${{ matrix.bad }}\n      - run: echo ${{ matrix.BAD.x }}\n      - run: echo ${{ matrix.nope }}\n"
				refs := []c05Ref{{line, "bad", true, "matrix.<row with invalid values>"}, {line + 1, "bad", true, "matrix.<row with invalid values>"}}
				refs = append(refs, c05Ref{line + 2, "nope", false, "matrix.<undefined> next to a row with invalid values"})
				c05Judge(r, "matrix-invalid-row", fmt.Sprintf("row value %s other=%q first=%v", bad, other, first), src, refs, nil)
			}
		}
	}
}

func c05MatrixAcrossJobs(r *vReport, idx *int64) {
	definers := map[string]string{
		"step-job-matrix":     "  definer:\n    runs-on: ubuntu-latest\n    strategy:\n      matrix:\n        ka: [1]\n        kb: [2]\n    steps:\n      - run: echo ${{ matrix.ka }}\n",
		"call-job-matrix":     "  definer:\n    strategy:\n      matrix:\n        ka: [1]\n        kb: [2]\n    uses: owner/repo/.github/workflows/w.yml@v1\n    with:\n      x: ${{ matrix.ka }}\n",
		"call-job-include":    "  definer:\n    strategy:\n      matrix:\n        include:\n          - ka: 1\n    uses: owner/repo/.github/workflows/w.yml@v1\n",
		"expression-matrix":   "  definer:\n    runs-on: ubuntu-latest\n    strategy:\n      matrix: ${{ fromJSON(vars.M) }}\n    steps:\n      - run: echo ${{ matrix.anything }}\n",
		"call-job-expression": "  definer:\n    strategy:\n      matrix: ${{ fromJSON(vars.M) }}\n    uses: owner/repo/.github/workflows/w.yml@v1\n",
	}
	users := map[string]string{
		"step-job-no-matrix":   "  user:\n    runs-on: ubuntu-latest\n    steps:\n      - run: echo ${{ matrix.KA }}\n",
		"call-job-no-matrix":   "  user:\n    uses: owner/repo/.github/workflows/w.yml@v1\n    with:\n      x: ${{ matrix.KA }}\n",
		"own-matrix-other-key": "  user:\n    runs-on: ubuntu-latest\n    strategy:\n      matrix:\n        kc: [1]\n    steps:\n      - run: echo ${{ matrix.KA }}\n",
	}
	for _, dn := range vSortedKeys(definers) {
		for _, un := range vSortedKeys(users) {
			for order := 0; order < 2; order++ {
				*idx++
				if !r.Mine(*idx) {
					continue
				}
				src := "on: push\njobs:\n"
				var refLine int
				find := func(s string) int {
					for i, l := range strings.Split(s, "\n") {
						if strings.Contains(l, "matrix.KA") {
							return i + 1
						}
					}
					return 0
				}
				if order == 0 {
					src += definers[dn] + users[un]
				} else {
					src += users[un] + definers[dn]
				}
				refLine = find(src)
				c05Judge(r, "matrix-across-jobs", fmt.Sprintf("%s then/before %s order=%d", dn, un, order), src, []c05Ref{{refLine, "ka", false, "job-without-that-key"}}, nil)
			}
		}
	}
}

// ---------------------------------------------------------------------------------------------
// (d) inputs and secrets, (e) jobs.<job>.outputs in workflow_call outputs

func c05InputsSecrets(r *vReport, idx *int64) {
	for call := 0; call < 2; call++ {
		for dispatch := 0; dispatch < 2; dispatch++ {
			for order := 0; order < 2; order++ { // 0: workflow_dispatch written before workflow_call, 1: after it
				if order == 1 && (call == 0 || dispatch == 0) {
					continue
				}
				for secretsDecl := 0; secretsDecl < 3; secretsDecl++ { // 0: no secrets section, 1: declares sa, 2: empty secrets section is not valid YAML-wise; use 1 secret + different name
					if call == 0 && secretsDecl > 0 {
						continue
					}
					if secretsDecl == 2 {
						continue
					}
					*idx++
					if !r.Mine(*idx) {
						continue
					}
					var b strings.Builder
					line := 1
					w := func(s string) { b.WriteString(s + "\n"); line++ }
					w("on:")
					w("  push:")
					var refs []c05Ref
					wDispatch := func() {
						w("  workflow_dispatch:")
						w("    inputs:")
						w("      din:")
						w("        type: string")
					}
					if dispatch == 1 && order == 0 {
						wDispatch()
					}
					if call == 1 {
						w("  workflow_call:")
						w("    inputs:")
						w("      cin:")
						w("        type: string")
						// default values of call inputs see the dispatch inputs (wherever that event is
						// written) and the call inputs declared before them
						for _, d := range []struct {
							expr, name string
							defined    bool
							what       string
						}{
							{"inputs.DIN", "din", dispatch == 1, "call default: inputs.<dispatch input>"},
							{"inputs.Cin", "cin", true, "call default: inputs.<earlier call input>"},
							{"inputs.iundef", "iundef", false, "call default: inputs.<undeclared>"},
						} {
							w("      cdef" + d.name + ":")
							w("        type: string")
							refs = append(refs, c05Ref{line, d.name, d.defined, d.what})
							w("        default: ${{ " + d.expr + " }}")
						}
						if secretsDecl == 1 {
							w("    secrets:")
							w("      sa:")
							w("        required: true")
						}
						w("    outputs:")
						w("      wo1:")
						refOut1 := line
						w("        value: ${{ jobs.J.outputs.JO }}")
						w("      wo2:")
						refOut2 := line
						w("        value: ${{ jobs.j.outputs.jundef }}")
						w("      wo3:")
						refOut3 := line
						w("        value: ${{ jobs.jnone.outputs.x }}")
						defer func(l1, l2, l3 int) {}(refOut1, refOut2, refOut3)
						_ = refOut1
					}
					if dispatch == 1 && order == 1 {
						wDispatch()
					}
					w("jobs:")
					w("  j:")
					w("    runs-on: ubuntu-latest")
					w("    outputs:")
					w("      jo: v")
					w("    steps:")
					add := func(expr, name string, defined bool, what string) {
						refs = append(refs, c05Ref{line, name, defined, what})
						w("      - run: echo ${{ " + expr + " }}")
					}
					anyInputs := call == 1 || dispatch == 1
					if anyInputs {
						add("inputs.DIN", "din", dispatch == 1, "inputs.<dispatch input>")
						add("inputs.Cin", "cin", call == 1, "inputs.<call input>")
						add("inputs.iundef", "iundef", false, "inputs.<undeclared>")
					}
					if call == 1 && secretsDecl == 1 {
						add("secrets.SA", "sa", true, "secrets.<declared>")
						add("secrets.sundef", "sundef", false, "secrets.<undeclared>")
						add("secrets.GITHUB_TOKEN", "github_token", true, "secrets.<automatic>")
						add("secrets.actions_step_debug", "actions_step_debug", true, "secrets.<automatic>")
						add("secrets.ACTIONS_RUNNER_DEBUG", "actions_runner_debug", true, "secrets.<automatic>")
					} else {
						add("secrets.anything", "anything", true, "secrets.<no declaration>")
					}
					src := b.String()
					if call == 1 {
						// lines of the workflow_call outputs values
						lines := strings.Split(src, "\n")
						for i, l := range lines {
							switch {
							case strings.Contains(l, "jobs.J.outputs.JO"):
								refs = append(refs, c05Ref{i + 1, "jo", true, "jobs.<job>.outputs.<declared>"})
							case strings.Contains(l, "jobs.j.outputs.jundef"):
								refs = append(refs, c05Ref{i + 1, "jundef", false, "jobs.<job>.outputs.<undeclared>"})
							case strings.Contains(l, "jobs.jnone.outputs.x"):
								refs = append(refs, c05Ref{i + 1, "jnone", false, "jobs.<undefined job>"})
							}
						}
					}
					desc := fmt.Sprintf("call=%d dispatch=%d dispatch-after-call=%d secrets=%d", call, dispatch, order, secretsDecl)
					c05Judge(r, "inputs-secrets-jobs", desc, src, refs, nil)
				}
			}
		}
	}
}

// (d2) the same three references (dispatch input, call input, undeclared) at every other position of a
// workflow where `inputs` is available: one reference per generated workflow.
var c05InputPositions = []struct {
	name  string
	where string   // "top" (between on: and jobs:), "job" (keys of job j) or "steps" (the steps of job j)
	lines []string // %s = the placeholder; the reference stands on the LAST line
}{
	{"run-name", "top", []string{"run-name: Run %s"}},
	{"workflow env", "top", []string{"env:", "  E: %s"}},
	{"workflow concurrency group", "top", []string{"concurrency:", "  group: g-%s"}},
	{"workflow defaults working-directory", "top", []string{"defaults:", "  run:", "    working-directory: %s"}},
	{"job name", "job", []string{"    name: N %s"}},
	{"job if", "job", []string{"    if: %s == 'x'"}},
	{"job env", "job", []string{"    env:", "      E: %s"}},
	{"job concurrency group", "job", []string{"    concurrency:", "      group: g-%s"}},
	{"job environment", "job", []string{"    environment: %s"}},
	{"job container image", "job", []string{"    container:", "      image: %s"}},
	{"job output", "job", []string{"    outputs:", "      o: %s"}},
	{"runs-on", "job-runs-on", []string{"    runs-on: %s"}},
	{"step name", "steps", []string{"      - run: echo", "        name: %s"}},
	{"step if", "steps", []string{"      - run: echo", "        if: %s == 'x'"}},
	{"step env", "steps", []string{"      - run: echo", "        env:", "          E: %s"}},
	{"step with", "steps", []string{"      - uses: actions/checkout@v4", "        with:", "          ref: %s"}},
	{"step working-directory", "steps", []string{"      - run: echo", "        working-directory: %s"}},
}

func c05InputsEverywhere(r *vReport, idx *int64) {
	type refSpec struct {
		expr, name string
		defined    func(call, dispatch int) bool
		what       string
	}
	specs := []refSpec{
		{"inputs.DIN", "din", func(c, d int) bool { return d == 1 }, "inputs.<dispatch input>"},
		{"inputs.Cin", "cin", func(c, d int) bool { return c == 1 }, "inputs.<call input>"},
		{"inputs.iundef", "iundef", func(c, d int) bool { return false }, "inputs.<undeclared>"},
	}
	for call := 0; call < 2; call++ {
		for dispatch := 0; dispatch < 2; dispatch++ {
			if call == 0 && dispatch == 0 {
				continue
			}
			for order := 0; order < 2; order++ {
				if order == 1 && (call == 0 || dispatch == 0) {
					continue
				}
				for _, pos := range c05InputPositions {
					for _, spec := range specs {
						*idx++
						if !r.Mine(*idx) {
							continue
						}
						var b strings.Builder
						line := 1
						w := func(s string) { b.WriteString(s + "\n"); line++ }
						refLine := 0
						wPos := func() {
							for i, l := range pos.lines {
								if i == len(pos.lines)-1 {
									refLine = line
									l = fmt.Sprintf(l, "${{ "+spec.expr+" }}")
								}
								w(l)
							}
						}
						wDispatch := func() {
							w("  workflow_dispatch:")
							w("    inputs:")
							w("      din:")
							w("        type: string")
						}
						w("on:")
						w("  push:")
						if dispatch == 1 && order == 0 {
							wDispatch()
						}
						if call == 1 {
							w("  workflow_call:")
							w("    inputs:")
							w("      cin:")
							w("        type: string")
						}
						if dispatch == 1 && order == 1 {
							wDispatch()
						}
						if pos.where == "top" {
							wPos()
						}
						w("jobs:")
						w("  j:")
						if pos.where == "job-runs-on" {
							wPos()
						} else {
							w("    runs-on: ubuntu-latest")
						}
						if pos.where == "job" {
							wPos()
						}
						w("    steps:")
						if pos.where == "steps" {
							wPos()
						} else {
							w("      - run: echo")
						}
						desc := fmt.Sprintf("call=%d dispatch=%d dispatch-after-call=%d position=%s", call, dispatch, order, pos.name)
						refs := []c05Ref{{refLine, spec.name, spec.defined(call, dispatch), spec.what + " at " + pos.name}}
						c05Judge(r, "inputs-everywhere", desc, b.String(), refs, nil)
					}
				}
			}
		}
	}
}

// c05ExprIDs: a step id given (wholly or partly) by an expression: the ids of the job are then not
// known statically and references to steps after that step are not reported; before it the scope
// is still exact, and a reference inside the id itself is resolved like any other.
func c05ExprIDs(r *vReport, idx *int64) {
	ids := []string{"${{ matrix.os }}", "build-${{ matrix.os }}", "${{ matrix.os }}-build", "${{ matrix.os }}-${{ matrix.os }}", "' ${{ matrix.os }} '", "a${{ matrix.os }}b${{ matrix.os }}c"}
	for _, id := range ids {
		for _, inner := range []bool{false, true} {
			*idx++
			if !r.Mine(*idx) {
				continue
			}
			var b strings.Builder
			line := 1
			w := func(s string) { b.WriteString(s + "\n"); line++ }
			var refs []c05Ref
			w("on: push")
			w("jobs:")
			w("  j:")
			w("    runs-on: ubuntu-latest")
			w("    strategy:")
			w("      matrix:")
			w("        os: [a, b]")
			w("    outputs:")
			refs = append(refs, c05Ref{line, "anything", true, "job output after an expression id"})
			w("      o: ${{ steps.Anything.outputs.x }}")
			w("    steps:")
			w("      - id: s0")
			w("        run: echo")
			refs = append(refs, c05Ref{line, "early", false, "step before the expression id: undefined id"})
			w("      - run: echo ${{ steps.Early.outputs.x }}")
			refs = append(refs, c05Ref{line, "s0", true, "step before the expression id: earlier id"})
			w("      - run: echo ${{ steps.S0.outputs.x }}")
			text := id
			if inner {
				text = strings.Replace(id, "${{ matrix.os }}", "${{ steps.Inner.outputs.x }}", 1)
				refs = append(refs, c05Ref{line, "inner", false, "reference inside an expression id"})
			}
			w("      - id: " + text)
			w("        run: echo")
			refs = append(refs, c05Ref{line, "later", true, "step after an expression id: unknown id"})
			w("      - run: echo ${{ steps.Later.outputs.x }}")
			refs = append(refs, c05Ref{line, "s0", true, "step after an expression id: earlier literal id"})
			w("      - run: echo ${{ steps.S0.conclusion }} ${{ steps.Whatever.outcome }}")
			c05Judge(r, "expression-step-id", fmt.Sprintf("id=%q reference-inside=%v", id, inner), b.String(), refs, nil)
		}
	}
}

// c05NeedsProject: the needed job calls a LOCAL reusable workflow whose declared outputs are known
// (none, one, two; the event written as a scalar, a sequence or a mapping): exactly the declared
// outputs are in scope.
func c05NeedsProject(t *testing.T, r *vReport, idx *int64) {
	callees := []struct {
		name string
		on   string
		outs []string
	}{
		{"scalar-event", "on: workflow_call\n", nil},
		{"sequence-event", "on: [workflow_call]\n", nil},
		{"inputs-only", "on:\n  workflow_call:\n    inputs:\n      i:\n        type: string\n", nil},
		{"empty-outputs", "on:\n  workflow_call:\n    outputs: {}\n", nil},
		{"one-output", "on:\n  workflow_call:\n    outputs:\n      OutOne:\n        value: x\n", []string{"outone"}},
		{"two-outputs", "on:\n  workflow_call:\n    inputs:\n      i:\n        type: string\n    outputs:\n      OutOne:\n        value: x\n      out-two:\n        description: d\n        value: y\n", []string{"outone", "out-two"}},
	}
	for _, ce := range callees {
		*idx++
		if !r.Mine(*idx) {
			continue
		}
		dir := vTempDir(t, "c05p-")
		vWriteFiles(t, dir, map[string]string{".git/HEAD": "ref: refs/heads/main\n", ".github/workflows/callee.yml": ce.on + "jobs:\n  j:\n    runs-on: ubuntu-latest\n    steps:\n      - run: echo\n"})
		path := filepath.Join(dir, ".github/workflows/caller.yml")
		c05Lint = func(src string) (res vLintResult) {
			defer func() {
				if p := recover(); p != nil {
					res.Panic = fmt.Sprintf("%v\n%s", p, vStack())
				}
			}()
			if err := os.WriteFile(path, []byte(src), 0o644); err != nil {
				res.Err = err
				return
			}
			var out bytes.Buffer
			l, err := NewLinter(&out, &LinterOptions{WorkingDir: dir})
			if err != nil {
				res.Err = err
				return
			}
			res.Errs, res.Err = l.LintFile(path, nil)
			return
		}
		var b strings.Builder
		line := 1
		w := func(s string) { b.WriteString(s + "\n"); line++ }
		var refs []c05Ref
		w("on: push")
		w("jobs:")
		w("  c:")
		w("    uses: ./.github/workflows/callee.yml")
		w("  other:")
		w("    uses: ./.github/workflows/callee.yml")
		w("  d:")
		w("    needs: [c]")
		w("    runs-on: ubuntu-latest")
		w("    steps:")
		has := func(n string) bool {
			for _, o := range ce.outs {
				if o == n {
					return true
				}
			}
			return false
		}
		for _, n := range []string{"outone", "out-two", "zzundeclared"} {
			refs = append(refs, c05Ref{line, n, has(n), "needs.<local call>.outputs.<name>"})
			w("      - run: echo ${{ needs.C.outputs." + strings.ToUpper(n[:1]) + n[1:] + " }}")
		}
		refs = append(refs, c05Ref{line, "other", false, "needs.<not needed local call>"})
		w("      - run: echo ${{ needs.other.outputs.outone }}")
		w("      - run: echo ${{ needs.c.result }}")
		c05Judge(r, "needs-local-call", "callee "+ce.name, b.String(), refs, nil)
		c05Lint = nil
	}
}

func TestVerifC05(t *testing.T) {
	r := vNewReport("C05")
	defer r.Write(t)
	maxSteps := 3
	if vThorough() {
		maxSteps = 4
	}
	r.Bounds["steps_per_job"] = maxSteps
	r.Bounds["jobs_steps_family"] = 2
	r.Bounds["jobs_needs_family"] = 3
	r.Extra["rule"] = "steps: jobs<=2 x steps<=N x every subset of steps carrying an id x reference in 8 step fields of every step and in job outputs / environment.url x 4 expression shapes (plain; condition of a && b || c; (x || a) && b; !(x && true) && y) x target (each id of either job | undefined); needs: 3 jobs x all 64 edge sets x all 6 file orders x needed job is a step job or a reusable-workflow call, reference to .result and to declared / undeclared outputs from every job; matrix: 10 definitions x {lower-case, mixed-case keys} (rows, include same/new/only, exclude, nested values, row / include / include element / whole matrix by expression) x 7 positions x defined/undefined keys; jobs with a matrix (literal / include-only / expression, step job or reusable-workflow call) next to jobs without that key in both file orders; inputs/secrets/jobs: call x dispatch x declared secrets; step ids given wholly or partly by an expression (6 spellings, reference before / inside / after); needed job = call of a local reusable workflow with 0 / 1 / 2 declared outputs (6 forms, linted inside a repository). oracle = scope rule computed by the generator. class = (family, reference kind, in scope?); non-trivial = out of scope"
	r.Extra["assumptions"] = []string{"step ids, job ids and keys are referenced in a different letter case than defined (case-insensitivity is part of resolution)", "for cyclic needs graphs only the needs.* verdicts are compared"}
	if raw := vReplayInput(); raw != nil {
		var rp struct {
			Family, Desc, Src string
			RefList           []c05Ref `json:"ref_list"`
		}
		jsonUnmarshal(raw, &rp)
		if strings.HasPrefix(rp.Family, "needs-local-call") {
			var n int64
			c05NeedsProject(t, r, &n)
			n = 0
			c05NeedsProject(t, r, &n)
			return
		}
		for k := 0; k < 2; k++ {
			res := vLint(rp.Src, nil)
			fmt.Printf("replay %d (%s %s):\n%s\ndiagnostics: %v\n", k, rp.Family, rp.Desc, rp.Src, vDiagStrings(res.Errs))
			if rp.Family == "positions" {
				found := false
				for _, d := range vDiags(res.Errs) {
					if strings.HasPrefix(d.Msg, `property "zzundefined" is not defined`) {
						found = true
					}
				}
				if !found {
					r.Violation("missed-undefined:position:replay", "the reference to zzundefined is not reported as undefined", rp)
				}
				continue
			}
			c05Judge(r, rp.Family, rp.Desc, rp.Src, rp.RefList, nil)
		}
		return
	}
	var idx int64
	c05Steps(r, &idx, maxSteps)
	c05Needs(r, &idx)
	c05Matrix(r, &idx)
	c05MatrixAcrossJobs(r, &idx)
	c05Positions(r, &idx)
	c05InputsSecrets(r, &idx)
	c05InputsEverywhere(r, &idx)
	c05MatrixInvalidRows(r, &idx)
	c05ExprIDs(r, &idx)
	c05NeedsProject(t, r, &idx)
}

// c05Positions: at every non-exempt scalar position of the seeds and of their sibling variations
// where the availability table allows `needs` / `steps`, a reference to a job that is not needed /
// a step that does not exist is reported as undefined there (resolution by scope does not depend
// on where in the workflow the expression stands, nor on the form of the neighbouring values).
func c05Positions(r *vReport, idx *int64) {
	cats, err := vAllCatalogues()
	if err != nil {
		r.HarnessError("%v", err)
		return
	}
	type item struct {
		cat       *vCatalogue
		container string // "" = all positions
	}
	var items []item
	for _, c := range cats {
		items = append(items, item{c, ""})
	}
	skipped := 0
	for _, v := range vSiblingVariations(cats, &skipped) {
		items = append(items, item{v.Cat, v.Container})
	}
	undefRe := regexp.MustCompile(`^property "zzundefined" is not defined in object type`)
	allowed := func(avail, ctx string) bool {
		row, ok := vAvailability[avail]
		if !ok {
			return false
		}
		for _, x := range row[0] {
			if x == ctx {
				return true
			}
		}
		return false
	}
	for _, it := range items {
		for _, p := range it.cat.Scalars {
			if it.container != "" && !vDirectChild(it.container, p.Path) {
				continue
			}
			sch, ok := vSchemaOf(p.NPath)
			if !ok || sch.Exempt {
				continue
			}
			for _, ref := range []struct{ ctx, expr string }{{"needs", "needs.zzundefined.result"}, {"steps", "steps.zzundefined.outputs.x"}} {
				if !allowed(sch.Avail, ref.ctx) {
					continue
				}
				*idx++
				if !r.Mine(*idx) {
					continue
				}
				if *idx%1024 == 0 && r.Expired() {
					return
				}
				text := "'${{ " + ref.expr + " }}'"
				src := it.cat.Replace(p, text)
				res := vLint(src, nil)
				r.Evaluations++
				r.Transitions++
				r.Validated++
				found := false
				for _, d := range vDiags(res.Errs) {
					if d.Line == p.Line && d.Col >= p.Col && d.Col <= p.Col+len(text) && undefRe.MatchString(d.Msg) {
						found = true
					}
				}
				if !found {
					r.Violation("missed-undefined:position:"+ref.ctx+":"+p.NPath, fmt.Sprintf("%s: ${{ %s }} at %s (line %d) refers to nothing in scope but is not reported as undefined there; diagnostics: %v", it.cat.Seed, ref.expr, p.Path, p.Line, vTrunc(fmt.Sprint(vDiagStrings(res.Errs)), 300)),
						map[string]any{"family": "positions", "src": src, "refs": []any{}})
				}
				r.Class("positions "+ref.ctx, true)
			}
		}
	}
}
