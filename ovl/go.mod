// This go.mod only keeps /verif's own module from descending into this directory: the files below
// are compiled as part of github.com/rhysd/actionlint through `go build -overlay` (shim/* as
// virtual packages github.com/rhysd/actionlint/verifshim/*, harness/* as in-package test files).
module verifovl

go 1.23
