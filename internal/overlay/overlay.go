// Package overlay generates, from /repo's current working tree, the `go build -overlay` description
// that binds the explorers to the real code without touching it (DESIGN section 2, T1-T4).
package overlay

import (
	"encoding/json"
	"fmt"
	"go/ast"
	"go/token"
	"go/types"
	"os"
	"path/filepath"
	"sort"
	"strings"

	"golang.org/x/tools/go/packages"
)

const shimBase = "github.com/rhysd/actionlint/verifshim/"

var importMap = map[string][2]string{
	"sync":                        {"sync", shimBase + "vsync"},
	"golang.org/x/sync/errgroup":  {"errgroup", shimBase + "verrgroup"},
	"golang.org/x/sync/semaphore": {"semaphore", shimBase + "vsemaphore"},
	"os/exec":                     {"exec", shimBase + "vexec"},
	"golang.org/x/sys/execabs":    {"execabs", shimBase + "vexec"},
}

// Site is one rewritten range-over-map statement.
type Site struct {
	ID   int    `json:"id"`
	File string `json:"file"`
	Line int    `json:"line"`
	Key  string `json:"key_type"`
	Expr string `json:"expr"`
}

// Result describes a generated overlay.
type Result struct {
	OverlayJSON string
	Sites       []Site
	Rewritten   []string
	GoStmts     int
	Notes       []string
}

type edit struct {
	start, end int
	text       string
}

// Options selects the harness files.
type Options struct {
	Repo      string   // /repo
	Verif     string   // /verif
	Scratch   string   // directory for rewritten copies
	Harness   []string // file names under <Verif>/ovl/harness to add as zz_verif_<name>_test.go
	ExtraRepl map[string]string
}

// Generate builds the overlay.
func Generate(o Options) (*Result, error) {
	res := &Result{}
	cfg := &packages.Config{
		Mode: packages.NeedName | packages.NeedFiles | packages.NeedSyntax | packages.NeedTypes | packages.NeedTypesInfo | packages.NeedImports | packages.NeedDeps | packages.NeedCompiledGoFiles,
		Dir:  o.Repo,
		Env:  append(os.Environ(), "GOFLAGS=-mod=mod", "GOPROXY=off", "GOSUMDB=off", "GOTOOLCHAIN=local"),
	}
	pkgs, err := packages.Load(cfg, ".")
	if err != nil {
		return nil, err
	}
	if len(pkgs) != 1 {
		return nil, fmt.Errorf("expected one package, got %d", len(pkgs))
	}
	pkg := pkgs[0]
	if len(pkg.Errors) > 0 {
		return nil, fmt.Errorf("package %s does not type-check: %v", pkg.PkgPath, pkg.Errors[0])
	}
	repl := map[string]string{}
	outDir := filepath.Join(o.Scratch, "ov")
	if err := os.MkdirAll(outDir, 0o755); err != nil {
		return nil, err
	}
	// deterministic file order so that site ids are stable for a given tree
	files := append([]*ast.File{}, pkg.Syntax...)
	sort.Slice(files, func(i, j int) bool {
		return pkg.Fset.File(files[i].Pos()).Name() < pkg.Fset.File(files[j].Pos()).Name()
	})
	for _, f := range files {
		tf := pkg.Fset.File(f.Pos())
		name := tf.Name()
		if strings.HasSuffix(name, "_test.go") {
			continue
		}
		src, err := os.ReadFile(name)
		if err != nil {
			return nil, err
		}
		var edits []edit
		needVsched := false
		keepRuntime := false
		off := func(p token.Pos) int { return tf.Offset(p) }
		// T1/T3 imports
		for _, im := range f.Imports {
			path := strings.Trim(im.Path.Value, "\"`")
			m, ok := importMap[path]
			if !ok {
				continue
			}
			alias := m[0]
			if im.Name != nil {
				alias = im.Name.Name
			}
			end := im.End()
			start := im.Pos()
			edits = append(edits, edit{off(start), off(end), fmt.Sprintf("%s %q", alias, m[1])})
		}
		var ferr error
		ast.Inspect(f, func(n ast.Node) bool {
			switch n := n.(type) {
			case *ast.RangeStmt:
				t := pkg.TypesInfo.TypeOf(n.X)
				if t == nil {
					ferr = fmt.Errorf("%s: no type for range operand", pkg.Fset.Position(n.Pos()))
					return false
				}
				mt, ok := t.Underlying().(*types.Map)
				if !ok {
					// a type parameter whose core type is a map would also end up here; none exist
					if tp, ok := t.(*types.TypeParam); ok {
						ferr = fmt.Errorf("%s: range over type parameter %s not supported", pkg.Fset.Position(n.Pos()), tp)
					}
					return true
				}
				if err := canonicalisable(mt.Key()); err != nil {
					ferr = fmt.Errorf("%s: %v", pkg.Fset.Position(n.Pos()), err)
					return false
				}
				id := len(res.Sites)
				pos := pkg.Fset.Position(n.Pos())
				xs, xe := off(n.X.Pos()), off(n.X.End())
				res.Sites = append(res.Sites, Site{id, filepath.Base(pos.Filename), pos.Line, mt.Key().String(), string(src[xs:xe])})
				edits = append(edits, edit{xs, xs, "vsched.MapRange("}, edit{xe, xe, fmt.Sprintf(", %d)", id)})
				needVsched = true
			case *ast.GoStmt:
				res.GoStmts++
				cs, ce := off(n.Call.Pos()), off(n.Call.End())
				edits = append(edits, edit{off(n.Pos()), cs, "vsched.GoStmt(func() { "}, edit{ce, ce, " })"})
				needVsched = true
				res.Notes = append(res.Notes, fmt.Sprintf("%s: go statement rewritten to a controlled thread", pkg.Fset.Position(n.Pos())))
			case *ast.SelectorExpr:
				if id, ok := n.X.(*ast.Ident); ok && (n.Sel.Name == "NumCPU" || n.Sel.Name == "GOMAXPROCS") {
					if pn, ok := pkg.TypesInfo.Uses[id].(*types.PkgName); ok && pn.Imported().Path() == "runtime" {
						// the number of processors is an environment answer the explorer decides
						edits = append(edits, edit{off(n.Pos()), off(n.End()), "vsched." + n.Sel.Name})
						needVsched = true
						keepRuntime = true
					}
				}
			}
			return true
		})
		if ferr != nil {
			return nil, ferr
		}
		if len(edits) == 0 {
			continue
		}
		if needVsched {
			// add the import right after the package clause
			p := off(f.Name.End())
			edits = append(edits, edit{p, p, fmt.Sprintf("; import vsched %q", shimBase+"vsched")})
		}
		sort.SliceStable(edits, func(i, j int) bool { return edits[i].start < edits[j].start })
		var b strings.Builder
		for _, cg := range f.Comments {
			if cg.Pos() < f.Package {
				for _, c := range cg.List {
					if strings.HasPrefix(c.Text, "//go:build") {
						return nil, fmt.Errorf("%s already has a build constraint; overlay cannot raise its language version", name)
					}
				}
			}
		}
		b.WriteString("//go:build go1.23\n\n")
		// keep line numbers of the original: the two header lines shift everything by 2, so use a
		// //line directive to map back.
		fmt.Fprintf(&b, "//line %s:1\n", name)
		last := 0
		for _, e := range edits {
			if e.start < last {
				return nil, fmt.Errorf("%s: overlapping edits", name)
			}
			b.Write(src[last:e.start])
			b.WriteString(e.text)
			last = e.end
		}
		b.Write(src[last:])
		if keepRuntime {
			b.WriteString("\nvar _ = runtime.NumCPU\n")
		}
		out := filepath.Join(outDir, filepath.Base(name))
		if err := os.WriteFile(out, []byte(b.String()), 0o644); err != nil {
			return nil, err
		}
		repl[name] = out
		res.Rewritten = append(res.Rewritten, filepath.Base(name))
	}
	// T1 virtual shim packages
	shimDir := filepath.Join(o.Verif, "ovl", "shim")
	ents, err := os.ReadDir(shimDir)
	if err != nil {
		return nil, err
	}
	for _, e := range ents {
		if !e.IsDir() {
			continue
		}
		fs, _ := filepath.Glob(filepath.Join(shimDir, e.Name(), "*.go"))
		for _, f := range fs {
			repl[filepath.Join(o.Repo, "verifshim", e.Name(), filepath.Base(f))] = f
		}
	}
	// T4 harness
	for _, h := range o.Harness {
		src := filepath.Join(o.Verif, "ovl", "harness", h)
		if _, err := os.Stat(src); err != nil {
			return nil, err
		}
		base := strings.TrimSuffix(filepath.Base(h), ".go")
		repl[filepath.Join(o.Repo, "zz_verif_"+base+"_test.go")] = src
	}
	for k, v := range o.ExtraRepl {
		repl[k] = v
	}
	js, _ := json.MarshalIndent(map[string]any{"Replace": repl}, "", " ")
	res.OverlayJSON = filepath.Join(o.Scratch, "overlay.json")
	if err := os.WriteFile(res.OverlayJSON, js, 0o644); err != nil {
		return nil, err
	}
	sj, _ := json.MarshalIndent(res.Sites, "", " ")
	if err := os.WriteFile(filepath.Join(o.Scratch, "sites.json"), sj, 0o644); err != nil {
		return nil, err
	}
	return res, nil
}

func canonicalisable(t types.Type) error {
	switch u := t.Underlying().(type) {
	case *types.Basic:
		if u.Info()&(types.IsString|types.IsInteger) != 0 {
			return nil
		}
	case *types.Pointer:
		if st, ok := u.Elem().Underlying().(*types.Struct); ok {
			for i := 0; i < st.NumFields(); i++ {
				if b, ok := st.Field(i).Type().Underlying().(*types.Basic); ok && b.Info()&(types.IsString|types.IsInteger) != 0 {
					return nil
				}
			}
		}
	}
	return fmt.Errorf("range over map with key type %s cannot be put in canonical order", t)
}
