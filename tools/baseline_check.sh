#!/bin/sh
# Runs the repository's baseline test command (guard off: no overlay) and compares with BASELINE.json.
export GOFLAGS=-mod=mod GOPROXY=off GOSUMDB=off GOTOOLCHAIN=local
cd /repo && go test -json -vet=off -count=1 -timeout 25m ./... > /tmp/verif-baseline.json 2>/dev/null
python3 - <<'PY'
import json,sys
base=json.load(open('/root/.vp/BASELINE.json'))
stable=set(base['stable_pass'])
res={}
for l in open('/tmp/verif-baseline.json'):
    try: e=json.loads(l)
    except Exception: continue
    if e.get('Action') in('pass','fail','skip') and e.get('Test'):
        res[e['Package']+'::'+e['Test']]=e['Action']
bad=[t for t in stable if res.get(t)!='pass']
print(len(stable),'stable tests;',len(bad),'not passing',bad[:10])
sys.exit(1 if bad else 0)
PY
rc=$?
rm -f /tmp/verif-baseline.json
exit $rc
