#!/bin/sh
# Applies every seeded change in turn, runs the check(s) of its property, and reports whether the
# change is detected (exit 1 with a VIOLATION line). The tree is restored after each.
# With WT=<scratch worktree of /repo> the changes are applied there and /repo stays untouched
# (re-run the checks on /repo afterwards: the evidence files describe the last tree checked).
# ONLY / SKIP: space-separated property ids to restrict the run to / to leave out (two runs on two
# scratch worktrees can then share the work).
tree=${WT:-/repo}
log=/tmp/allseeds.$$.log
for d in /verif/seeded/*/; do
  name=$(basename $d)
  id=${name%%-*}
  if [ -n "$ONLY" ]; then case " $ONLY " in *" $id "*) ;; *) continue ;; esac; fi
  if [ -n "$SKIP" ]; then case " $SKIP " in *" $id "*) continue ;; esac; fi
  if [ -n "$(git -C $tree status --porcelain)" ]; then echo "$tree not clean"; exit 2; fi
  git -C $tree apply $d/patch.diff 2>/dev/null || { echo "$name: patch does not apply"; continue; }
  VERIF_REPO_DIR=$tree /verif/bin/vcheck $id ${TIER:-quick} > $log 2>&1
  rc=$?
  git -C $tree checkout -- . ; git -C $tree clean -fdq -- . 2>/dev/null
  echo "$name: rc=$rc $(grep -c '^VIOLATION' $log) violation line(s); first: $(grep -A1 '^VIOLATION' $log | sed -n 2p | cut -c1-110)"
done
rm -f $log
