#!/bin/sh
# Applies every seeded change in turn, runs the check(s) of its property, and reports whether the
# change is detected (exit 1 with a VIOLATION line). /repo is restored after each.
for d in /verif/seeded/*/; do
  name=$(basename $d)
  id=${name%%-*}
  if [ -n "$(git -C /repo status --porcelain)" ]; then echo "/repo not clean"; exit 2; fi
  git -C /repo apply $d/patch.diff 2>/dev/null || { echo "$name: patch does not apply"; continue; }
  /verif/bin/vcheck $id ${TIER:-quick} > /tmp/allseeds.log 2>&1
  rc=$?
  git -C /repo checkout -- . ; git -C /repo clean -fdq -- . 2>/dev/null
  echo "$name: rc=$rc $(grep -c '^VIOLATION' /tmp/allseeds.log) violation line(s); first: $(grep -A1 '^VIOLATION' /tmp/allseeds.log | sed -n 2p | cut -c1-110)"
done
rm -f /tmp/allseeds.log
