#!/bin/sh
# Like try_seed.sh, but on a scratch worktree of /repo (default /tmp/wt-test; create it with
# `git -C /repo worktree add --detach /tmp/wt-test HEAD`), so that /repo stays untouched.
# The evidence files written by these runs describe the scratch tree: re-run the checks on /repo
# before committing evidence.
wt=${WT:-/tmp/wt-test}
patch=$1; shift
[ -d "$wt" ] || { echo "no scratch worktree $wt"; exit 2; }
git -C "$wt" checkout -q -- . ; git -C "$wt" clean -fdq
git -C "$wt" apply "$patch" || { echo "patch does not apply"; exit 2; }
for id in "$@"; do
  VERIF_REPO_DIR="$wt" /verif/bin/vcheck "$id" ${TIER:-quick} > /tmp/tryseedwt-$id.log 2>&1
  rc=$?
  echo "== $id rc=$rc $(head -1 /tmp/tryseedwt-$id.log | cut -c1-150)"
  grep -A1 '^VIOLATION' /tmp/tryseedwt-$id.log | cut -c1-400 | head -8
  grep '^BROKEN' /tmp/tryseedwt-$id.log | cut -c1-300 | head -3
  rm -f /tmp/tryseedwt-$id.log
done
git -C "$wt" checkout -q -- . ; git -C "$wt" clean -fdq
