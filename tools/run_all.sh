#!/bin/sh
# Runs every registered check of one tier and prints a one-line summary per property.
tier=${1:-quick}
for id in C01 C02 C03 C04 C05 C06 C07 C08 C09 C10 C11 C12 C13 C14 C15 C16 C17 C18 C19 C20; do
  s=$(date +%s)
  /verif/bin/vcheck $id $tier > /tmp/vrun-$id.log 2>&1
  rc=$?
  e=$(( $(date +%s) - s ))
  echo "$id rc=$rc ${e}s $(head -1 /tmp/vrun-$id.log | cut -c1-160)"
  grep -c '^VIOLATION' /tmp/vrun-$id.log | sed 's/^/   violations: /' | grep -v ': 0$'
  rm -f /tmp/vrun-$id.log
done
