#!/bin/sh
# Confirms a sub-agent's seeded change in its own worktree: (1) with the change the repository's
# root test suite passes (demo excluded), (2) the demo fails with the change, (3) passes without.
# usage: tools/verify_seed.sh <worktree> [extra go test flags for the demo]
wt=$1; pat=${2:-TestSeedDemo}; shift; [ $# -gt 0 ] && shift
export GOFLAGS=-mod=mod GOPROXY=off GOSUMDB=off GOTOOLCHAIN=local
cd "$wt" || exit 2
git diff -- . ':!zz_seed_demo_test.go' > /tmp/verify-seed.diff
[ -s /tmp/verify-seed.diff ] || { echo "no source change in worktree"; exit 2; }
echo "--- build + suite with the change (demo excluded)"
go build ./... && go test -vet=off -count=1 -skip "$pat" . 2>&1 | tail -2
echo "--- demo with the change (expect FAIL)"
go test -vet=off -count=1 -run "$pat" . 2>&1 | tail -4
git apply -R /tmp/verify-seed.diff
echo "--- demo without the change (expect ok)"
go test -vet=off -count=1 -run "$pat" . 2>&1 | tail -2
git apply /tmp/verify-seed.diff
rm -f /tmp/verify-seed.diff
