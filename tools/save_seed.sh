#!/bin/sh
# Stores a confirmed sub-agent change under seeded/<ID>-<n>/ (patch, demo, the agent's meta).
# usage: tools/save_seed.sh <worktree> <ID>-<n>
wt=$1; name=$2
d=/verif/seeded/$name
mkdir -p "$d" || exit 2
cp "$wt/patch.diff" "$d/patch.diff"
cp "$wt"/zz_seed_demo*_test.go "$d/" 2>/dev/null
cp "$wt/meta.json" "$d/agent_meta.json" 2>/dev/null
git -C /repo apply --check "$d/patch.diff" && echo "saved $d (applies to /repo)"
