#!/bin/sh
# Applies a seeded change to /repo, runs the given checks (quick tier), and undoes the change.
# usage: tools/try_seed.sh <patch.diff> <ID> [<ID>...]
patch=$1; shift
if [ -n "$(git -C /repo status --porcelain)" ]; then echo "/repo is not clean"; exit 2; fi
git -C /repo apply "$patch" || { echo "patch does not apply"; exit 2; }
for id in "$@"; do
  /verif/bin/vcheck "$id" ${TIER:-quick} > /tmp/tryseed-$id.log 2>&1
  rc=$?
  echo "== $id rc=$rc $(head -1 /tmp/tryseed-$id.log | cut -c1-150)"
  grep -A1 '^VIOLATION' /tmp/tryseed-$id.log | cut -c1-400 | head -8
  grep '^BROKEN' /tmp/tryseed-$id.log | cut -c1-300 | head -3
  rm -f /tmp/tryseed-$id.log
done
git -C /repo checkout -- . && git -C /repo clean -fdq -- . >/dev/null 2>&1
git -C /repo status --porcelain
