#!/usr/bin/env python3
"""Regenerates /verif/MANIFEST.json from the table below (one entry per claimed property)."""
import json, os

CHECKS = {}

# Families added while the checks were tested with seeded changes (DESIGN.md 11.4); the exact
# space of each run is in the evidence file's coverage.rule / coverage.bounds.
ADDED = {
 "C01": "every needs graph on <=3 (4) jobs; every testdata workflow with one line at a time re-cased; whole sections replaced; channel workflow-inside-a-repository (caller varied against known local interfaces); multi-byte text before broken expressions; 11 schedule spellings; 7 renderings of the line breaks of every seed; block scalars whose text is no YAML value",
 "C02": "wrapped-layout collision inputs; object-filter candidates; exhaustive 3x3-grid check of the two position comparators; 1 vs 2 processors; free-running -race pass; fromJSON objects with case-colliding keys; config with several invalid globs; several unreadable files (errgroup first error); same-line jobs; histories also under a -format template with a file that is not YAML; escaped-line-break ties (known finding); both tool integrations on with every process failing",
 "C03": "seed-e (alternative forms, nested matrix values); key reorderings; sibling type/form variations; a placeholder after a valid one; clean testdata workflows x every locatable scalar; placeholder after text holding }}; project seed (values given to local callee / action inputs); sections given by one expression (siblings mutated)",
 "C04": "34 separators (incl. non-ASCII letters/digits); end marker inside string literals of bare if: conditions (accept side); hexadecimal spellings in both letter cases at every gap of token sequences <=3; bare if: with a premature end marker; every expression tree with <=7 (8) nodes",
 "C05": "mixed-case definitions; matrix across jobs; 4 expression shapes (narrowed operands) around every reference; every workflow re-judged with all references in index spelling; call-input defaults in both event orders; step ids given wholly or partly by an expression; needed job = local reusable workflow with 0 / 1 / 2 declared outputs; inputs references at 17 workflow / job / step positions; referring field before run:; rows with invalid values",
 "C06": "include lists / row lists / static include entries with one element made unknown; merged-type and narrowed-operand contexts; 12 typed positions with the value made unknown; call default reading a dispatch-only input; runs-on positions; arrays / objects with unknown element / member types; typed positions of a caller inside a repository; erroneous values at typed inputs",
 "C07": "all scalar positions x quoting x spaces; multi-placeholder strings; multi-character and negated glob patterns; 26 per-rule templates; every locatable scalar of all testdata workflows; scalars carrying an anchor / explicit tag; blanks inside quoted bare conditions; scalars with tag and anchor in either order; several blanks after node properties; the non-specific tag",
 "C08": "string-index spelled untrusted inputs, github-script input key, typed reusable-workflow input, self-needing job in the noisy seed; an id holding every letter; dual-trigger file; args / entrypoint keys; repeated-key JSON literal; runner labels taken from the matrix; a step id defined three times",
 "C09": "30 library jobs with scripted shellcheck/pyflakes; 302 jobs of the testdata workflows as predecessor/successor of each other and of the library; call-jobs family (shared context types); label-jobs family under a configuration with self-hosted labels; default-shell families (python / bash / pwsh headers); typed filtered array as matrix value; project-jobs family (calls of local workflows and the jobs that need them, in every order)",
 "C10": "scenario of files that stop early; mixed-case interface names; runtime.GOMAXPROCS answered by the explorer; files outside any repository; nested repository whose .git is a file; scenarios under -config-file; one local action under three spellings; actions / workflows differing in letter case or path spelling; entry points LintRepository / LintDir / LintFiles(project)",
 "C11": "partner chains; script-key casing and multi-line scripts; nested logical operators (narrowed operands); string index '*' on array segments; scripts holding {{ }} of their own; chains continued on the result of a parenthesised logical operator (known finding); 14 single-expression positions in 3 scalar styles",
 "C12": "8 embeddings (one inside hashFiles); sibling variations; positions of clean testdata workflows; project caller; operands of comparisons next to unknown-typed operands, negation, index",
 "C13": "keys of the other variant of two-variant mappings (single and pairs); mandatory key removed together with an extra key; re-cased keys; 534 block mappings of clean testdata workflows; pairs of other-variant keys before the first key; near-miss keys built from the keys present",
 "C14": "empty/falsy defaults; derivation agreement (file vs AST); secret declaration forms and orders; required / default spellings (True, ~, empty) in the derivation-agreement family; 20 number-like plain scalars; local action at 3 locations x 6 spellings; inputs named args / entrypoint; literals in every YAML spelling, quoted scalars; 4 forms of the callee's on:; block scalars holding comments / document markers",
 "C15": "stdin spellings; further paths entries; independent -ignore pattern sets; invocations with 2-3 files of 4 locations (also through -format); patterns given as YAML aliases; non-string ignore elements; a workflow that is not YAML; repositories whose .git is a file; diagnostics of different rules at one position (order of ties); literals anchored at both ends",
 "C16": "13 structured wrappers; 31 multi-site templates; LintFiles orderings (printed = returned); every testdata workflow in all modes; payloads in local action metadata / reusable workflow files (project family); CR and U+2028 as source line breaks; end-to-end caret placement; gutter of multi-digit line numbers; paths of missing local callees; colour mode really coloured (NO_COLOR removed), tabs before the caret",
 "C17": "TAB in the alphabet; 7 end-to-end layouts over all events that take ref/path filters (lists with empty / non-scalar elements); U+FEFF in the alphabet; patterns next to ${{ }} placeholders; a C1 control character; events without filters around the filtered ones; NUL in the alphabet; trailing-space column in characters",
 "C18": "two dangling references; odd id spellings; jobs on one source line; every letter of the alphabet in ids; ids that are substrings of each other; pairs of ids that concatenate to the same text; the same missing id needed by two jobs",
 "C19": "expression members at every depth in 5 spellings; two include entries; expression row + literal include; keys in 4 letter-case combinations; every exclude case after each of 4 other jobs",
 "C20": "killed-after-output outcomes; JSON followed by further output; equal scripts in several steps; broken repository of a later file; pyflakes crash on stderr; real-process slice (script sizes 0 .. 1 MiB through the real os/exec); race pass; goroutines past their function are not counted as unfinished invocations; GOMAXPROCS above the CPU count; all-fail scenarios; }} inside string literals of placeholders",
}

def chk(pid, text, note, tech, ref=None):
    if pid in ADDED:
        text += " Added later (DESIGN 11.4): " + ADDED[pid] + "."
    CHECKS[pid] = {
        "property_id": pid,
        "quick_cmd": f"/verif/bin/vcheck {pid} quick",
        "thorough_cmd": f"/verif/bin/vcheck {pid} thorough",
        "evidence_file": f"/verif/evidence/{pid}.json",
        "replay_cmd_template": "/verif/bin/vcheck --replay {path}",
        "engine": "vcheck",
        "level_claimed": {"category": "model_checking", "text": text, "design_ref": ref or f"DESIGN.md section 5 {pid}"},
        "level_note": note,
        "technique": tech,
    }

OVERLAY_NOTE = " The instrumented build (sync/exec shims, controlled map iteration) is conformance-replayed against the plain build on every run."

chk("C01",
    "Bounded-exhaustive robustness exploration on five input channels (workflow file, local action metadata, local reusable workflow, repository actionlint.yaml, -config-file): every value and key position of the channel's seeds (for workflows: 4 seeds that populate every key of the syntax) x ~115 YAML fragments (every node kind, explicit !!float/!!int/!!bool/!!null/!!str/!!binary/!!timestamp/custom tags with arbitrary text, anchors, aliases, merge keys, nesting to depth 5000, invalid UTF-8, NUL, block forms), all byte strings of length <=2 on every channel, and all expression token sequences / character strings up to length 3 (thorough 5, plus all pairs of fragments in sibling positions) inside ${{ }} and bare if: through the whole Linter; oracle: no panic (recovered in-process), result is diagnostics xor fatal error, termination under a 120 s watchdog; unrecoverable runtime crashes of a worker are attributed through a progress file.",
    "The universal claim over all byte strings <= 64 KiB is out of reach of enumeration: covered is every (position x node kind x tag) combination, their sibling pairs, and all tiny files. yaml.v3 is explored only as far as these inputs drive it. A hang is a case running > 120 s." + OVERLAY_NOTE,
    "exhaustive enumeration of (channel, position, fragment) and of all short byte/token strings; crash/hang oracle")
chk("C02",
    "Model checking of output determinism on the real code with every source of nondeterminism under explorer control: (1) every range-over-map site of package actionlint (70, rewritten by the overlay) is a choice point; for a collision corpus (same-position and several-candidate diagnostics) all executions with <=2 (thorough 3) non-identity iteration orders and for every workflow under testdata/examples|ok|err all executions with <=1 (thorough 2) must print the bytes of the identity execution; (2) multi-file LintFiles runs sharing broken callees: all interleavings up to 2 (thorough 3) preemptions x semaphore size {1,2} must print identical bytes; (3) all call histories up to depth 2 (thorough 3) on a reused Linter answer like a fresh one.",
    "Map iteration inside third-party packages is not controlled; GOMAXPROCS and repetition are covered only through interleavings/iteration orders under data-race freedom; permutation menu for maps with more than 4 keys is identity/reverse/rotations." + OVERLAY_NOTE,
    "stateless DFS over map-iteration-order and scheduling choice points with deviation/preemption bounding; oracle = identity execution")
chk("C03",
    "Bounded-exhaustive exploration of the position space of the workflow syntax: 4 maximal clean seeds that together populate every key of every section (schema written from the documentation) plus every clean reduction of each mapping to its mandatory keys and one pair of optional keys (pairwise sibling configurations); every scalar value position x 4 malformed placeholders, each mutated workflow linted by the real Linter and judged by position: at least one diagnostic inside the mutated scalar, an expression syntax error unless the position is exempt; thorough adds every pair of sibling positions mutated together.",
    "Positions are those of the seeds (one occurrence per key of the syntax, block style); deeper repetitions of the same section are represented once." + OVERLAY_NOTE,
    "exhaustive enumeration of (seed, position, payload) over a schema-derived catalogue; positional oracle")
chk("C04",
    "Bounded-exhaustive model checking of ExprLexer/ExprParser: every token sequence of length <=5 (thorough 6) over a 22-token alphabet with all whitespace interleavings for short sequences, every character string of length <=5 (thorough 6) over the 26 lexically relevant characters, and a numeric sub-enumeration up to the 32/64-bit boundaries, each compared with a reference tokeniser and grammar written from the documented language (accept/reject, normalised tree = precedence, literal values, lower-casing, end offset, single error with offset inside the text); short sequences also through Linter.Lint in run: and bare if: positions.",
    "Sentences longer than the bounds are not explored (the 'randomly beyond the bound' part of the quantifier is not claimed); token classes are represented by one spelling each in the token enumeration; appendix-A don't-care classes are not compared." + OVERLAY_NOTE,
    "exhaustive enumeration of all token sequences / character strings up to a length bound vs reference grammar")
chk("C05",
    "Bounded-exhaustive exploration of workflow shapes against the scope rules of the statement, computed by the generator over what it defined where: steps (jobs<=2 x steps<=3 (thorough 4) x every subset of id-carrying steps x reference in 8 step fields of every step and in job outputs / environment.url x every target id of either job or an undefined one), needs (3 jobs x all 64 edge sets x all 6 file orders x needed job being a step job or a reusable-workflow call; .result, declared and undeclared outputs from every job), matrix (10 definitions incl. include-only / include-added keys, nested values, row / include / include element / whole matrix by expression x 7 positions), inputs / secrets / jobs.<job>.outputs (workflow_call x workflow_dispatch x declared secrets, automatic secrets); every case linted by the real Linter; 'property is not defined' at the reference iff out of scope.",
    "Shapes beyond the bounds are not explored; definitions and references deliberately differ in letter case." + OVERLAY_NOTE,
    "exhaustive small-scope enumeration of workflow structures vs generator-computed scope rules")
chk("C06",
    "Bounded-exhaustive differential model checking of the real ExprSemanticsChecker: accessor chains of length <=3 over {.y, .z, .*, [0], ['y']} on <ctx>.x and chains over {.x, ['x'], .*, .y, [0]} on the context itself, each in 26 contexts (unary/binary operators, every argument slot of contains/startsWith/endsWith/format/join/toJSON/fromJSON/hashFiles, as index, indexed, filtered) x contexts {matrix, steps, needs, inputs, secrets, jobs} typed {x: T} for every type term T of depth <=2 (thorough 3) over {null, number, bool, string, any, array, strict object, open object, map} x every single loosening (sub-term -> any, strict -> open); oracle = the property's own relation: accepted under G implies accepted under the loosened G'. End-to-end: literal matrix rows / whole matrix / include replaced by fromJSON(...), a known action by an unknown one, declared job outputs by a reusable-workflow call, x 28+ consumer expressions through Linter.Lint.",
    "Environments vary one property of one context at a time; errors that an earlier error of the stricter environment masked are not counted as introduced (the statement speaks of accepted expressions)." + OVERLAY_NOTE,
    "exhaustive enumeration of (expression, typing environment, loosening) with a relational (differential) oracle")
chk("C07",
    "Complete enumeration of a placement product against an absolute position oracle: 12 expression constructs (lexer, parser, semantic at first and inner token, untrusted input, availability, bare if:) x extra indentation 0-4 x lines above 0-3 x block/flow style x plain/single/double quoting x prefix text 0-5 x preceding placeholders 0-2 x spaces after ${{ 0-3 (about 65k workflows), plus key (unexpected, duplicate), enum/shell/permission value and glob-character constructs x placements; the generator records the line:column of the offending token and the real Linter's diagnostic must carry exactly it (shift-invariance follows since all shifts are enumerated). Also: every non-YAML-level diagnostic over positions x fragments of the seeds has 1 <= line <= #lines and column >= 1.",
    "One-line ASCII scalars without escape sequences only (as the property states); constructs are a fixed catalogue of 12 + 9." + OVERLAY_NOTE,
    "complete enumeration of a finite placement product vs generator-recorded positions")
chk("C08",
    "Bounded-exhaustive differential exploration: a project seed (workflow + local action + reusable workflow, clean and noisy variant) in which every kind of name is marked at every definition and use (about 170 occurrences: contexts, properties, functions, step and job ids incl. needs lists, input / secret / output / matrix / env / with keys, action and reusable-workflow interfaces, keys of a fromJSON literal, ['name'] indices); every single occurrence re-cased to UPPER and Capitalised and every pair of occurrences re-cased together (about 17k lints of the real Linter); oracle: the multiset of (file, line, column, kind, lower-cased message) equals that of the original spelling.",
    "Subsets of more than two occurrences are not explored; keywords and string-literal values are never re-cased; string literals in index position count as names." + OVERLAY_NOTE,
    "exhaustive enumeration of all single and pairwise re-casings with a differential oracle")
chk("C09",
    "Bounded-exhaustive exploration of composition histories: libraries of 14 jobs, 13 steps and 21 expression strings chosen to write rule state (matrix types incl. .* filters, shell defaults, runner platform, conflicting labels, duplicate ids, needs and outputs, erroneous and syntactically broken items); every sequence without repetition up to length 3 (thorough 4 for jobs and steps) in file order, each linted by the real Linter; differential oracle without hand-written expectations: an item's diagnostics (relative positions, cross-item line references rewritten to item+offset) equal those of the item alone with only its declared dependencies; every ordered pair of jobs additionally under every single map-iteration-order deviation.",
    "Items are fixed libraries; dependencies of a step are the earlier id-carrying steps (verbatim), of a job its needed jobs." + OVERLAY_NOTE,
    "exhaustive enumeration of all sequences up to a depth over item libraries with a differential (alone vs composed) oracle; controlled map iteration")
chk("C10",
    "Stateless model checking of the real Linter.LintFiles under a controlled scheduler: 6 scenarios (shared local action, caller+callee reusable workflow with AST- vs file-derived interface, sibling and nested repositories with different configurations, messages built from shared slices, broken shared callees, -format) x every subset and argument order of the files x semaphore size {1,2} x all interleavings up to 2 preemptions (thorough 3); oracle: per-file diagnostics equal LintFile alone on a fresh Linter, defects of a shared callee exactly once per run, deep fingerprint of all package-level tables and every Config unchanged (AllWebhookTypes at every scheduling point), no deadlock.",
    "Data races proper are outside a cooperative scheduler's reach: the 'no data races' clause is only supported by the modification monitor plus a separate free-running -race pass, not decided. GOMAXPROCS is subsumed by interleavings under data-race freedom. Scenarios are a fixed catalogue of 6 drivers." + OVERLAY_NOTE,
    "controlled-scheduler stateless DFS with preemption bounding + happens-before state caching, differential oracle")
chk("C11",
    "Bounded-exhaustive model checking of the untrusted-input detector: for the 20 documented untrusted paths the full product of segment spellings (.name, .NAME, ['name'], ['Name']; .*, [0], [matrix.i] for * segments) in the bare embedding; all proper prefixes, a trusted sibling per segment, one-segment extensions and an object filter in place of each named segment; canonical and adversarial spellings of every path in 23 embeddings (unary/binary operators either side, parentheses, call arguments, index positions, 2 and 3 chains, sanitising calls nested both ways and next to live chains), all ordered pairs of different paths; each parsed and checked by the real ExprSemanticsChecker and compared with a stateless reference matcher on segment lists (exact set of reported paths per chain); plus 11 script / non-script positions through Linter.Lint.",
    "A chain is a variable followed by accessors (chains interrupted by operators are not claimed); a non-string index after an object filter is not generated; the path list is appendix D." + OVERLAY_NOTE,
    "exhaustive enumeration of spellings x embeddings x positions vs stateless reference matcher")
chk("C12",
    "Complete enumeration of the finite space (table key or no key) x (12 contexts + 5 special functions) x 4 embeddings: every non-exempt scalar value position of the 4 maximal seeds (all 34 keys of the availability table are reached, plus every position governed by no key) gets each name spliced in bare, upper-cased, nested and call-argument form; the real Linter's 'not allowed here' verdict at that position must equal the transcription of GitHub's context-availability table.",
    "The oracle is the transcription of GitHub's table frozen in lib_catalogue.go (cross-read once against the documentation-generated availability.go); which key governs a position comes from the documentation-derived schema; for `jobs` outside workflow_call outputs 'undefined variable' counts as the report." + OVERLAY_NOTE,
    "complete enumeration of a finite product vs transcribed table")
chk("C13",
    "Bounded-exhaustive exploration over the schema-derived catalogue: every mapping node of the 4 maximal seeds (every section of the workflow syntax) x {foreign key inserted first/middle/last, every existing key duplicated verbatim and re-cased, every mandatory key removed} x {alone, combined with a malformed placeholder in each direct sibling scalar}; each mutated workflow linted by the real Linter; oracle from the documentation-derived schema: report at the foreign key (schedule: at the item), at the repetition, a diagnostic naming the removed key, and the sibling's own diagnostic survives.",
    "One occurrence of each section (the seeds); block-style mappings; foreign keys are not asserted for open mappings; event names under on: are left to the events rule." + OVERLAY_NOTE,
    "exhaustive enumeration of (mapping, key mutation, sibling) over a schema-derived catalogue; positional oracle")
chk("C14",
    "Bounded-exhaustive exploration of callee interfaces x call sites through the real Linter: every spec of the bundled popular-actions table (enumerated completely; the table itself is the declaration) x {no inputs, exactly the required, all, required minus each one, one extra, re-cased keys} with references to every declared and one undeclared output; all 125 local action interfaces over 3 inputs in {absent, optional, required, required+default, optional+default} x 0-2 outputs x every subset of declared inputs, one extra, re-cased; all 169 reusable-workflow input interfaces over 2 inputs (absent | type x required x default) x 3 secret sets x 0-1 outputs x call sites (none, required, all re-cased, extra input, extra secret, secrets: inherit, required minus each), with the interface derived from the callee's file and from its AST (callee linted first in the same run under the default controlled schedule); 3 declared types x 12 literal / expression values; oracle = set arithmetic on the declared interface and the documented assignability table.",
    "Interfaces beyond 3 action inputs / 2 workflow inputs are not generated; the bundled table's content is taken as given." + OVERLAY_NOTE,
    "complete enumeration of the bundled table and of all small interfaces x call sites vs set-arithmetic reference")
chk("C15",
    "Complete enumeration of the product 3 workflows (0/2/4 diagnostics with distinct messages) x 8 -ignore pattern sets x 4 `paths` globs x 4 config ignore sets x 4 working directories (repository root, parent, nested, unrelated) x 3 path spellings (relative, ./relative, absolute) = 4608 runs of the real Command.Main, each compared with a reference filter: the unfiltered list minus diagnostics whose message matches a CLI pattern or a config pattern of an entry whose glob matches the root-relative path (match bits are part of the scenario table), in unchanged order, exit status 1 iff something remains; plus exit-status rows (invalid flag 2; unreadable file, broken config YAML / regexp / glob, bad -ignore regexp, missing -config-file 3).",
    "Three fixed workflows and four globs; working directory is process-global, so cases run sequentially inside each worker process." + OVERLAY_NOTE,
    "complete enumeration of a finite configuration product vs reference filter")
chk("C16",
    "Bounded-exhaustive exploration of (echo site x hostile payload x output mode): every value and key position of 4 clean seeds and a noisy seed whose diagnostics echo object types, names and user strings x 12 payloads (LF, CR, control, ESC, NEL, LS, tab, non-ASCII, ' [b]', 'x:1:2: y', format verbs) in 1-5 embeddings (whole scalar, appended, string literal, fromJSON key, identifier); each resulting diagnostic list rendered by the real Linter in default, -oneline, coloured -oneline, {{json .}} and a custom template and parsed back: header line count, shipped problem-matcher regexp (JavaScript '.' semantics) -> same file/line/column/message/kind, JSON round trip, snippet = referenced line; plus PrettyPrint/GetTemplateFields over all sources of length <=4 (thorough 5) over {a, space, tab, LF, é, あ} x line -1..4 x column -1..7 against a reference (no panic, header, referenced line, caret column).",
    "Echo sites are those reachable from the seeds' positions; the matcher regexp is evaluated by Go's regexp package after narrowing '.' to JavaScript's meaning; caret placement is not compared when the prefix contains a tab or the column splits a multi-byte character." + OVERLAY_NOTE,
    "exhaustive enumeration of (position, payload, mode) and of all short (source, line, column) triples; parse-back oracle")
chk("C17",
    "Bounded-exhaustive model checking of ValidateRefGlob/ValidatePathGlob: every string of length <=5 (thorough 6) over an 18-symbol alphabet covering all special characters and one representative per character class, each compared with a reference validator written from the documented syntax (accept/reject), the ref=>path implication and the column/named-character oracle; every string <=3 also through Linter.Lint.",
    "Characters outside the alphabet are represented by class representatives; strings longer than the bound are not explored; appendix-B don't-care classes are not compared." + OVERLAY_NOTE,
    "exhaustive enumeration of all strings up to a length bound vs reference model")
chk("C18",
    "Bounded-exhaustive model checking of the real RuleJobNeeds: every directed needs graph on <=4 jobs (thorough: all loop-free graphs on 5 jobs) x needs-entry orders x dangling/duplicate entries x every iteration order of the rule's internal maps, each execution compared with a reachability-closure reference model; a complete <=3-job slice also runs through Linter.Lint.",
    "Graphs beyond 5 jobs and ids outside the fixed spellings are not explored." + OVERLAY_NOTE,
    "explicit enumeration of all graphs x controlled map-iteration orders (stateless DFS over choice points) vs reference model")

chk("C19",
    "Bounded-exhaustive model checking of the matrix rule through the real Linter: value algebra of 30 values (scalars, sequences incl. nested, mappings to depth 2 in both written member orders); duplicate check on all rows of 2 and 3 values (about 28k); exclude check on all rows of <=2 values over a 12-value sub-algebra x {no include, include of the same key, include-only key} x exclude key in {row, include-only, undefined} x value (about 140k), plus rows / include / include entries / exclude entries given by expressions, and every pair of mapping values under every single map-iteration-order deviation; oracle = structural equality and containment (subset / element-wise / equality) by recursion on the algebra.",
    "Values outside the algebra (deeper nesting, more members) are represented by these; 'built from expressions' is read as whole row / whole include / whole entry." + OVERLAY_NOTE,
    "exhaustive enumeration of all matrices over a small value algebra vs recursive reference model; controlled map iteration")
chk("C20",
    "Stateless model checking of the real Linter.Lint/LintFile/LintFiles + concurrentProcess + externalCommand + shellcheck/pyflakes rule callbacks under a controlled scheduler over a scripted os/exec: per scenario (every shell source, <=2 files, <=3 run steps, semaphore size 1|2) all interleavings up to 2 preemptions (thorough 3) x all per-invocation tool outcomes with <=1 non-default answer (thorough 2); oracle: exact invocation multiset with equally long placeholder replacement, one diagnostic per issue at the run: key, fatal error for every listed failure, at most NumCPU processes at once, everything finished and collected when Lint* returns (success and error path), no deadlock, no WaitGroup misuse; plus sanitizeExpressionsInScript on all strings <=8 over 6 symbols against a reference.",
    "The operating system below process.go is scripted (vexec); scheduling points are the sync operations, so unsynchronised accesses between them are outside this check (supported by a free-running -race pass only). Happens-before state caching assumes data-race freedom. RWMutex writer preference / semaphore FIFO are not modelled (superset of behaviours)." + OVERLAY_NOTE,
    "controlled-scheduler stateless DFS with preemption and fault bounding + happens-before state caching, on the real code")

# --- keep adding entries above this line -------------------------------------------------------

ALL = [f"C{i:02d}" for i in range(1, 21)]
NA_REASON = {}

def main():
    here = os.path.dirname(os.path.dirname(os.path.abspath(__file__)))
    m = {
        "version": 1,
        "setup_cmd": "cd /verif && export GOFLAGS=-mod=mod GOPROXY=off GOSUMDB=off GOTOOLCHAIN=local && mkdir -p bin && go build -o bin/vcheck ./cmd/vcheck && go build -o bin/mkoverlay ./cmd/mkoverlay && ./bin/vcheck setup",
        "hooks": {
            "guard": "verif",
            "enable": "no source hooks are committed to /repo: every check builds /repo's working tree with `go test -c -overlay` (overlay generated by /verif/internal/overlay on every run): sync / errgroup / semaphore / os-exec imports redirected to /verif/ovl/shim, range-over-map rewritten to vsched.MapRange, harness files added in-package",
            "baseline_off_cmd": "cd /repo && GOFLAGS=-mod=mod go test -vet=off -count=1 -timeout 25m ./...",
            "source_commits": [],
            "add_only": True,
        },
        "engines": [
            {"name": "vcheck", "path": "/verif/cmd/vcheck", "serves_properties": ALL, "kind_free_text": "driver: overlay generation from /repo, instrumented build, conformance replay vs plain build, sharded runs, evidence, known-findings classification"},
            {"name": "vsched (Engine A)", "path": "/verif/ovl/shim/vsched", "serves_properties": ["C02", "C09", "C10", "C18", "C19", "C20"], "kind_free_text": "hand-written controlled scheduler + stateless DFS over scheduling, map-iteration-order and environment (tool outcome) choice points with preemption / deviation / fault budgets"},
            {"name": "Engine B harnesses", "path": "/verif/ovl/harness", "serves_properties": ALL, "kind_free_text": "bounded-exhaustive enumerators and reference models run in-package against the real code"},
        ],
        "checks": [CHECKS[k] for k in sorted(CHECKS)],
        "not_applicable": [
            {"property_id": i, "reason": NA_REASON.get(i, "check not built yet (work in progress; planned per DESIGN.md section 5)")}
            for i in ALL if i not in CHECKS
        ],
    }
    with open(os.path.join(here, "MANIFEST.json"), "w") as f:
        json.dump(m, f, indent=1)
        f.write("\n")

if __name__ == "__main__":
    main()
